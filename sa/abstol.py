"""Default absolute tolerance applied to data.

np.isclose / np.allclose carry an absolute tolerance of 1e-8 unless `atol` is given.  Applied to a data-dependent quantity (a central
value, an eigenvalue, a fluctuation, a denominator) such a test answers differently for the same data in other units: an observable of
order 1e-9 "is zero", a divisor of 1e-9 "is zero", an indefinite matrix with entries of order 1e-9 "is semi-definite".  The properties
are stated for all finite values, so a test of this kind in the code of a property is a violation of it.  Today's uses are frozen below
with the reason why each is harmless; an explicit atol (keyword, or fourth positional argument) is the documented way to say what is
meant and is accepted as is.
"""
import ast

from .srcmodel import unparse, walk

# (relpath, function qualname, normalised call text prefix)  ->  reason
ALLOW = {
    ('pyerrors/obs.py', 'derived_observable', 'np.allclose(allcov[name], o.covobs[name].cov)'): 'consistency of two copies of one user-supplied covariance matrix; raises on mismatch, never accepts data as zero',
    ('pyerrors/input/hadrons.py', 'extract_t0_hd5', 'np.allclose(corr_data'): 'flow times of a file compared with themselves (file self-consistency)',
    ('pyerrors/input/hadrons.py', '_propagate_mom', 'np.allclose(s_mom, o_mom)'): 'momenta of two operands (integers) compared',
    ('pyerrors/input/hadrons.py', '_get_lorentz_names', 'np.isclose(fac, 0.0)'): 'structure constant of a fixed table',
}


def _has_atol(c):
    return any(k.arg == 'atol' for k in c.keywords) or len(c.args) >= 4


def sites(mod):
    out = []
    for q, f in mod.functions():
        for c in walk(f, skip_nested_defs=True):
            if isinstance(c, ast.Call) and (mod.dotted(c.func) or '') in ('numpy.isclose', 'numpy.allclose', 'autograd.numpy.isclose', 'autograd.numpy.allclose'):
                out.append((q, f, c))
    return out


def check(ctx, rule, mod):
    n = 0
    for q, f, c in sites(mod):
        n += 1
        if _has_atol(c):
            continue
        txt = unparse(c)
        if any(k[0] == mod.relpath and txt.startswith(k[2]) and (k[1] == q or q.endswith('.' + k[1]) or k[1].endswith(q)) for k in ALLOW):
            continue
        # every argument a literal: nothing of the data is tested
        if all(isinstance(a, ast.Constant) for a in c.args[:2]):
            continue
        ctx.violated(rule, '%s:%s#default-absolute-tolerance[%s]' % (mod.relpath.replace('pyerrors/', ''), q, txt[:40]),
                     '`%s` compares data with the default absolute tolerance 1e-8: quantities of magnitude below 1e-8 are treated as equal / zero, so the behaviour depends on the '
                     'units of the data (the property holds for all finite values)' % txt, mod.loc(c))
    ctx.holds(rule, '%s#tolerances-explicit' % mod.relpath.replace('pyerrors/', ''), '%d numpy closeness tests of %s carry an explicit absolute tolerance or are listed as scale independent' % (n, mod.relpath))
    return n
