"""Two small API-level rules shared by several properties.

alias_in_loop:  a buffer that is allocated before a loop, filled element-wise inside the loop and appended / stored by reference
                inside the loop makes every stored entry the same object (the last iteration wins).  The stored value has to be a
                copy (np.copy(b), b.copy(), list(b), np.array(b), b[:]) or the buffer has to be allocated inside the loop.
charset_strip:  str.strip / lstrip / rstrip take a SET of characters; a multi-character literal such as '.h5' also removes
                trailing '5', 'h' and '.' of the stem ('stem.55.h5' -> 'stem').  Removing a suffix needs replace / removesuffix /
                slicing.
"""
import ast

from .srcmodel import unparse, walk, call_name

ALLOC = ('zeros', 'empty', 'ones', 'zeros_like', 'empty_like', 'full', 'array', 'list', 'dict')
COPIES = ('copy', 'deepcopy', 'array', 'list', 'asarray_chkfinite', 'tuple')


def alias_in_loop(ctx, rule, mod, qualnames=None):
    n = 0
    for q, f in mod.functions():
        if qualnames is not None and q not in qualnames:
            continue
        for loop in walk(f):
            if not isinstance(loop, (ast.For, ast.While)) or mod.enclosing_func(loop) is not f:
                continue
            inside = {id(x) for x in ast.walk(loop)}
            # buffers element-stored inside the loop and bound before it (never rebound inside)
            stored = {}
            for x in ast.walk(loop):
                if isinstance(x, ast.Subscript) and isinstance(x.ctx, ast.Store):
                    b = x.value
                    while isinstance(b, ast.Subscript):
                        b = b.value
                    if isinstance(b, ast.Name):
                        stored.setdefault(b.id, x)
            for name, site in stored.items():
                rebinds = [x for x in ast.walk(loop) if isinstance(x, ast.Name) and x.id == name and isinstance(x.ctx, ast.Store)]
                if rebinds:
                    continue
                defs = [s for s in walk(f) if isinstance(s, ast.Assign) and len(s.targets) == 1 and isinstance(s.targets[0], ast.Name) and s.targets[0].id == name and id(s) not in inside
                        and s.lineno < loop.lineno]
                if not defs or not (isinstance(defs[-1].value, ast.Call) and call_name(defs[-1].value) in ALLOC or isinstance(defs[-1].value, (ast.List, ast.ListComp))):
                    continue
                for c in ast.walk(loop):
                    val = None
                    if isinstance(c, ast.Call) and isinstance(c.func, ast.Attribute) and c.func.attr == 'append' and len(c.args) == 1:
                        val = c.args[0]
                        holder = unparse(c.func.value)
                    elif isinstance(c, ast.Assign) and isinstance(c.targets[0], ast.Subscript) and isinstance(c.value, ast.Name):
                        val = c.value
                        holder = unparse(c.targets[0].value)
                    if isinstance(val, ast.Name) and val.id == name and holder != name:
                        n += 1
                        ctx.violated(rule, '%s:%s#aliased-buffer[%s]' % (mod.relpath.replace('pyerrors/', ''), q, name),
                                     'the buffer `%s` is allocated once before the loop at line %d, filled inside it and stored into `%s` by reference: all stored entries are the same object and show the last iteration' % (
                                         name, loop.lineno, holder), mod.loc(c))
    return n


def charset_strip(ctx, rule, mod):
    n = 0
    for c in ast.walk(mod.tree):
        if not (isinstance(c, ast.Call) and isinstance(c.func, ast.Attribute) and c.func.attr in ('strip', 'lstrip', 'rstrip') and len(c.args) == 1):
            continue
        lits = None
        if isinstance(c.args[0], ast.Constant) and isinstance(c.args[0].value, str):
            lits = [c.args[0].value]
        elif isinstance(c.args[0], ast.Name):
            # the variable of a loop over a display of string literals (for suffix in ['.dat', '.ms1']: name.rstrip(suffix))
            q = mod.parents.get(c)
            while q is not None and lits is None:
                if isinstance(q, (ast.For, ast.comprehension)) and isinstance(q.target, ast.Name) and q.target.id == c.args[0].id:
                    it = q.iter
                    if isinstance(it, ast.Name):
                        f_ = mod.enclosing_func(c)
                        ds = [s_ for s_ in ast.walk(f_ if f_ is not None else mod.tree) if isinstance(s_, ast.Assign) and len(s_.targets) == 1 and isinstance(s_.targets[0], ast.Name)
                              and s_.targets[0].id == it.id]
                        it = ds[0].value if len(ds) == 1 else it
                    if isinstance(it, (ast.List, ast.Tuple, ast.Set)) and it.elts and all(isinstance(e, ast.Constant) and isinstance(e.value, str) for e in it.elts):
                        lits = [e.value for e in it.elts]
                    break
                if isinstance(q, (ast.ListComp, ast.GeneratorExp, ast.SetComp, ast.DictComp)):
                    for g in q.generators:
                        if isinstance(g.target, ast.Name) and g.target.id == c.args[0].id and isinstance(g.iter, (ast.List, ast.Tuple)) and g.iter.elts and all(
                                isinstance(e, ast.Constant) and isinstance(e.value, str) for e in g.iter.elts):
                            lits = [e.value for e in g.iter.elts]
                q = mod.parents.get(q)
        if lits is None:
            continue
        n += 1
        bad = [lit for lit in lits if len(set(lit)) >= 2 and not lit.isspace() and any(ch.isalnum() for ch in lit)]
        if bad:
            lit = bad[0]
            ctx.violated(rule, '%s#charset-strip[%s]' % (mod.relpath.replace('pyerrors/', ''), unparse(c)[:50]),
                         '`%s` removes every leading/trailing character out of the set %r, not the suffix %r: names or numbers ending in one of these characters are damaged' % (
                             unparse(c), sorted(set(lit)), lit), mod.loc(c))
    return n


def stale_buffer(ctx, rule, mod, qualnames):
    """a list that is filled and consumed inside a loop but never read after it is a per-iteration buffer: it has to be initialised
    inside the loop body.  Initialised once in front of the loop it still holds the entries of the previous iterations (replica 2
    sees the samples of replica 1 at the front of the buffer)."""
    n = 0
    for q in qualnames:
        if not mod.has_func(q):
            continue
        f = mod.func(q)
        for loop in [x for x in walk(f) if isinstance(x, ast.For) and mod.enclosing_func(x) is f]:
            inside = {id(x) for x in ast.walk(loop)}
            appended = {}
            for c in ast.walk(loop):
                if isinstance(c, ast.Call) and isinstance(c.func, ast.Attribute) and c.func.attr in ('append', 'extend') and isinstance(c.func.value, ast.Name):
                    appended.setdefault(c.func.value.id, c)
            for name, site in appended.items():
                occ = [x for x in walk(f) if isinstance(x, ast.Name) and x.id == name]
                inits = [s_ for s_ in walk(f) if isinstance(s_, ast.Assign) and len(s_.targets) == 1 and isinstance(s_.targets[0], ast.Name) and s_.targets[0].id == name
                         and isinstance(s_.value, ast.List) and not s_.value.elts]
                if not inits:
                    continue
                init_inside = [s_ for s_ in inits if id(s_) in inside]
                read_inside = [x for x in occ if id(x) in inside and isinstance(x.ctx, ast.Load) and not (isinstance(mod.parents.get(x), ast.Attribute) and mod.parents[x].attr in ('append', 'extend'))]
                read_after = [x for x in occ if id(x) not in inside and isinstance(x.ctx, ast.Load) and x.lineno > loop.end_lineno]
                outer = [lp for lp in walk(f) if isinstance(lp, (ast.For, ast.While)) and lp is not loop and id(loop) in {id(y) for y in ast.walk(lp)}]
                if not read_inside or read_after or outer:
                    continue
                n += 1
                ctx.check(rule, '%s:%s#loop-buffer[%s]' % (mod.relpath.replace('pyerrors/', ''), q, name), bool(init_inside),
                          'the buffer `%s` is initialised inside the loop at line %d' % (name, loop.lineno),
                          'the buffer `%s` is filled and consumed inside the loop at line %d but initialised only once in front of it: from the second iteration on it still contains the entries of the '
                          'previous iterations' % (name, loop.lineno), mod.loc(site))
    return n


def stale_accumulator(ctx, rule, mod, qualnames):
    """the dict counterpart of stale_buffer: a dict whose entries are accumulated (`d[k] = d.get(k, 0) + x`, `d[k] += x`) and consumed
    inside a loop but never read after it is a per-iteration accumulator and has to start empty in every iteration.  Initialised once in
    front of the loop, iteration n also contains the sums of iterations 0..n-1 (the gradient of element n of a vector-valued function
    contains the gradients of the elements before it)."""
    n = 0
    for q in qualnames:
        if not mod.has_func(q):
            continue
        f = mod.func(q)
        for loop in [x for x in walk(f) if isinstance(x, ast.For) and mod.enclosing_func(x) is f]:
            if any(isinstance(lp, (ast.For, ast.While)) and lp is not loop and any(y is loop for y in ast.walk(lp)) for lp in walk(f)):
                continue
            inside = {id(x) for x in ast.walk(loop)}
            acc = {}
            for st in ast.walk(loop):
                tg = None
                if isinstance(st, ast.AugAssign) and isinstance(st.target, ast.Subscript) and isinstance(st.target.value, ast.Name):
                    tg = st.target.value.id
                elif isinstance(st, ast.Assign) and len(st.targets) == 1 and isinstance(st.targets[0], ast.Subscript) and isinstance(st.targets[0].value, ast.Name) \
                        and any(isinstance(w, ast.Name) and w.id == st.targets[0].value.id for w in ast.walk(st.value)):
                    tg = st.targets[0].value.id
                if tg is not None:
                    # an entry addressed by the loop's own variable is a slot of this iteration alone
                    sl = st.target.slice if isinstance(st, ast.AugAssign) else st.targets[0].slice
                    lv = {w.id for w in ast.walk(loop.target) if isinstance(w, ast.Name)}
                    if not any(isinstance(w, ast.Name) and w.id in lv for w in ast.walk(sl)):
                        acc.setdefault(tg, st)
            for name, site in acc.items():
                occ = [x for x in walk(f) if isinstance(x, ast.Name) and x.id == name]
                inits = [s_ for s_ in walk(f) if isinstance(s_, ast.Assign) and len(s_.targets) == 1 and isinstance(s_.targets[0], ast.Name) and s_.targets[0].id == name
                         and ((isinstance(s_.value, ast.Dict) and not s_.value.keys) or (isinstance(s_.value, ast.Call) and unparse(s_.value) in ('dict()', 'defaultdict(int)', 'defaultdict(float)')))]
                if not inits:
                    continue
                init_inside = [s_ for s_ in inits if id(s_) in inside]
                consumed = [x for x in occ if id(x) in inside and isinstance(x.ctx, ast.Load) and not any(x is w for w in ast.walk(site))]
                read_after = [x for x in occ if id(x) not in inside and isinstance(x.ctx, ast.Load) and x.lineno > loop.end_lineno]
                if not consumed or read_after:
                    continue
                n += 1
                ctx.check(rule, '%s:%s#loop-accumulator[%s]' % (mod.relpath.replace('pyerrors/', ''), q, name), bool(init_inside),
                          'the accumulator `%s` starts empty in every iteration of the loop at line %d' % (name, loop.lineno),
                          'the accumulator `%s` is summed up and consumed inside the loop at line %d but emptied only once in front of it: from the second iteration on it still contains the '
                          'sums of the previous iterations' % (name, loop.lineno), mod.loc(site))
    return n
