"""Generic rule <id>-G4: rows created by list repetition are not written through the list.

`L = [E] * n` holds n references to ONE object E.  That is harmless while the entries are only read or replaced (`L[t] = ...`), but a
store through an entry (`L[t][i, j] = x`, `L[t].append(x)`, `L[t] += ...` on a mutable) changes all n entries at once: every
"row" ends up with the content written last.  VIOLATED for each such store when E is a mutable object (a display, a call that
builds a container / array, or a name bound to one); immutable elements (None, numbers, strings, tuples of those) are exempt.
"""
import ast

from .srcmodel import unparse, walk

MUT = {'append', 'extend', 'insert', 'pop', 'remove', 'clear', 'sort', 'reverse', 'update', 'add', 'discard', 'setdefault', 'fill', 'resize'}


def _immutable(e):
    if isinstance(e, ast.Constant):
        return True
    if isinstance(e, ast.UnaryOp):
        return _immutable(e.operand)
    if isinstance(e, ast.Tuple):
        return all(_immutable(x) for x in e.elts)
    if isinstance(e, ast.Attribute) and unparse(e) in ('np.nan', 'np.inf', 'numpy.nan'):
        return True
    return False


def check(ctx, rule, mod):
    n = 0
    for q, f in mod.functions():
        for st in walk(f):
            if mod.enclosing_func(st) is not f or not (isinstance(st, ast.Assign) and len(st.targets) == 1 and isinstance(st.targets[0], ast.Name)):
                continue
            v = st.value
            if not (isinstance(v, ast.BinOp) and isinstance(v.op, ast.Mult)):
                continue
            lst = v.left if isinstance(v.left, ast.List) else (v.right if isinstance(v.right, ast.List) else None)
            if lst is None or len(lst.elts) != 1 or _immutable(lst.elts[0]):
                continue
            L = st.targets[0].id
            n += 1
            key = '%s:%s#repeated-rows[%s]' % (mod.relpath.replace('pyerrors/', ''), q, L)
            bad = None
            for w in walk(f):
                # L[a][b] = ... / L[a].x = ...
                if isinstance(w, (ast.Subscript, ast.Attribute)) and isinstance(w.ctx, ast.Store) and isinstance(w.value, ast.Subscript) and isinstance(w.value.value, ast.Name) and w.value.value.id == L:
                    bad = w
                if isinstance(w, ast.Call) and isinstance(w.func, ast.Attribute) and w.func.attr in MUT and isinstance(w.func.value, ast.Subscript) and isinstance(w.func.value.value, ast.Name) \
                        and w.func.value.value.id == L:
                    bad = w
                if isinstance(w, ast.AugAssign) and isinstance(w.target, ast.Subscript) and isinstance(w.target.value, ast.Subscript) and isinstance(w.target.value.value, ast.Name) \
                        and w.target.value.value.id == L:
                    bad = w
                if bad is not None:
                    break
            if bad is not None:
                ctx.violated(rule, key, '`%s` holds %s references to ONE object `%s`; `%s` writes through an entry and thereby changes every entry: all rows end up with the values '
                             'written last' % (unparse(st)[:70], 'n', unparse(lst.elts[0])[:40], unparse(mod.parents.get(bad) if not isinstance(bad, ast.Call) else bad)[:60]), mod.loc(bad))
            else:
                ctx.holds(rule, key, 'the repeated entries are only read or replaced as a whole')
    return n
