"""Checked-use analysis of binary reads: every `t = fp.read(k)` whose bytes are used must flow into
struct.unpack(fmt, t) with calcsize(fmt) == k (symbolically) or into a length / emptiness test that leaves the loop."""
import ast

import sympy as sp

from .srcmodel import Unrecognised, unparse, call_name, statements, walk, const

SIZES = {'i': 4, 'I': 4, 'l': 4, 'L': 4, 'f': 4, 'd': 8, 'q': 8, 'Q': 8, 'h': 2, 'H': 2, 'c': 1, 'b': 1, 'B': 1, '?': 1, 'x': 1}


class Ints:
    def __init__(self, mod, func):
        self.mod, self.f = mod, func
        self.syms = {}
        self.defs = {}
        for s in statements(func):
            if isinstance(s, ast.Assign) and len(s.targets) == 1 and isinstance(s.targets[0], ast.Name):
                self.defs.setdefault(s.targets[0].id, []).append(s)

    def sym(self, name):
        if name not in self.syms:
            self.syms[name] = sp.Symbol(name, integer=True, positive=True)
        return self.syms[name]

    def expr(self, e):
        if isinstance(e, ast.Constant) and isinstance(e.value, int) and not isinstance(e.value, bool):
            return sp.Integer(e.value)
        if isinstance(e, ast.Name):
            ds = self.defs.get(e.id, [])
            if len(ds) == 1 and isinstance(ds[0].value, ast.BinOp) and e.id not in getattr(self, '_busy', set()):
                self._busy = getattr(self, '_busy', set()) | {e.id}
                try:
                    return self.expr(ds[0].value)
                except Unrecognised:
                    pass
                finally:
                    self._busy = self._busy - {e.id}
            return self.sym(e.id)
        if isinstance(e, ast.Subscript):
            return self.sym(unparse(e))
        if isinstance(e, ast.BinOp):
            a, b = self.expr(e.left), self.expr(e.right)
            if isinstance(e.op, ast.Add):
                return a + b
            if isinstance(e.op, ast.Sub):
                return a - b
            if isinstance(e.op, ast.Mult):
                return a * b
        if isinstance(e, ast.Call) and call_name(e) == 'len' and len(e.args) == 1:
            return self.sym(unparse(e))
        raise Unrecognised('size expression %s' % unparse(e))

    def str_size(self, s):
        body = s.lstrip('<>=!@')
        native = not s or s[0] not in '<>=!'
        total = 0
        kinds = set()
        num = ''
        for ch in body:
            if ch.isdigit():
                num += ch
                continue
            if ch.isspace():
                continue
            if ch not in SIZES:
                raise Unrecognised('format character %r' % ch)
            total += (int(num) if num else 1) * SIZES[ch]
            kinds.add(SIZES[ch])
            num = ''
        if native and len(kinds) > 1:
            raise Unrecognised('native alignment with mixed item sizes in %r' % s)
        return sp.Integer(total)

    def fmt(self, e, depth=0):
        """symbolic struct.calcsize of a format expression"""
        if isinstance(e, ast.Constant) and isinstance(e.value, str):
            return self.str_size(e.value)
        if isinstance(e, ast.Name):
            ds = self.defs.get(e.id, [])
            if len(ds) == 1 and depth < 3:
                return self.fmt(ds[0].value, depth + 1)
            if len(ds) > 1 and all(isinstance(d.value, ast.Constant) and isinstance(d.value.value, str) for d in ds):
                # table variable (e.g. types) -> handled by the caller through `size`
                return sp.Symbol('calcsize(%s)' % e.id, integer=True, positive=True)
            raise Unrecognised('format name %s' % e.id)
        if isinstance(e, ast.BinOp) and isinstance(e.op, ast.Add):
            return self.fmt(e.left, depth) + self.fmt(e.right, depth)
        if isinstance(e, ast.BinOp) and isinstance(e.op, ast.Mult):
            # 'd' * n * m   (string on the far left)
            left = e.left
            factors = [e.right]
            while isinstance(left, ast.BinOp) and isinstance(left.op, ast.Mult):
                factors.append(left.right)
                left = left.left
            r = self.fmt(left, depth)
            for fct in factors:
                r = r * self.expr(fct)
            return r
        if isinstance(e, ast.BinOp) and isinstance(e.op, ast.Mod) and isinstance(e.left, ast.Constant) and isinstance(e.left.value, str):
            t = e.left.value
            args = e.right.elts if isinstance(e.right, ast.Tuple) else [e.right]
            if t == '%di' and len(args) == 1:
                return 4 * self.expr(args[0])
            if t == '%dd' and len(args) == 1:
                return 8 * self.expr(args[0])
            if t == '%d%s' and len(args) == 2:
                return self.expr(args[0]) * self.fmt(args[1], depth)
        raise Unrecognised('format expression %s' % unparse(e))


def type_tables(mod, func):
    """if/elif chains `if size == 4: types = 'i'` -> [(4, 'i'), ...]"""
    out = []
    for s in statements(func):
        if isinstance(s, ast.If) and isinstance(s.test, ast.Compare) and isinstance(s.test.ops[0], ast.Eq) and const(s.test.comparators[0]) is not None \
                and len(s.body) == 1 and isinstance(s.body[0], ast.Assign) and isinstance(s.body[0].value, ast.Constant) and isinstance(s.body[0].value.value, str):
            out.append((unparse(s.test.left), const(s.test.comparators[0]), unparse(s.body[0].targets[0]), s.body[0].value.value, s))
    return out


class Read:
    def __init__(self, node, stmt, size, var):
        self.node, self.stmt, self.size, self.var = node, stmt, size, var
        self.kind = 'discarded'
        self.detail = ''
        self.ok = None


def analyse(mod, func):
    """returns list of Read for every <file>.read(k) in func"""
    ints = Ints(mod, func)
    sts = [s for s in statements(func)]
    reads = []
    # collect reads in source order
    for s in sts:
        for c in walk(s, skip_nested_defs=True):
            if isinstance(c, ast.Call) and isinstance(c.func, ast.Attribute) and c.func.attr == 'read' and isinstance(c.func.value, ast.Name) and c.func.value.id in ('fp', 'f', 'fin', 'file') \
                    and len(c.args) == 1 and mod.parents.get(c) is not None:
                # only direct children statements (avoid counting the same call for nested statements twice)
                owner = c
                while not isinstance(owner, ast.stmt):
                    owner = mod.parents[owner]
                if owner is not s:
                    continue
                var = None
                if isinstance(s, ast.Assign) and s.value is c and isinstance(s.targets[0], ast.Name):
                    var = s.targets[0].id
                reads.append(Read(c, s, c.args[0], var))
    tables = type_tables(mod, func)
    for r in reads:
        try:
            size = ints.expr(r.size)
        except Unrecognised as e:
            r.kind, r.detail = 'unrecognised', str(e)
            continue
        if r.var is None:
            par = mod.parents.get(r.node)
            if isinstance(par, ast.Call) and (mod.dotted(par.func) or '') == 'struct.unpack' and len(par.args) == 2 and par.args[1] is r.node:
                r.kind = 'unpack'
                check_fmt(ints, tables, r, par.args[0], size)
            else:
                r.kind, r.detail = 'raw', 'bytes of an inline read are used by %s' % unparse(par)[:60]
            continue
        # live range: statements after r.stmt until the next assignment to the same name
        i = sts.index(r.stmt)
        uses = []
        for s in sts[i + 1:]:
            if isinstance(s, ast.Assign) and any(isinstance(t, ast.Name) and t.id == r.var for t in s.targets):
                # uses inside the right hand side of the reassignment still belong to the old value
                for n in walk(s.value):
                    if isinstance(n, ast.Name) and n.id == r.var:
                        uses.append(n)
                break
            if isinstance(s, (ast.For, ast.AsyncFor)) and any(isinstance(t, ast.Name) and t.id == r.var for t in ast.walk(s.target)):
                break
            head = [s.test] if isinstance(s, (ast.If, ast.While)) else ([s.iter] if isinstance(s, ast.For) else None)
            nodes = head if head is not None else [s]
            if isinstance(s, (ast.With, ast.Try, ast.FunctionDef)):
                nodes = []
            for nd in nodes:
                for n in walk(nd):
                    if isinstance(n, ast.Name) and n.id == r.var and isinstance(n.ctx, ast.Load):
                        uses.append(n)
        if not uses:
            r.kind = 'discarded'
            continue
        kinds = []
        for u in uses:
            par = mod.parents.get(u)
            if isinstance(par, ast.Call) and (mod.dotted(par.func) or '') == 'struct.unpack' and len(par.args) == 2 and par.args[1] is u:
                kinds.append('unpack')
                check_fmt(ints, tables, r, par.args[0], size)
            elif isinstance(par, ast.Call) and call_name(par) == 'len':
                cmp_ = mod.parents.get(par)
                if isinstance(cmp_, ast.Compare) and isinstance(cmp_.ops[0], (ast.Lt, ast.NotEq)) and cmp_.left is par:
                    try:
                        k = ints.expr(cmp_.comparators[0])
                        if sp.simplify(k - size) != 0:
                            r.ok = False
                            r.detail = 'length test compares with %s but %s bytes were requested' % (k, size)
                    except Unrecognised:
                        pass
                    kinds.append('lentest')
                else:
                    kinds.append('raw')
            elif isinstance(par, ast.UnaryOp) and isinstance(par.op, ast.Not):
                kinds.append('emptytest')
            else:
                kinds.append('raw')
                r.detail = 'bytes are used by `%s` without a size-checked unpack' % unparse(par)[:70]
        if 'raw' in kinds:
            r.kind = 'raw'
        elif 'unpack' in kinds:
            r.kind = 'unpack'
        else:
            r.kind = 'test-only'
    return reads


def check_fmt(ints, tables, r, fmt_node, size):
    try:
        fs = ints.fmt(fmt_node)
    except Unrecognised as e:
        r.ok, r.detail = None, str(e)
        return
    # table variables: calcsize(types) == size per branch
    for s in list(fs.free_symbols):
        if s.name.startswith('calcsize('):
            var = s.name[len('calcsize('):-1]
            rows = [t for t in tables if t[2] == var]
            if not rows:
                r.ok, r.detail = None, 'no table for %s' % var
                return
            key = rows[0][0]
            bad = [(k, v) for _, k, _, v, _ in rows if ints.str_size(v) != k]
            if bad:
                r.ok, r.detail = False, 'type table maps item size %s to format %r' % bad[0]
                return
            fs = fs.subs(s, ints.sym(key))
    d = sp.simplify(sp.expand(fs - size))
    if d == 0:
        if r.ok is None:
            r.ok = True
    else:
        r.ok = False
        r.detail = 'struct format %s has size %s but %s bytes are read' % (unparse(fmt_node), fs, size)
