"""Effect analysis: which parameters (incl. self) may a function mutate, and where.

Abstract value of an expression = set of Ref(root, path, shallow):
  root    parameter name the value may alias (or be reachable from)
  path    tuple of attribute names / '[]' leading from the root to the value
  shallow True if the value is a fresh container whose *elements* alias root+path elements
Flow sensitive, syntax directed: strong update on `name = expr`, join (union) at control-flow merges,
loop bodies are analysed twice.  Calls produce fresh values except identity-like functions and package
functions with a return-alias summary; package callees with a mutation summary propagate events.
"""
import ast

from .srcmodel import walk, call_name, unparse

# builtin in-place methods that return None (count only when the call's value is unused) ...
INPLACE_NONE = {'append', 'extend', 'insert', 'remove', 'sort', 'reverse', 'clear', 'update', 'fill', 'resize', 'put',
                'itemset', 'add', 'discard', 'sort_values', 'setflags', 'partition', 'shuffle'}
# ... and those that return a value
INPLACE_VALUE = {'pop', 'popitem', 'setdefault'}
IDENTITY_CALLS = {'numpy.asarray', 'numpy.asanyarray', 'numpy.ravel', 'numpy.atleast_1d', 'numpy.squeeze', 'numpy.real', 'numpy.transpose'}
IDENTITY_METHODS = {'ravel', 'reshape', 'view', 'squeeze', 'transpose', 'swapaxes'}
SHALLOW_COPY_CALLS = {'list', 'tuple', 'dict', 'set', 'sorted', 'reversed', 'numpy.array', 'copy.copy', 'numpy.copy'}
SHALLOW_COPY_METHODS = {'copy', 'tolist', 'items', 'values', 'keys', 'flatten'}
ELEMENT_METHODS = {'get'}


class Ref:
    __slots__ = ('root', 'path', 'shallow')

    def __init__(self, root, path=(), shallow=False):
        self.root, self.path, self.shallow = root, tuple(path), shallow

    def key(self):
        return (self.root, self.path, self.shallow)

    def __hash__(self):
        return hash(self.key())

    def __eq__(self, o):
        return self.key() == o.key()

    def child(self, step):
        p = self.path + (step,)
        if len(p) > 6:
            p = p[:6]
        return Ref(self.root, p, False)

    def __repr__(self):
        return '%s%s%s' % (self.root, ''.join('.' + s if s != '[]' else '[]' for s in self.path), '(copy)' if self.shallow else '')


class Event:
    def __init__(self, ref, kind, node, via=None):
        self.ref, self.kind, self.node, self.via = ref, kind, node, via

    def __repr__(self):
        return '%s %r line %d%s' % (self.kind, self.ref, getattr(self.node, 'lineno', 0), (' via ' + self.via) if self.via else '')


class Summary:
    def __init__(self, params):
        self.params = params
        self.mutates = {}        # param name -> list of Event
        self.returns = set()     # param names whose refs may be returned (with paths)
        self.return_refs = set()
        self.events = []
        self.reads = set()       # (root, first path step) pairs read


class Analyzer:
    def __init__(self, repo):
        self.repo = repo
        self.summaries = {}      # (modname, qualname) -> Summary
        self.funcs = {}
        for mname, m in repo.modules.items():
            for q, node in m.functions():
                self.funcs[(mname, q)] = node

    # ---- callee resolution (name based inside the package)
    def resolve(self, mod, fnode, call):
        f = call.func
        q = mod.qualname_of(fnode) or ''
        if isinstance(f, ast.Name):
            # nested function of an enclosing scope, then module level, then imported from the package
            parts = q.split('.')
            for i in range(len(parts), -1, -1):
                cand = '.'.join(parts[:i] + [f.id])
                if (mod.name, cand) in self.funcs:
                    return (mod.name, cand)
            d = mod.aliases.get(f.id)
            if d and d.startswith('pyerrors.'):
                mn, _, fn = d[len('pyerrors.'):].rpartition('.')
                if (mn, fn) in self.funcs:
                    return (mn, fn)
            return None
        if isinstance(f, ast.Attribute) and isinstance(f.value, ast.Name) and f.value.id == 'self' and '.' in q:
            cls = q.split('.')[0]
            if (mod.name, cls + '.' + f.attr) in self.funcs:
                return (mod.name, cls + '.' + f.attr)
        return None

    def summary(self, key, depth=0):
        if key in self.summaries:
            return self.summaries[key]
        node = self.funcs[key]
        params = [a.arg for a in node.args.posonlyargs + node.args.args]
        if node.args.vararg:
            params.append(node.args.vararg.arg)
        params += [a.arg for a in node.args.kwonlyargs]
        if node.args.kwarg:
            params.append(node.args.kwarg.arg)
        s = Summary(params)
        self.summaries[key] = s          # provisional (recursion -> empty)
        if depth > 12:
            return s
        mod = self.repo.modules[key[0]]
        fa = _FuncAnalysis(self, mod, node, params, depth)
        fa.run()
        s.events = fa.events
        for ev in fa.events:
            s.mutates.setdefault(ev.ref.root, []).append(ev)
        s.return_refs = fa.returned
        s.returns = {r.root for r in fa.returned}
        s.reads = fa.reads
        return s


class _FuncAnalysis:
    def __init__(self, an, mod, node, params, depth):
        self.an, self.mod, self.node, self.params, self.depth = an, mod, node, params, depth
        self.events = []
        self.returned = set()
        self.reads = set()
        self._seen_ev = set()

    def run(self):
        env = {p: {Ref(p)} for p in self.params}
        self.block(self.node.body, env)

    # ---- expressions
    def val(self, e, env):
        if e is None:
            return set()
        if isinstance(e, ast.Name):
            return set(env.get(e.id, ()))
        if isinstance(e, ast.Attribute):
            base = self.val(e.value, env)
            for r in base:
                if not r.path:
                    self.reads.add((r.root, e.attr))
            out = set()
            for r in base:
                out.add(r.child(e.attr) if not r.shallow else Ref(r.root, r.path, False))
            return out
        if isinstance(e, ast.Subscript):
            base = self.val(e.value, env)
            self.val(e.slice, env)
            out = set()
            for r in base:
                if isinstance(e.slice, ast.Slice):
                    # slicing a list copies, slicing an ndarray is a view: keep may-alias of the container
                    out.add(Ref(r.root, r.path, r.shallow))
                else:
                    out.add(_elem_of(r))
            return out
        if isinstance(e, ast.IfExp):
            self.val(e.test, env)
            return self.val(e.body, env) | self.val(e.orelse, env)
        if isinstance(e, ast.BoolOp):
            out = set()
            for v in e.values:
                out |= self.val(v, env)
            return out
        if isinstance(e, ast.NamedExpr):
            v = self.val(e.value, env)
            env[e.target.id] = v
            return v
        if isinstance(e, ast.Starred):
            return self.val(e.value, env)
        if isinstance(e, (ast.List, ast.Tuple, ast.Set)):
            out = set()
            for x in e.elts:
                for r in self.val(x, env):
                    out.add(_as_element(r))   # a fresh container whose elements alias r
            return out
        if isinstance(e, (ast.ListComp, ast.SetComp, ast.GeneratorExp, ast.DictComp)):
            env2 = dict(env)
            for g in e.generators:
                it = self.val(g.iter, env2)
                self.bind_iter(g.target, g.iter, it, env2)
                for c in g.ifs:
                    self.val(c, env2)
            if isinstance(e, ast.DictComp):
                self.val(e.key, env2)
                ev = self.val(e.value, env2)
            else:
                ev = self.val(e.elt, env2)
            return {_as_element(r) for r in ev}
        if isinstance(e, ast.Call):
            return self.call(e, env, used=True)
        if isinstance(e, ast.Lambda):
            return set()
        # arithmetic, comparisons, constants, f-strings ... : fresh; still visit children for reads / nested calls
        for c in ast.iter_child_nodes(e):
            if isinstance(c, ast.expr):
                self.val(c, env)
        return set()

    def call(self, e, env, used):
        f = e.func
        argvals = [self.val(a, env) for a in e.args]
        kwvals = {k.arg: self.val(k.value, env) for k in e.keywords}
        d = self.mod.dotted(f) or ''
        if isinstance(f, ast.Attribute):
            recv = self.val(f.value, env)
            m = f.attr
            is_module_func = d.split('.')[0] in ('numpy', 'scipy', 'autograd', 'np', 'anp', 'os', 'json', 're', 'struct', 'warnings', 'gzip', 'pickle', 'copy', 'math')
            if recv and not is_module_func:
                if (m in INPLACE_NONE and not used) or m in INPLACE_VALUE:
                    for r in recv:
                        if not r.shallow:
                            self.event(r, 'in-place .%s()' % m, e)
                if m in IDENTITY_METHODS:
                    return {Ref(r.root, r.path, r.shallow) for r in recv}
                if m in SHALLOW_COPY_METHODS:
                    return {Ref(r.root, r.path, True) for r in recv}
                if m in ELEMENT_METHODS or m in INPLACE_VALUE:
                    return {_elem_of(r) for r in recv}
            # self.method(...) inside the package
            key = self.an.resolve(self.mod, self.node, e)
            if key is not None:
                return self.apply_summary(key, e, [recv] + argvals, kwvals, env)
        if d in IDENTITY_CALLS and argvals:
            return set(argvals[0])
        if d in SHALLOW_COPY_CALLS and argvals:
            return {Ref(r.root, r.path, True) for r in argvals[0]}
        if d in ('enumerate', 'zip', 'iter', 'filter', 'map', 'itertools.chain'):
            out = set()
            for av in argvals:
                out |= {Ref(r.root, r.path, True) if not r.shallow else r for r in av}
            return out
        if d in ('getattr',) and argvals:
            return {r.child('?') for r in argvals[0]}
        if d in ('setattr',) and argvals:
            for r in argvals[0]:
                self.event(r.child('?'), 'setattr', e)
            return set()
        key = self.an.resolve(self.mod, self.node, e) if isinstance(f, ast.Name) else None
        if key is not None:
            return self.apply_summary(key, e, argvals, kwvals, env)
        return set()

    def apply_summary(self, key, e, argvals, kwvals, env):
        s = self.an.summary(key, self.depth + 1)
        # methods reached through self.m(...) receive the receiver as first value already
        node = self.an.funcs[key]
        pos = [a.arg for a in node.args.posonlyargs + node.args.args]
        if pos and pos[0] == 'self' and not (isinstance(e.func, ast.Attribute)):
            pos = pos[1:]
        binding = {}
        for i, av in enumerate(argvals):
            if i < len(pos):
                binding[pos[i]] = av
            elif node.args.vararg:
                binding.setdefault(node.args.vararg.arg, set()).update({_as_element(r) for r in av})
        for k, av in kwvals.items():
            if k in pos or k in [a.arg for a in node.args.kwonlyargs]:
                binding[k] = av
        for pname, evs in s.mutates.items():
            for r in binding.get(pname, ()):
                for ev in evs:
                    if r.shallow:
                        # the callee changed the (fresh) container itself: harmless; deeper paths reach the elements
                        if len(ev.ref.path) <= 1:
                            continue
                        el = _elem_of(r)
                        self.event(Ref(el.root, (el.path + ev.ref.path[1:])[:6], False), ev.kind, e, via='%s.%s' % key)
                        continue
                    self.event(Ref(r.root, (r.path + ev.ref.path)[:6], False), ev.kind, e, via='%s.%s' % key)
        out = set()
        for rr in s.return_refs:
            for r in binding.get(rr.root, ()):
                out.add(Ref(r.root, (r.path + rr.path)[:6], r.shallow or rr.shallow))
        return out

    def event(self, ref, kind, node, via=None):
        k = (ref.key(), kind, getattr(node, 'lineno', 0), getattr(node, 'col_offset', 0))
        if k in self._seen_ev:
            return
        self._seen_ev.add(k)
        self.events.append(Event(ref, kind, node, via))

    # ---- statements
    def bind_iter(self, target, iter_expr, itval, env):
        elems = {_elem_of(r) for r in itval}
        names = [n for n in ast.walk(target) if isinstance(n, ast.Name)]
        if isinstance(iter_expr, ast.Call) and call_name(iter_expr) in ('enumerate', 'ndenumerate') and isinstance(target, ast.Tuple) and len(target.elts) == 2:
            self.assign_target(target.elts[0], set(), env)
            self.assign_target(target.elts[1], elems, env)
            return
        for n in names:
            env[n.id] = set(elems)

    def assign_target(self, t, v, env, node=None):
        if isinstance(t, ast.Name):
            env[t.id] = set(v)
        elif isinstance(t, (ast.Tuple, ast.List)):
            for x in t.elts:
                self.assign_target(x, {_elem_of(r) for r in v}, env, node)
        elif isinstance(t, ast.Starred):
            self.assign_target(t.value, v, env, node)
        elif isinstance(t, ast.Attribute):
            for r in self.val(t.value, env):
                if r.shallow:
                    continue
                self.event(r.child(t.attr), 'store .%s' % t.attr, node or t)
        elif isinstance(t, ast.Subscript):
            self.val(t.slice, env)
            for r in self.val(t.value, env):
                if r.shallow:
                    continue
                self.event(r.child('[]'), 'store [..]', node or t)

    def block(self, stmts, env):
        for s in stmts:
            self.stmt(s, env)

    def stmt(self, s, env):
        if isinstance(s, ast.Assign):
            v = self.val(s.value, env)
            for t in s.targets:
                self.assign_target(t, v, env, s)
        elif isinstance(s, ast.AnnAssign):
            if s.value is not None:
                self.assign_target(s.target, self.val(s.value, env), env, s)
        elif isinstance(s, ast.AugAssign):
            self.val(s.value, env)
            t = s.target
            if isinstance(t, ast.Name):
                # in place only for array-like objects: report when the name aliases something below a root
                # (an event on a bare parameter is only a rebinding unless a caller binds an array slot to it:
                #  consumers use significant() to drop empty-path events)
                for r in env.get(t.id, ()):
                    if not r.shallow:
                        self.event(r, 'augmented assignment on alias', s)
            else:
                self.assign_target(t, set(), env, s)
        elif isinstance(s, ast.Expr):
            if isinstance(s.value, ast.Call):
                self.call(s.value, env, used=False)
            else:
                self.val(s.value, env)
        elif isinstance(s, ast.Return):
            for r in self.val(s.value, env):
                self.returned.add(r)
        elif isinstance(s, ast.Delete):
            for t in s.targets:
                if isinstance(t, ast.Subscript):
                    for r in self.val(t.value, env):
                        if not r.shallow:
                            self.event(r.child('[]'), 'del [..]', s)
                elif isinstance(t, ast.Attribute):
                    for r in self.val(t.value, env):
                        self.event(r.child(t.attr), 'del .%s' % t.attr, s)
        elif isinstance(s, ast.If):
            self.val(s.test, env)
            e1, e2 = _copy(env), _copy(env)
            self.block(s.body, e1)
            self.block(s.orelse, e2)
            _join_into(env, e1, e2)
        elif isinstance(s, (ast.For, ast.AsyncFor)):
            it = self.val(s.iter, env)
            for _ in range(2):
                e1 = _copy(env)
                self.bind_iter(s.target, s.iter, it, e1)
                self.block(s.body, e1)
                _join_into(env, env, e1)
            self.block(s.orelse, env)
        elif isinstance(s, ast.While):
            for _ in range(2):
                self.val(s.test, env)
                e1 = _copy(env)
                self.block(s.body, e1)
                _join_into(env, env, e1)
            self.block(s.orelse, env)
        elif isinstance(s, ast.Try):
            e0 = _copy(env)
            self.block(s.body, env)
            outs = [_copy(env)]
            for h in s.handlers:
                eh = _copy(e0)
                _join_into(eh, eh, env)
                if h.name:
                    eh[h.name] = set()
                self.block(h.body, eh)
                outs.append(eh)
            self.block(s.orelse, env)
            outs.append(env)
            _join_into(env, *outs)
            self.block(s.finalbody, env)
        elif isinstance(s, (ast.With, ast.AsyncWith)):
            for it in s.items:
                v = self.val(it.context_expr, env)
                if it.optional_vars is not None:
                    self.assign_target(it.optional_vars, set(), env, s)
            self.block(s.body, env)
        elif isinstance(s, (ast.FunctionDef, ast.AsyncFunctionDef)):
            # nested function: closure variables keep their refs; analysed when called (resolve) -- also
            # analyse eagerly for stores through captured names
            sub = _FuncAnalysis(self.an, self.mod, s, [], self.depth + 1)
            env2 = _copy(env)
            for a in s.args.args:
                env2[a.arg] = set()
            sub.events = self.events
            sub._seen_ev = self._seen_ev
            sub.reads = self.reads
            sub.node = s
            sub.block(s.body, env2)
        elif isinstance(s, (ast.Raise, ast.Assert)):
            for c in ast.iter_child_nodes(s):
                if isinstance(c, ast.expr):
                    self.val(c, env)
        elif isinstance(s, (ast.Pass, ast.Break, ast.Continue, ast.Import, ast.ImportFrom, ast.Global, ast.Nonlocal, ast.ClassDef)):
            pass
        else:
            for c in ast.iter_child_nodes(s):
                if isinstance(c, ast.expr):
                    self.val(c, env)


def _as_element(r):
    """abstract value of a fresh container that holds r as an element"""
    if r.shallow:
        return r            # container of containers: keep (over-approximates one level)
    if r.path and r.path[-1] == '[]':
        return Ref(r.root, r.path[:-1], True)
    return Ref(r.root, r.path + ('<elem>',), True)


def _elem_of(r):
    """abstract value of an element loaded from r"""
    if r.shallow and r.path and r.path[-1] == '<elem>':
        return Ref(r.root, r.path[:-1], False)
    if r.shallow:
        return Ref(r.root, r.path + ('[]',), False)
    return r.child('[]')


def _copy(env):
    return {k: set(v) for k, v in env.items()}


def _join_into(dst, *envs):
    keys = set()
    for e in envs:
        keys |= set(e)
    out = {}
    for k in keys:
        v = set()
        for e in envs:
            v |= e.get(k, set())
        out[k] = v
    dst.clear()
    dst.update(out)


def clean_path(path):
    return tuple(p for p in path if p != '<elem>')


def significant(ev):
    """False for `p += x` on a bare parameter (a rebinding for numbers; only meaningful once a caller binds a slot to p)."""
    return not (ev.kind.startswith('augmented') and not clean_path(ev.ref.path))
