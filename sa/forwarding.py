"""Parameter forwarding rule for thin wrappers: an option the wrapper accepts under the same name as an option of the function it
delegates to must be handed on; otherwise the caller's choice is silently ignored (e.g. gz=False, separator_insertion=...)."""
import ast

from .srcmodel import unparse, walk, call_name


def params(f):
    return [a.arg for a in f.args.posonlyargs + f.args.args + f.args.kwonlyargs]


def check(ctx, rule, mod, wrapper, callee_mod, callee, skip=()):
    if not mod.has_func(wrapper) or not callee_mod.has_func(callee):
        ctx.unrec(rule, '%s:%s->%s' % (mod.relpath.replace('pyerrors/', ''), wrapper, callee), 'wrapper or callee not found')
        return 0
    w, c = mod.func(wrapper), callee_mod.func(callee)
    wp, cp = params(w), params(c)
    cname = callee.split('.')[-1]
    calls = [x for x in walk(w) if isinstance(x, ast.Call) and call_name(x) == cname]
    key0 = '%s:%s->%s' % (mod.relpath.replace('pyerrors/', ''), wrapper, cname)
    if not calls:
        ctx.unrec(rule, key0, 'no call of %s' % cname)
        return 0
    n = 0
    for name in wp:
        if name in ('self',) or name in skip or name not in cp:
            continue
        n += 1
        ok_all = True
        for call in calls:
            passed = False
            for k in call.keywords:
                if k.arg == name:
                    passed = True       # forwarded or deliberately fixed
                if k.arg is None and isinstance(k.value, ast.Name):
                    passed = True       # **kwargs
            idx = cp.index(name) - (1 if cp and cp[0] == 'self' else 0)
            if idx < len(call.args) and not isinstance(call.args[idx], ast.Starred):
                passed = passed or True
            if not passed:
                ok_all = False
        ctx.check(rule, key0 + '#' + name, ok_all, 'option %s is handed on to %s' % (name, cname),
                  '%s accepts the option `%s` but does not pass it to %s: the caller\'s choice is silently ignored' % (wrapper, name, cname), mod.loc(calls[0]))
    return n
