"""Hidden state shared between calls: module-level mutable objects, function attributes and mutable default arguments that a
function writes.  A memoisation keyed by something that does not determine the cached value (the code object / name / id of a
callable, a length, no key at all) makes the result depend on the call history."""
import ast

from .srcmodel import unparse, walk, call_name, statements

INPLACE = {'append', 'extend', 'insert', 'update', 'setdefault', 'add', 'pop', 'clear', 'remove'}
WEAK_KEY_MARKERS = ('__code__', '__name__', '__qualname__', 'id(', 'len(', '.shape', 'type(', '__class__', '[0]', '[-1]', '.start', '.stop', '.step')


def module_mutables(mod):
    out = {}
    for s in mod.tree.body:
        if isinstance(s, ast.Assign) and len(s.targets) == 1 and isinstance(s.targets[0], ast.Name):
            v = s.value
            if isinstance(v, (ast.Dict, ast.List, ast.Set)) or (isinstance(v, ast.Call) and call_name(v) in ('dict', 'list', 'set', 'defaultdict', 'OrderedDict')):
                out[s.targets[0].id] = s
    return out


def class_mutables(mod, f):
    """mutable containers bound in the body of the class that f is a method of: {attribute name: assignment}"""
    cls = None
    for n in ast.walk(mod.tree):
        if isinstance(n, ast.ClassDef) and any(x is f for x in n.body):
            cls = n
    out = {}
    if cls is not None:
        for s in cls.body:
            if isinstance(s, ast.Assign) and len(s.targets) == 1 and isinstance(s.targets[0], ast.Name):
                v = s.value
                if isinstance(v, (ast.Dict, ast.List, ast.Set)) or (isinstance(v, ast.Call) and call_name(v) in ('dict', 'list', 'set', 'defaultdict', 'OrderedDict')):
                    out[s.targets[0].id] = (s, cls.name)
    return out


def local_names(f):
    names = {a.arg for a in f.args.args + f.args.kwonlyargs}
    if f.args.vararg:
        names.add(f.args.vararg.arg)
    if f.args.kwarg:
        names.add(f.args.kwarg.arg)
    for n in walk(f, skip_nested_defs=False):
        if isinstance(n, ast.Name) and isinstance(n.ctx, ast.Store):
            names.add(n.id)
    globs = set()
    for n in walk(f, skip_nested_defs=False):
        if isinstance(n, (ast.Global, ast.Nonlocal)):
            globs.update(n.names)
    return names - globs, globs


def writes(mod, f):
    """[(kind, name, key_text, node)] of writes to hidden state inside f (nested functions included)"""
    mm = module_mutables(mod)
    loc, globs = local_names(f)
    out = []
    defaults = {}
    pos = f.args.args
    for a, d in zip(pos[len(pos) - len(f.args.defaults):], f.args.defaults):
        if isinstance(d, (ast.Dict, ast.List, ast.Set)):
            defaults[a.arg] = d
    cm = class_mutables(mod, f)
    for n in walk(f, skip_nested_defs=False):
        # class-level containers written through self / cls / the class name: shared by all instances
        base = None
        if isinstance(n, (ast.Assign, ast.AugAssign)):
            for t in (n.targets if isinstance(n, ast.Assign) else [n.target]):
                if isinstance(t, ast.Subscript) and isinstance(t.value, ast.Attribute) and isinstance(t.value.value, ast.Name) and t.value.attr in cm \
                        and t.value.value.id in ('self', 'cls', cm[t.value.attr][1]):
                    key_ = unparse(t.slice)
                    out.append(('class-level container', '%s.%s' % (cm[t.value.attr][1], t.value.attr), key_ if 'self' in key_ else None, n))
        if isinstance(n, ast.Call) and isinstance(n.func, ast.Attribute) and n.func.attr in INPLACE and isinstance(n.func.value, ast.Attribute) and isinstance(n.func.value.value, ast.Name) \
                and n.func.value.attr in cm and n.func.value.value.id in ('self', 'cls', cm[n.func.value.attr][1]):
            out.append(('class-level container', '%s.%s' % (cm[n.func.value.attr][1], n.func.value.attr), None, n))
        if isinstance(n, ast.Global) and mod.enclosing_func(n) is f:
            for g in n.names:
                out.append(('global statement', g, None, n))
        tgt = None
        if isinstance(n, ast.Assign):
            tgt = n.targets
        elif isinstance(n, ast.AugAssign):
            tgt = [n.target]
        for t in tgt or []:
            if isinstance(t, ast.Subscript) and isinstance(t.value, ast.Name):
                nm = t.value.id
                if nm in mm and nm not in loc:
                    out.append(('module-level container', nm, unparse(t.slice), n))
                elif nm in defaults:
                    out.append(('mutable default argument', nm, unparse(t.slice), n))
            if isinstance(t, ast.Attribute) and isinstance(t.value, ast.Name) and t.value.id not in loc and (mod.has_func(t.value.id)):
                out.append(('function attribute', t.value.id + '.' + t.attr, None, n))
        if isinstance(n, ast.Call) and isinstance(n.func, ast.Attribute) and n.func.attr in INPLACE and isinstance(n.func.value, ast.Name):
            nm = n.func.value.id
            if nm in mm and nm not in loc:
                out.append(('module-level container', nm, unparse(n.args[0]) if n.args else None, n))
            elif nm in defaults and n.func.attr != 'pop':
                out.append(('mutable default argument', nm, None, n))
    return out


def key_is_weak(f, key_text):
    """does the cache key provably not determine the cached value?"""
    if key_text is None:
        return True
    txt = key_text
    # inline single-assignment locals used in the key
    for s in statements(f, skip_nested_defs=False):
        if isinstance(s, ast.Assign) and len(s.targets) == 1 and isinstance(s.targets[0], ast.Name) and s.targets[0].id == key_text:
            txt += ' := ' + unparse(s.value)
    if any(m in txt for m in WEAK_KEY_MARKERS):
        return True
    # a literal key is one slot shared by all calls: it carries no information about the arguments, so validity can only come from a
    # test at the reader.  A test by object identity (`a is b`, other than against None / True / False) of the stored against the
    # current arguments does not determine the cached value: the objects are mutable (an Obs changes its errors and correlations
    # with every gamma_method call), so the same objects in another state get the result computed for the earlier state.
    try:
        lit = isinstance(ast.parse(key_text, mode='eval').body, ast.Constant)
    except SyntaxError:
        lit = False
    if lit:
        for c in walk(f, skip_nested_defs=False):
            if isinstance(c, ast.Compare) and any(isinstance(o, (ast.Is, ast.IsNot)) for o in c.ops):
                sides = [c.left] + list(c.comparators)
                if not any(isinstance(x, ast.Constant) and x.value in (None, True, False) for x in sides):
                    return True
    return False


def check(ctx, rule, mod, qualnames, what):
    n = 0
    for q in qualnames:
        if not mod.has_func(q):
            continue
        f = mod.func(q)
        n += 1
        ws = writes(mod, f)
        key0 = '%s:%s' % (mod.relpath.replace('pyerrors/', ''), q)
        if not ws:
            ctx.holds(rule, key0 + '#no-hidden-state', 'writes no module-level container, function attribute or mutable default')
            continue
        for kind, name, key, node in ws:
            k = key0 + '#hidden-state[%s]' % name
            if key_is_weak(f, key):
                ctx.violated(rule, k, '%s keeps state in the %s `%s` across calls (key: %s), which does not determine the cached value: %s depends on earlier calls' % (
                    q, kind, name, key, what), mod.loc(node))
            else:
                ctx.unrec(rule, k, '%s writes the %s `%s` (key %s): memoisation not understood' % (q, kind, name, key), mod.loc(node))
    return n
