"""Helpers for layout agreement of concatenated vectors, their slices and Hessian blocks."""
import ast

import sympy as sp

from .srcmodel import Unrecognised, unparse, call_name, statements, walk


def sym_env(extra=None):
    env = {}
    env.update(extra or {})
    return env


def sx(node, env):
    """integer expression -> sympy (names via env or fresh integer symbols)"""
    if node is None:
        return None
    if isinstance(node, ast.Constant) and isinstance(node.value, int):
        return sp.Integer(node.value)
    if isinstance(node, ast.Name):
        if node.id not in env:
            env[node.id] = sp.Symbol(node.id, integer=True, nonnegative=True)
        return env[node.id]
    if isinstance(node, ast.UnaryOp) and isinstance(node.op, ast.USub):
        return -sx(node.operand, env)
    if isinstance(node, ast.BinOp):
        a, b = sx(node.left, env), sx(node.right, env)
        if isinstance(node.op, ast.Add):
            return a + b
        if isinstance(node.op, ast.Sub):
            return a - b
        if isinstance(node.op, ast.Mult):
            return a * b
    if isinstance(node, ast.Call) and call_name(node) == 'len' and len(node.args) == 1:
        k = 'len(%s)' % unparse(node.args[0])
        if k not in env:
            env[k] = sp.Symbol(k, integer=True, nonnegative=True)
        return env[k]
    if isinstance(node, ast.Attribute):
        k = unparse(node)
        if k not in env:
            env[k] = sp.Symbol(k, integer=True, nonnegative=True)
        return env[k]
    raise Unrecognised('integer expression %s' % unparse(node))


def slice_bounds(sub, env):
    """d[a:b] -> (a, b) sympy (None = open end); strips trailing method calls like .reshape(...)"""
    node = sub
    while isinstance(node, ast.Call) and isinstance(node.func, ast.Attribute) and node.func.attr in ('reshape', 'ravel', 'flatten'):
        node = node.func.value
    if not (isinstance(node, ast.Subscript) and isinstance(node.slice, ast.Slice)):
        raise Unrecognised('not a slice: %s' % unparse(sub))
    lo = sx(node.slice.lower, env) if node.slice.lower is not None else sp.Integer(0)
    hi = sx(node.slice.upper, env) if node.slice.upper is not None else None
    return unparse(node.value), lo, hi


def concat_segments(node):
    """np.concatenate((A, B, C)) -> [A, B, C] nodes"""
    if isinstance(node, ast.Call) and call_name(node) == 'concatenate' and node.args and isinstance(node.args[0], (ast.Tuple, ast.List)):
        out = []
        for e in node.args[0].elts:
            # a nested concatenation is its segments in place: concatenate((concatenate((A, B)), C)) == concatenate((A, B, C))
            if isinstance(e, ast.Call) and call_name(e) == 'concatenate' and e.args and isinstance(e.args[0], (ast.Tuple, ast.List)) and not e.keywords:
                out.extend(concat_segments(e))
            else:
                out.append(e)
        return out
    raise Unrecognised('not a concatenate((...)) call: %s' % unparse(node))


def strip_ravel(node):
    while isinstance(node, ast.Call) and isinstance(node.func, ast.Attribute) and node.func.attr in ('ravel', 'flatten', 'reshape'):
        node = node.func.value
    return node


def check_partition(segs_len, slices):
    """segs_len: list of sympy lengths (last may be None = rest); slices: list of (lo, hi).
    Returns None if slices are exactly the consecutive segments, else a message."""
    pos = sp.Integer(0)
    for k, ((lo, hi), ln) in enumerate(zip(slices, segs_len)):
        if sp.simplify(lo - pos) != 0:
            return 'segment %d starts at %s but the slice starts at %s' % (k, pos, lo)
        if ln is None:
            if hi is not None:
                return 'last segment is sliced with an upper bound %s' % hi
            return None
        end = pos + ln
        if hi is None:
            if k != len(slices) - 1:
                return 'open-ended slice for inner segment %d' % k
            return None
        if sp.simplify(hi - end) != 0:
            return 'segment %d ends at %s but the slice ends at %s' % (k, end, hi)
        pos = end
    return None
