"""Loop variable read after its loop ("the check was dedented out of the loop").

A statement that reads the target of a `for` loop after the loop has ended sees only the last element: a per-element test that
slid out of its loop still runs, raises nothing on the cases the tests cover, and silently skips every element but the last.
The rule reports every read of a for-target that is (a) located after the loop in the same function, (b) not dominated by a new
binding of that name after the loop.  Today's instances are listed per module in EXCEPTIONS with a reason.
"""
import ast

from .srcmodel import unparse, walk

EXCEPTIONS = {
    'input.openQCD': {('read_ms5_xsf', 't'): 'progress message only (printed text), no data depends on it'},
}


def _targets(t):
    if isinstance(t, ast.Name):
        return {t.id}
    if isinstance(t, (ast.Tuple, ast.List)):
        out = set()
        for e in t.elts:
            out |= _targets(e)
        return out
    if isinstance(t, ast.Starred):
        return _targets(t.value)
    return set()


def _binds(stmt, name):
    for n in ast.walk(stmt):
        if isinstance(n, ast.Name) and n.id == name and isinstance(n.ctx, ast.Store):
            return True
        if isinstance(n, (ast.For, ast.comprehension)) and name in _targets(n.target):
            return True
    return False


def _own_loop_target(mod, n, st):
    """n is (part of) the target of a for loop nested inside st (not st itself): its binding only governs that loop's body"""
    q = mod.parents.get(n)
    while isinstance(q, (ast.Tuple, ast.List, ast.Starred)):
        q = mod.parents.get(q)
    return isinstance(q, (ast.For, ast.AsyncFor)) and q is not st and any(n is y for y in ast.walk(q.target))


def findings(mod, func):
    """[(loop, name, reading_node)]"""
    out = []
    for loop in walk(func):
        if not isinstance(loop, ast.For):
            continue
        names = _targets(loop.target)
        # idioms that read the variable after the loop on purpose: search loops (break / for-else) and `for x in it: pass`
        if any(isinstance(b, ast.Break) for b in walk(loop)) or all(isinstance(b, ast.Pass) for b in loop.body):
            continue
        # statements following the loop in its own block and in the enclosing blocks up to the function
        cur = loop
        live = set(names)
        while cur is not func and live:
            par = mod.parents.get(cur)
            if par is None:
                break
            for field in ('body', 'orelse', 'finalbody'):
                blk = getattr(par, field, None)
                if isinstance(blk, list) and cur in blk:
                    for st in blk[blk.index(cur) + 1:]:
                        for nm in sorted(live):
                            # reads before a rebinding inside st: conservative order = source order of nodes
                            nodes = [n for n in ast.walk(st) if isinstance(n, ast.Name) and n.id == nm]
                            nodes.sort(key=lambda n: (n.lineno, n.col_offset))
                            if isinstance(st, (ast.For, ast.AsyncFor)) and nm in _targets(st.target):
                                # rebinding loop: reads inside see the new binding; only the iterable could read the old one
                                nodes = [n for n in ast.walk(st.iter) if isinstance(n, ast.Name) and n.id == nm]
                            def _own_loop(n_):
                                # the read sits in the body of a loop (inside st) that binds the name itself
                                q_, child_ = mod.parents.get(n_), n_
                                while q_ is not None:
                                    if isinstance(q_, (ast.For, ast.AsyncFor)) and nm in _targets(q_.target) and not any(child_ is y for y in ast.walk(q_.iter)) and child_ is not q_.target:
                                        return True
                                    if q_ is st:
                                        break
                                    child_, q_ = q_, mod.parents.get(q_)
                                return False
                            nodes = [n for n in nodes if not (isinstance(n.ctx, ast.Load) and _own_loop(n))]
                            nodes = [n for n in nodes if not (isinstance(n.ctx, ast.Store) and isinstance(mod.parents.get(n), (ast.For, ast.AsyncFor, ast.Tuple)) and _own_loop_target(mod, n, st))]
                            for n in nodes:
                                if isinstance(n.ctx, ast.Load):
                                    # a comprehension that binds the name itself shadows it
                                    shadow = False
                                    p = mod.parents.get(n)
                                    while p is not None and p is not st:
                                        if isinstance(p, (ast.ListComp, ast.SetComp, ast.DictComp, ast.GeneratorExp)) and any(nm in _targets(g.target) for g in p.generators):
                                            shadow = True
                                        if isinstance(p, ast.Lambda) and nm in [a.arg for a in p.args.args]:
                                            shadow = True
                                        p = mod.parents.get(p)
                                    if not shadow:
                                        out.append((loop, nm, n))
                                    break
                                else:
                                    break
                            if _binds(st, nm):
                                live.discard(nm)
                    break
            if isinstance(par, (ast.For, ast.While)):
                # the loop body repeats: names are rebound by the next iteration of an outer loop only if it binds them
                pass
            cur = par
    return out


def last_element_after_loop(mod, func):
    """[(loop, list text, statement)]: a statement `L[-1].<attr> = ...` / `L[-1][k] = ...` that directly follows a loop which appends to L.
    Inside the loop it would set the attribute of every element; after it, only the last element gets it."""
    out = []
    for n in walk(func):
        for fld in ('body', 'orelse', 'finalbody'):
            blk = getattr(n, fld, None)
            if not isinstance(blk, list):
                continue
            for i, st in enumerate(blk):
                if not isinstance(st, (ast.For, ast.While)):
                    continue
                appended = {unparse(c.func.value) for c in ast.walk(st) if isinstance(c, ast.Call) and isinstance(c.func, ast.Attribute) and c.func.attr == 'append'}
                if not appended:
                    continue
                for nxt in blk[i + 1:]:
                    if not isinstance(nxt, (ast.Assign, ast.AugAssign)):
                        break
                    tg = nxt.targets[0] if isinstance(nxt, ast.Assign) else nxt.target
                    base = tg.value if isinstance(tg, (ast.Attribute, ast.Subscript)) else None
                    if isinstance(base, ast.Subscript) and unparse(base.slice) == '-1' and unparse(base.value) in appended:
                        # the same store inside the loop would be the per-element form: report only if the loop has no such store
                        same_inside = any(isinstance(x, (ast.Assign, ast.AugAssign)) and unparse(x.targets[0] if isinstance(x, ast.Assign) else x.target) == unparse(tg) for x in ast.walk(st))
                        if not same_inside:
                            out.append((st, unparse(base.value), nxt))
                    else:
                        break
    return out


def check(ctx, rule, mod, qualnames=None):
    n = 0
    exc = EXCEPTIONS.get(mod.name, {})
    for q, f in mod.functions():
        if qualnames is not None and q not in qualnames:
            continue
        for loop, lst, st in last_element_after_loop(mod, f):
            if mod.enclosing_func(st) is not f:
                continue
            n += 1
            ctx.violated(rule, '%s:%s#last-element-after-loop[%s]' % (mod.relpath.replace('pyerrors/', ''), q, unparse(st)[:40]),
                         '`%s` follows the loop at line %d that appends to %s: it acts on the last element only, every other element built by the loop keeps its default' % (
                             unparse(st)[:70], loop.lineno, lst), mod.loc(st))
        # nested functions are visited on their own
        for loop, nm, node in findings(mod, f):
            if mod.enclosing_func(node) is not f:
                continue
            n += 1
            key = '%s:%s#%s-after-loop' % (mod.relpath.replace('pyerrors/', ''), q, nm)
            if (q, nm) in exc:
                ctx.holds(rule, key, 'confirmed: %s' % exc[(q, nm)], mod.loc(node))
            else:
                ctx.violated(rule, key, 'loop variable `%s` of the loop at line %d is read after the loop at line %d (`%s`): only the last element is seen' % (
                    nm, loop.lineno, node.lineno, unparse(mod.parents.get(node))[:60]), mod.loc(node))
    return n
