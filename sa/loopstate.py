"""Loop-carried values: a local that is assigned on only some paths of a loop body (or only before the loop) and read later in the
body carries the value of an earlier iteration into a later one."""
import ast

from .srcmodel import unparse, walk


def assigned_on_all_paths(stmts, name, upto):
    """is `name` definitely assigned by the statements before node `upto` (structured code)?  returns (definitely, reached)"""
    definite = False
    for s in stmts:
        if s is upto or any(n is upto for n in ast.walk(s)) and not isinstance(s, (ast.If, ast.For, ast.While, ast.Try, ast.With)):
            return definite, True
        if isinstance(s, ast.Assign) and any(isinstance(t, ast.Name) and t.id == name for t in s.targets):
            definite = True
        elif isinstance(s, ast.If):
            if any(n is upto for n in ast.walk(s)):
                if any(n is upto for b in s.body for n in ast.walk(b)):
                    d, r = assigned_on_all_paths(s.body, name, upto)
                else:
                    d, r = assigned_on_all_paths(s.orelse, name, upto)
                return definite or d, True
            a, _ = assigned_on_all_paths(s.body, name, None)
            b, _ = assigned_on_all_paths(s.orelse, name, None)
            definite = definite or (a and b)
        elif isinstance(s, (ast.For, ast.While, ast.With, ast.Try)):
            if any(n is upto for n in ast.walk(s)):
                d, r = assigned_on_all_paths(s.body, name, upto)
                return definite or d, True
    return definite, False


def carried_reads(mod, loop):
    """[(name, read node)] of locals assigned somewhere in (or before) the loop whose read inside the body is not preceded by an
    assignment on every path of the same iteration, while some path of the body assigns them"""
    out = []
    assigned_in_body = {t.id for s in walk(loop) if isinstance(s, ast.Assign) for t in s.targets if isinstance(t, ast.Name)}
    targets = {n.id for n in ast.walk(loop.target) if isinstance(n, ast.Name)}
    for n in walk(loop):
        if isinstance(n, ast.Name) and isinstance(n.ctx, ast.Load) and n.id in assigned_in_body and n.id not in targets:
            stmt = n
            while not isinstance(stmt, ast.stmt):
                stmt = mod.parents[stmt]
            d, reached = assigned_on_all_paths(loop.body, n.id, stmt)
            # an assignment in the same statement (x = f(x)) counts as a read first
            if not d:
                out.append((n.id, n))
    return out
