"""Driver: ./check Cxx [--tier quick|thorough] [--replay file] | --all | --selftest [Cxx]"""
import importlib
import json
import os
import sys
import traceback

from . import report
from .srcmodel import AnchorMissing

ALL = ['C%02d' % i for i in range(1, 21)]


def run_one(pid, tier, only=None):
    try:
        mod = importlib.import_module('sa.rules.' + pid)
    except ModuleNotFoundError as e:
        print('ANALYSIS-ERROR property=%s no rule module: %s' % (pid, e))
        return 2
    try:
        ctx = report.Ctx(pid, tier=tier, seed=int(os.environ.get('VERIF_SEED', '0') or 0))
        ctx.only = only
        mod.run(ctx)
        return report.finish(ctx, mod.LEVEL, mod.EXPLANATION, './check %s --tier %s' % (pid, tier))
    except AnchorMissing as e:
        print('ANALYSIS-ERROR property=%s anchor missing: %s' % (pid, e))
        return 2
    except SystemExit:
        raise
    except BaseException as e:   # never exit 1 on a traceback
        print('ANALYSIS-ERROR property=%s internal error: %s' % (pid, e))
        traceback.print_exc()
        return 2


def main(argv):
    tier = os.environ.get('VERIF_TIER', 'quick') or 'quick'
    args = list(argv)
    replay = None
    if '--tier' in args:
        i = args.index('--tier')
        tier = args[i + 1]
        del args[i:i + 2]
    if '--replay' in args:
        i = args.index('--replay')
        replay = args[i + 1]
        del args[i:i + 2]
    if tier not in ('quick', 'thorough'):
        tier = 'quick'
    if args and args[0] == '--selftest':
        from . import selftest
        return selftest.main(args[1:])
    if args and args[0] == '--all':
        worst = 0
        for pid in ALL:
            if os.path.exists(os.path.join(os.path.dirname(__file__), 'rules', pid + '.py')):
                worst = max(worst, run_one(pid, tier))
        return worst
    if not args:
        print(__doc__)
        return 2
    pid = args[0]
    only = None
    if replay:
        with open(replay) as fh:
            r = json.load(fh)
        only = (r.get('rule'), r.get('construct'))
        print('replaying %s %s on %s' % (only[0], only[1], os.environ.get('VERIF_REPO', '/repo')))
    return run_one(pid, tier, only)


if __name__ == '__main__':
    sys.exit(main(sys.argv[1:]))
