"""Driver: ./check Cxx [--tier quick|thorough] [--replay file] | --all | --selftest [Cxx]"""
import importlib
import json
import os
import sys
import traceback

from . import report
from .srcmodel import AnchorMissing

ALL = ['C%02d' % i for i in range(1, 21)]


def run_one(pid, tier, only=None):
    try:
        mod = importlib.import_module('sa.rules.' + pid)
    except BaseException as e:    # a broken rule module is an analysis error, never a violation
        print('ANALYSIS-ERROR property=%s cannot load rule module: %s: %s' % (pid, type(e).__name__, e))
        return 2
    try:
        ctx = report.Ctx(pid, tier=tier, seed=int(os.environ.get('VERIF_SEED', '0') or 0))
        ctx.only = only
        mod.run(ctx)
        generic_rules(ctx, pid)
        if tier == 'thorough' and not only:
            thorough_extras(ctx, pid)
        return report.finish(ctx, mod.LEVEL, mod.EXPLANATION, './check %s --tier %s' % (pid, tier))
    except AnchorMissing as e:
        print('ANALYSIS-ERROR property=%s anchor missing: %s' % (pid, e))
        return 2
    except SystemExit:
        raise
    except BaseException as e:   # never exit 1 on a traceback
        print('ANALYSIS-ERROR property=%s internal error: %s' % (pid, e))
        traceback.print_exc()
        return 2


def generic_rules(ctx, pid):
    """rules that apply to the code of every property: run over the files the property is anchored in (properties.jsonl)"""
    from . import abstol
    try:
        props = [json.loads(l) for l in open(os.path.join(report.VERIF, 'properties.jsonl')) if l.strip()]
        files = next((p['anchors']['files'] for p in props if p['id'] == pid), [])
    except Exception as e:
        ctx.unrec(pid + '-G1', 'properties.jsonl', 'cannot read the anchors: %s' % e)
        return
    ctx.rule(pid + '-G1', 'closeness tests on data carry an explicit absolute tolerance (no hidden 1e-8 scale)')
    by_rel = {m.relpath: m for m in ctx.repo.modules.values()}
    for rel in files:
        m = by_rel.get(rel)
        if m is None:
            continue
        ctx.guarded(pid + '-G1', rel + '@tolerances', abstol.check, ctx, pid + '-G1', m)
    from . import aliasrows
    ctx.rule(pid + '-G4', 'entries created by list repetition ([E] * n: n references to one object) are not written through the list')
    for rel in files:
        m = by_rel.get(rel)
        if m is not None:
            ctx.guarded(pid + '-G4', rel + '@repeated-rows', aliasrows.check, ctx, pid + '-G4', m)
    from . import rangelist, hiddenstate
    ctx.rule(pid + '-G3', 'no function of the anchored modules keeps results in module-level containers, function attributes or mutable defaults (a second call must not see the first)')
    for rel in files:
        m = by_rel.get(rel)
        if m is not None:
            ctx.guarded(pid + '-G3', rel + '@hidden-state', hiddenstate.check, ctx, pid + '-G3', m, [q for q, _ in m.functions() if q.count('.') <= 1], 'the result')
    ctx.rule(pid + '-G2', 'a configuration list is replaced by a range built from its end points only where every element was compared')
    for rel in files:
        m = by_rel.get(rel)
        if m is not None:
            ctx.guarded(pid + '-G2', rel + '@range-from-endpoints', rangelist.check, ctx, pid + '-G2', m)


def thorough_extras(ctx, pid):
    """Deeper exploration for the thorough tier.  The source coverage of a static check is the same in both tiers (the whole
    package is parsed); what is added here exercises the checker on this property: its slice of the seeded-variant self-test,
    the independent seeded changes stored under /verif/seeded, and package-wide sweeps of the generic analyses (informational).
    None of this changes the exit status of the property check."""
    import subprocess
    try:
        from . import selftest
        ctx.info['selftest'] = selftest.summary_for(pid)
    except Exception as e:
        ctx.info['selftest'] = {'error': str(e)}
    try:
        sd = os.path.join(report.VERIF, 'seeded')
        names = sorted(n for n in os.listdir(sd) if os.path.exists(os.path.join(sd, n, 'meta.json')) and n.startswith(pid + '-')) if os.path.isdir(sd) else []
        if names:
            env = dict(os.environ, VERIF_TIER='quick')
            p = subprocess.run([os.path.join(report.VERIF, 'tools', 'run_seeded.py')] + names, env=env, capture_output=True, text=True, timeout=900)
            ctx.info['seeded_changes'] = [l for l in p.stdout.splitlines() if l and not l.startswith(' ')]
    except Exception as e:
        ctx.info['seeded_changes'] = ['error: %s' % e]
    try:
        from .effects import Analyzer, significant
        an = Analyzer(ctx.repo)
        sweep = {}
        for key in sorted(an.funcs):
            evs = [e for e in an.summary(key).events if significant(e) and e.ref.root != 'self']
            if evs:
                sweep['%s.%s' % key] = sorted({repr(e.ref) for e in evs})[:6]
        ctx.info['package_sweep_argument_mutations'] = sweep
    except Exception as e:
        ctx.info['package_sweep_argument_mutations'] = {'error': str(e)}


def main(argv):
    tier = os.environ.get('VERIF_TIER', 'quick') or 'quick'
    args = list(argv)
    replay = None
    if '--tier' in args:
        i = args.index('--tier')
        tier = args[i + 1]
        del args[i:i + 2]
    if '--replay' in args:
        i = args.index('--replay')
        replay = args[i + 1]
        del args[i:i + 2]
    if tier not in ('quick', 'thorough'):
        tier = 'quick'
    if args and args[0] == '--selftest':
        from . import selftest
        return selftest.main(args[1:])
    if args and args[0] == '--all':
        worst = 0
        for pid in ALL:
            if os.path.exists(os.path.join(os.path.dirname(__file__), 'rules', pid + '.py')):
                worst = max(worst, run_one(pid, tier))
        return worst
    if not args:
        print(__doc__)
        return 2
    pid = args[0]
    only = None
    if replay:
        with open(replay) as fh:
            r = json.load(fh)
        only = (r.get('rule'), r.get('construct'))
        print('replaying %s %s on %s' % (only[0], only[1], os.environ.get('VERIF_REPO', '/repo')))
    return run_one(pid, tier, only)


if __name__ == '__main__':
    sys.exit(main(sys.argv[1:]))
