"""Matrix-expression normal form: AST -> nested tuples, modulo associativity of the matrix product,
the spelling of the product (@, np.dot, np.matmul, .dot) and of the transpose (.T, np.transpose),
with single-assignment locals inlined.  Used where sympy's commutative algebra does not apply."""
import ast

from .srcmodel import Unrecognised, unparse, call_name, statements, const


class MatX:
    def __init__(self, mod, func=None, atoms=None, inline=True):
        self.mod, self.f, self.atoms, self.inline = mod, func, atoms, inline
        self.defs = {}
        if func is not None:
            for s in statements(func):
                if isinstance(s, ast.Assign) and len(s.targets) == 1 and isinstance(s.targets[0], ast.Name):
                    self.defs.setdefault(s.targets[0].id, []).append(s)

    def prod(self, *xs):
        out = []
        for x in xs:
            if isinstance(x, tuple) and x and x[0] == 'matmul':
                out.extend(x[1:])
            else:
                out.append(x)
        return ('matmul',) + tuple(out)

    def t(self, e, before=None):
        if self.atoms is not None:
            r = self.atoms(e)
            if r is not None:
                return r
        if isinstance(e, ast.Name):
            ds = self.defs.get(e.id, [])
            if self.inline and len(ds) == 1:
                return self.t(ds[0].value)
            if self.inline and before is not None and ds:
                prev = [d for d in ds if d.lineno < before]
                if prev:
                    return self.t(prev[-1].value, before=prev[-1].lineno)
            return ('sym', e.id)
        if isinstance(e, ast.Constant):
            return ('const', e.value)
        if isinstance(e, ast.Attribute):
            if e.attr == 'T':
                return self.T(self.t(e.value, before))
            return ('attr', self.t(e.value, before), e.attr)
        if isinstance(e, ast.Subscript):
            return ('idx', self.t(e.value, before), unparse(e.slice))
        if isinstance(e, ast.UnaryOp) and isinstance(e.op, ast.USub):
            return ('neg', self.t(e.operand, before))
        if isinstance(e, ast.BinOp):
            a, b = self.t(e.left, before), self.t(e.right, before)
            if isinstance(e.op, ast.MatMult):
                return self.prod(a, b)
            op = {ast.Add: 'add', ast.Sub: 'sub', ast.Mult: 'mul', ast.Div: 'div', ast.Pow: 'pow'}.get(type(e.op))
            if op is None:
                raise Unrecognised('operator in %s' % unparse(e))
            if op == 'add':
                return ('add',) + tuple(sorted([a, b], key=repr))
            return (op, a, b)
        if isinstance(e, ast.Call):
            d = self.mod.dotted(e.func) or ''
            last = d.rpartition('.')[2]
            args = [self.t(a, before) for a in e.args]
            kws = tuple(sorted((k.arg, unparse(k.value)) for k in e.keywords if k.arg))
            if (d.startswith('numpy') or d.startswith('autograd.numpy') or d.startswith('scipy')) and last in ('dot', 'matmul') and len(args) == 2:
                return self.prod(*args)
            if (d.startswith('numpy') or d.startswith('autograd.numpy')) and last == 'transpose' and len(args) == 1:
                return self.T(args[0])
            if isinstance(e.func, ast.Attribute) and e.func.attr == 'dot' and len(args) == 1 and not d.startswith(('numpy', 'autograd')):
                return self.prod(self.t(e.func.value, before), args[0])
            if isinstance(e.func, ast.Attribute) and e.func.attr in ('item', 'copy') and not args:
                return self.t(e.func.value, before)
            if isinstance(e.func, ast.Attribute) and e.func.attr == 'transpose' and not args:
                return self.T(self.t(e.func.value, before))
            if d.startswith(('numpy', 'autograd.numpy', 'scipy')):
                if last in ('asarray', 'array') and len(args) == 1 and not kws:
                    return args[0]
                return ('call', d.replace('autograd.numpy', 'numpy'),) + tuple(args) + (kws if kws else ())
            return ('call', unparse(e.func),) + tuple(args) + (kws if kws else ())
        if isinstance(e, (ast.List, ast.Tuple)):
            return ('list',) + tuple(self.t(x, before) for x in e.elts)
        if isinstance(e, ast.ListComp):
            return ('comp', unparse(e))
        raise Unrecognised('cannot normalise %s' % unparse(e))

    def T(self, x):
        if isinstance(x, tuple) and x[0] == 'T':
            return x[1]
        return ('T', x)


def show(x):
    if not isinstance(x, tuple):
        return repr(x)
    h = x[0]
    if h == 'sym':
        return x[1]
    if h == 'const':
        return repr(x[1])
    if h == 'matmul':
        return ' @ '.join(show(a) for a in x[1:])
    if h == 'T':
        return show(x[1]) + '^T'
    if h in ('add', 'sub', 'mul', 'div', 'pow'):
        op = {'add': ' + ', 'sub': ' - ', 'mul': ' * ', 'div': ' / ', 'pow': ' ** '}[h]
        return '(' + op.join(show(a) for a in x[1:]) + ')'
    if h == 'call':
        return '%s(%s)' % (x[1].replace('numpy.', 'np.'), ', '.join(show(a) for a in x[2:]))
    if h == 'attr':
        return show(x[1]) + '.' + x[2]
    if h == 'idx':
        return '%s[%s]' % (show(x[1]), x[2])
    if h == 'neg':
        return '-' + show(x[1])
    return repr(x)
