"""Null-safety analysis of timeslice values (a timeslice of a Corr may be None).

Nullable expressions (by shape, see DESIGN.md C14-D1):
  N1  <name>.content[<index>]            (index not a slice)
  N2  <corr>[<index>]                    (<corr> = self or a local bound to a Corr valued expression)
  N3  a name bound by iterating <name>.content (or a slice of it, or enumerate(...) of it), or assigned from a nullable expression
  N4  <local list>[<index>] where None was appended / assigned / produced by a `None if ... else ...` comprehension
  N5  <param>[<index>] where the same function tests <param>[...] against None (belief inference)
A dereference (subscript base, attribute base, arithmetic operand, ordered comparison, argument of a computing call, iteration)
of a nullable expression requires a NonNull fact for the same normalised access path, established by
  (i)   `P is None` / `P is not None` tests (incl. or/and/not combinations, short-circuit order, early exits, IfExp, comprehension filters)
  (ii)  `_check_for_none(X, P)`
  (iv)  an enclosing try whose handler catches the failure and records an undefined slice
Reports are (function, expression, line).  Flow: syntax directed, facts are sets of access-path texts.
"""
import ast

from .srcmodel import unparse, call_name, walk

NON_DEREF_CALLS = {'_check_for_none', 'isinstance', 'hasattr', 'print', 'str', 'repr', 'type', 'id', 'append', 'len_', 'Corr', 'list', 'tuple', 'insert', 'extend'}
CORR_RETURNING = {'matrix_symmetric', 'reverse', 'roll', 'thin', 'symmetric', 'anti_symmetric', 'projected', 'item', 'trace', 'deriv', 'second_deriv',
                  'm_eff', 'correlate', 'reweight', 'T_symmetry', 'Hankel', 'prune', 'sqrt', 'log', 'exp', 'sin', 'cos', 'tan', 'sinh', 'cosh', 'tanh',
                  'arcsin', 'arccos', 'arctan', 'arcsinh', 'arccosh', 'arctanh', 'real', 'imag', '_apply_func_to_corr', 'Eigenvalue'}


class Finding:
    def __init__(self, expr, node, ctx_desc):
        self.expr, self.node, self.how = expr, node, ctx_desc


class NullSafety:
    def __init__(self, mod, func, corr_names=('self',)):
        self.mod, self.f = mod, func
        self.corr = set(corr_names)
        self.nullable_vars = set()
        self.none_lists = set()
        self.param_lists = set()
        self.findings = []
        self.derefs_checked = 0
        self.guard_sites = 0
        self.protected = 0
        self._seen = set()
        self.qfacts = {}
        self.loopvars = {}
        self.parents = {}
        for n in ast.walk(func):
            for c in ast.iter_child_nodes(n):
                self.parents[c] = n
        self.prepass()

    # ------------------------------------------------------------ prepass
    def prepass(self):
        f = self.f
        params = {a.arg for a in f.args.args + f.args.kwonlyargs}
        for n in walk(f, skip_nested_defs=False):
            # Corr typed locals
            if isinstance(n, ast.Assign) and len(n.targets) == 1 and isinstance(n.targets[0], ast.Name):
                if self.is_corr_expr(n.value):
                    self.corr.add(n.targets[0].id)
            # isinstance(p, Corr)
            if isinstance(n, ast.Call) and call_name(n) == 'isinstance' and len(n.args) == 2 and isinstance(n.args[0], ast.Name) and unparse(n.args[1]) == 'Corr':
                self.corr.add(n.args[0].id)
            # lists that hold None
            if isinstance(n, ast.Call) and isinstance(n.func, ast.Attribute) and n.func.attr == 'append' and isinstance(n.func.value, ast.Name) and n.args \
                    and isinstance(n.args[0], ast.Constant) and n.args[0].value is None:
                self.none_lists.add(n.func.value.id)
            if isinstance(n, ast.Assign) and len(n.targets) == 1:
                t, v = n.targets[0], n.value
                if isinstance(t, ast.Subscript) and isinstance(t.value, ast.Name) and isinstance(v, ast.Constant) and v.value is None:
                    self.none_lists.add(t.value.id)
                if isinstance(t, ast.Name) and isinstance(v, ast.ListComp) and isinstance(v.elt, ast.IfExp) and \
                        ((isinstance(v.elt.body, ast.Constant) and v.elt.body.value is None) or (isinstance(v.elt.orelse, ast.Constant) and v.elt.orelse.value is None)):
                    self.none_lists.add(t.id)
                if isinstance(t, ast.Name) and isinstance(v, ast.BinOp) and isinstance(v.op, ast.Mult) and isinstance(v.left, ast.List) and v.left.elts \
                        and isinstance(v.left.elts[0], ast.Constant) and v.left.elts[0].value is None:
                    self.none_lists.add(t.id)
            # belief inference on parameters: p[...] is None somewhere
            if isinstance(n, ast.Compare) and len(n.ops) == 1 and isinstance(n.ops[0], (ast.Is, ast.IsNot)) and isinstance(n.comparators[0], ast.Constant) and n.comparators[0].value is None:
                l = n.left
                if isinstance(l, ast.Subscript) and isinstance(l.value, ast.Name) and l.value.id in params and not isinstance(l.slice, ast.Slice):
                    self.param_lists.add(l.value.id)
        # names bound by iteration are found on the fly

    def is_corr_expr(self, e):
        if isinstance(e, ast.Name):
            return e.id in self.corr
        if isinstance(e, ast.Call):
            if call_name(e) == 'Corr':
                return True
            if isinstance(e.func, ast.Attribute) and e.func.attr in CORR_RETURNING and self.is_corr_expr(e.func.value):
                return True
        if isinstance(e, ast.BinOp):
            return self.is_corr_expr(e.left) or self.is_corr_expr(e.right)
        if isinstance(e, ast.UnaryOp):
            return self.is_corr_expr(e.operand)
        return False

    def path(self, e):
        """normalised access path: corr[t] and corr.content[t] denote the same timeslice (Corr.__getitem__ returns None iff content[t] is None)"""
        if isinstance(e, ast.Subscript) and isinstance(e.value, ast.Name) and e.value.id in self.corr and not isinstance(e.slice, ast.Slice):
            return '%s.content[%s]' % (e.value.id, unparse(e.slice))
        return unparse(e)

    # ------------------------------------------------------------ nullable?
    def nullable(self, e):
        if isinstance(e, ast.Name):
            return e.id in self.nullable_vars
        if isinstance(e, ast.Subscript) and not isinstance(e.slice, ast.Slice):
            b = e.value
            if isinstance(b, ast.Attribute) and b.attr == 'content' and isinstance(b.value, ast.Name):
                return True                                   # N1
            if isinstance(b, ast.Name):
                if b.id in self.corr:
                    return True                               # N2
                if b.id in self.none_lists or b.id in self.param_lists:
                    return True                               # N4, N5
        return False

    def content_iter(self, it):
        """is `it` an iteration over the timeslices of a Corr?"""
        if isinstance(it, ast.Call) and call_name(it) == 'enumerate' and it.args:
            return self.content_iter(it.args[0]) and 'enum'
        if isinstance(it, ast.Subscript) and isinstance(it.slice, ast.Slice):
            it = it.value
        if isinstance(it, ast.Attribute) and it.attr == 'content' and isinstance(it.value, ast.Name):
            return True
        if isinstance(it, ast.Name) and (it.id in self.none_lists):
            return True
        return False

    # ------------------------------------------------------------ conditions
    def cond(self, t, facts):
        """returns (facts_if_true, facts_if_false); also checks dereferences inside t in evaluation order"""
        if isinstance(t, ast.BoolOp):
            if isinstance(t.op, ast.Or):
                cur = set(facts)
                ff = set()
                for v in t.values:
                    tf_, ff_ = self.cond(v, cur)
                    cur |= ff_
                    ff |= ff_
                return set(), ff
            else:
                cur = set(facts)
                tf = set()
                for v in t.values:
                    tf_, ff_ = self.cond(v, cur)
                    cur |= tf_
                    tf |= tf_
                return tf, set()
        if isinstance(t, ast.UnaryOp) and isinstance(t.op, ast.Not):
            a, b = self.cond(t.operand, facts)
            return b, a
        if isinstance(t, ast.Compare) and len(t.ops) == 1 and isinstance(t.comparators[0], ast.Constant) and t.comparators[0].value is None and isinstance(t.ops[0], (ast.Is, ast.IsNot)):
            p = self.path(t.left)
            self.expr(t.left, facts, deref=False)
            self.guard_sites += 1
            return (set(), {p}) if isinstance(t.ops[0], ast.Is) else ({p}, set())
        if isinstance(t, ast.Call) and call_name(t) == '_check_for_none' and len(t.args) == 2:
            self.guard_sites += 1
            self.expr(t.args[1], facts, deref=False)
            return set(), {self.path(t.args[1])}
        if isinstance(t, ast.Call) and call_name(t) in ('all', 'any') and len(t.args) == 1 and isinstance(t.args[0], (ast.GeneratorExp, ast.ListComp)) \
                and isinstance(t.args[0].elt, ast.Compare) and len(t.args[0].elt.ops) == 1 and isinstance(t.args[0].elt.ops[0], (ast.Is, ast.IsNot)) \
                and isinstance(t.args[0].elt.comparators[0], ast.Constant) and t.args[0].elt.comparators[0].value is None and not any(g.ifs for g in t.args[0].generators):
            # idiom (v): any(P is None for i in R1 for j in R2) false  ==> P defined for all (i, j);  all(P is not None ...) true ==> same.
            # The fact is only usable inside loops that bind the same variables to the same ranges (checked in need()).
            gen = t.args[0]
            p = self.path(gen.elt.left)
            binds = {unparse(g.target): unparse(g.iter) for g in gen.generators}
            self.expr(t, facts)
            self.guard_sites += 1
            is_none = isinstance(gen.elt.ops[0], ast.Is)
            if call_name(t) == 'any' and is_none:
                self.qfacts[p] = binds
                return set(), {p}
            if call_name(t) == 'all' and not is_none:
                self.qfacts[p] = binds
                return {p}, set()
            return set(), set()
        if isinstance(t, ast.Call) and call_name(t) in ('all', 'any'):
            self.expr(t, facts)
            return set(), set()
        self.expr(t, facts)
        return set(), set()

    # ------------------------------------------------------------ expressions
    def report(self, e, how):
        k = (unparse(e), getattr(e, 'lineno', 0), getattr(e, 'col_offset', 0))
        if k in self._seen:
            return
        self._seen.add(k)
        self.findings.append(Finding(unparse(e), e, how))

    def need(self, e, facts, how):
        """e is about to be dereferenced"""
        if self.nullable(e):
            self.derefs_checked += 1
            txt = self.path(e)
            ok = txt in facts
            if ok and txt in self.qfacts:
                ok = all(self.loopvars.get(v) == r for v, r in self.qfacts[txt].items())
            if not ok:
                self.report(e, how)

    def expr(self, e, facts, deref=False, how=''):
        if e is None:
            return
        if deref:
            self.need(e, facts, how)
        if isinstance(e, ast.Subscript):
            self.expr(e.value, facts, deref=not self._is_container_base(e), how='subscripted')
            if isinstance(e.slice, ast.Slice):
                for x in (e.slice.lower, e.slice.upper, e.slice.step):
                    self.expr(x, facts)
            else:
                self.expr(e.slice, facts)
        elif isinstance(e, ast.Attribute):
            self.expr(e.value, facts, deref=True, how='attribute .%s' % e.attr)
        elif isinstance(e, ast.BinOp):
            self.expr(e.left, facts, deref=True, how='operand of %s' % type(e.op).__name__)
            self.expr(e.right, facts, deref=True, how='operand of %s' % type(e.op).__name__)
        elif isinstance(e, ast.UnaryOp):
            self.expr(e.operand, facts, deref=not isinstance(e.op, ast.Not), how='unary operand')
        elif isinstance(e, ast.Compare):
            ordered = any(not isinstance(o, (ast.Is, ast.IsNot, ast.In, ast.NotIn, ast.Eq, ast.NotEq)) for o in e.ops)
            self.expr(e.left, facts, deref=ordered, how='ordered comparison')
            for c in e.comparators:
                self.expr(c, facts, deref=ordered, how='ordered comparison')
        elif isinstance(e, ast.BoolOp):
            self.cond(e, facts)
        elif isinstance(e, ast.IfExp):
            tf, ff = self.cond(e.test, facts)
            self.expr(e.body, facts | tf)
            self.expr(e.orelse, facts | ff)
        elif isinstance(e, ast.Call):
            cn = call_name(e)
            if isinstance(e.func, ast.Attribute):
                self.expr(e.func.value, facts, deref=True, how='method call .%s' % e.func.attr)
            elif not isinstance(e.func, ast.Name):
                self.expr(e.func, facts)
            computing = cn not in NON_DEREF_CALLS and cn not in ('len',)
            for a in e.args:
                if isinstance(a, ast.Starred):
                    a = a.value
                self.expr(a, facts, deref=computing, how='argument of %s(...)' % cn)
            for k in e.keywords:
                self.expr(k.value, facts)
        elif isinstance(e, (ast.ListComp, ast.SetComp, ast.GeneratorExp, ast.DictComp)):
            f2 = set(facts)
            saved = set(self.nullable_vars)
            for g in e.generators:
                self.bind_iter(g.target, g.iter, f2)
                for c in g.ifs:
                    tf, ff = self.cond(c, f2)
                    f2 |= tf
            if isinstance(e, ast.DictComp):
                self.expr(e.key, f2)
                self.expr(e.value, f2)
            else:
                self.expr(e.elt, f2)
            self.nullable_vars.clear()
            self.nullable_vars.update(saved)
        elif isinstance(e, (ast.List, ast.Tuple, ast.Set)):
            for x in e.elts:
                self.expr(x, facts)
        elif isinstance(e, ast.Dict):
            for x in list(e.keys) + list(e.values):
                self.expr(x, facts)
        elif isinstance(e, ast.JoinedStr):
            for x in e.values:
                if isinstance(x, ast.FormattedValue):
                    self.expr(x.value, facts, deref=True, how='formatted')
        elif isinstance(e, ast.Lambda):
            pass
        elif isinstance(e, ast.Starred):
            self.expr(e.value, facts)
        elif isinstance(e, ast.NamedExpr):
            self.expr(e.value, facts)

    def _is_container_base(self, sub):
        """x.content[...] / list[...] : the base is a container, not a timeslice value"""
        b = sub.value
        if isinstance(b, ast.Attribute) and b.attr == 'content':
            return True
        if isinstance(b, ast.Name) and (b.id in self.corr or b.id in self.none_lists or b.id in self.param_lists) and not self.nullable(b):
            return True
        return False

    def bind_iter(self, target, it, facts):
        kind = self.content_iter(it)
        if kind == 'enum' and isinstance(target, ast.Tuple) and len(target.elts) == 2 and isinstance(target.elts[1], ast.Name):
            self.nullable_vars.add(target.elts[1].id)
            facts.discard(target.elts[1].id)
            self.expr(it.args[0], facts)
            return
        if kind is True and isinstance(target, ast.Name):
            self.nullable_vars.add(target.id)
            facts.discard(target.id)
            self.expr(it, facts)
            return
        # iterating a nullable value itself dereferences it
        self.expr(it, facts, deref=True, how='iterated')
        for n in ast.walk(target):
            if isinstance(n, ast.Name):
                self.nullable_vars.discard(n.id)
                self.kill(facts, n.id)

    @staticmethod
    def kill(facts, name):
        """a name was rebound: facts mentioning it are stale"""
        import re
        pat = re.compile(r'\b%s\b' % re.escape(name))
        for f in [f for f in facts if pat.search(f)]:
            facts.discard(f)

    def none_store_may_precede(self, slot, store_stmt):
        """is there a statement `L[k] = None` (same L, same index text) that can run before `store_stmt` for the same value of k?"""
        L, k = slot.value.id, unparse(slot.slice)
        kvars = {n.id for n in ast.walk(slot.slice) if isinstance(n, ast.Name)}
        for n in ast.walk(self.f):
            if isinstance(n, ast.Assign) and isinstance(n.value, ast.Constant) and n.value.value is None:
                for tg in n.targets:
                    if isinstance(tg, ast.Subscript) and isinstance(tg.value, ast.Name) and tg.value.id == L and unparse(tg.slice) == k:
                        if self._may_precede(n, store_stmt, kvars):
                            return True
        return False

    def _chain(self, node):
        out = [node]
        while node in self.parents:
            node = self.parents[node]
            out.append(node)
        return out

    def _may_precede(self, a, b, kvars):
        ca, cb = self._chain(a), self._chain(b)
        common = next((x for x in ca if x in cb), None)
        if common is None:
            return True
        # loops strictly between the common ancestor and the loop(s) binding the index variables re-execute `common` for the same k
        above = self._chain(common)[1:] if not isinstance(common, (ast.For, ast.While)) else self._chain(common)
        binding = None
        for x in self._chain(common):
            if isinstance(x, ast.For) and any(isinstance(n, ast.Name) and n.id in kvars for n in ast.walk(x.target)):
                binding = x
                break
        between = []
        for x in self._chain(common):
            if x is binding:
                break
            if isinstance(x, (ast.For, ast.While)):
                between.append(x)
        if isinstance(common, ast.If):
            ia = next(x for x in ca if self.parents.get(x) is common)
            ib = next(x for x in cb if self.parents.get(x) is common)
            arm = lambda x: 'body' if x in common.body else ('orelse' if x in common.orelse else 'test')
            if arm(ia) != arm(ib) and not between:
                return False        # mutually exclusive arms, executed once per value of k
            return True
        if between or isinstance(common, (ast.For, ast.While)) and common is not binding:
            return True
        # same statement list: precedes only if textually earlier ...
        if not a.lineno < b.lineno:
            return False
        # ... and control can get from a to b: when a sits in an arm of an earlier `if` of that list and the arm leaves the iteration
        # (continue / return / raise / break as its last statement), b does not run after a for the same k
        ia = next((x for x in ca if self.parents.get(x) is common), None)
        if isinstance(ia, ast.If) and a is not ia:
            top = ia
            while isinstance(top, ast.If):
                arm = top.body if any(a is y for st_ in top.body for y in ast.walk(st_)) else (top.orelse if any(a is y for st_ in top.orelse for y in ast.walk(st_)) else None)
                if arm is None:
                    break
                if self.exits(arm):
                    return False
                top = arm[0] if len(arm) == 1 and isinstance(arm[0], ast.If) else None
        return True

    # ------------------------------------------------------------ statements
    @staticmethod
    def exits(stmts):
        return bool(stmts) and isinstance(stmts[-1], (ast.Continue, ast.Return, ast.Raise, ast.Break))

    def block(self, stmts, facts):
        facts = set(facts)
        for s in stmts:
            facts = self.stmt(s, facts)
        return facts

    def stmt(self, s, facts):
        if isinstance(s, ast.If):
            tf, ff = self.cond(s.test, facts)
            a = self.block(s.body, facts | tf)
            b = self.block(s.orelse, facts | ff)
            if self.exits(s.body) and not self.exits(s.orelse):
                return b if s.orelse else (facts | ff)
            if self.exits(s.orelse) and not self.exits(s.body):
                return a
            return (a & b) | facts if not (self.exits(s.body) and self.exits(s.orelse)) else facts
        if isinstance(s, (ast.For, ast.AsyncFor)):
            f2 = set(facts)
            saved = set(self.nullable_vars)
            saved_lv = dict(self.loopvars)
            # quantified facts survive the rebinding of their own variables by a loop over the same range
            keep = {q for q, b in self.qfacts.items() if q in f2 and isinstance(s.target, ast.Name) and b.get(s.target.id) == unparse(s.iter)}
            self.bind_iter(s.target, s.iter, f2)
            f2 |= keep
            if isinstance(s.target, ast.Name):
                self.loopvars[s.target.id] = unparse(s.iter)
            self.block(s.body, f2)
            self.loopvars = saved_lv
            self.block(s.orelse, facts)
            self.nullable_vars.clear()
            self.nullable_vars.update(saved)
            return facts
        if isinstance(s, ast.While):
            self.cond(s.test, facts)
            self.block(s.body, facts)
            return facts
        if isinstance(s, ast.Try):
            broad = any(h.type is None or unparse(h.type) in ('Exception', 'BaseException') or 'TypeError' in unparse(h.type) for h in s.handlers)
            if broad:
                # idiom (iv): failures of the body are caught; count what is protected
                sub = NullSafety.__new__(NullSafety)
                sub.__dict__.update(self.__dict__)
                sub.findings, sub._seen = [], set()
                sub.nullable_vars = set(self.nullable_vars)
                sub.block(s.body, facts)
                self.protected += len(sub.findings)
                self.derefs_checked = sub.derefs_checked
            else:
                self.block(s.body, facts)
            for h in s.handlers:
                self.block(h.body, facts)
            self.block(s.orelse, facts)
            self.block(s.finalbody, facts)
            return facts
        if isinstance(s, ast.Assign):
            self.expr(s.value, facts)
            for t in s.targets:
                if isinstance(t, ast.Name):
                    self.kill(facts, t.id)
                    if self.nullable(s.value) and unparse(s.value) not in facts:
                        self.nullable_vars.add(t.id)
                    else:
                        self.nullable_vars.discard(t.id)
                elif isinstance(t, ast.Tuple):
                    for n in ast.walk(t):
                        if isinstance(n, ast.Name):
                            self.kill(facts, n.id)
                            self.nullable_vars.discard(n.id)
                        if isinstance(n, ast.Subscript):
                            self.expr(n.value, facts, deref=not self._is_container_base(n), how='element store')
                            self.expr(n.slice, facts)
                            facts.discard(unparse(n))
                elif isinstance(t, ast.Subscript):
                    # element store into a slot of a local list (typestate rule D5): flagged only if a `L[k] = None` store of the same slot
                    # may execute before it for the same k (see none_store_may_precede)
                    if isinstance(t.value, ast.Subscript) and isinstance(t.value.value, ast.Name) and t.value.value.id in self.none_lists \
                            and t.value.value.id not in self.param_lists:
                        self.derefs_checked += 1
                        if unparse(t.value) not in facts and self.none_store_may_precede(t.value, s):
                            self.report(t.value, 'element store')
                        self.expr(t.slice, facts)
                        facts.discard(unparse(t))
                        continue
                    self.expr(t.value, facts, deref=not self._is_container_base(t), how='element store')
                    self.expr(t.slice, facts)
                    if isinstance(s.value, ast.Constant) and s.value.value is None:
                        facts.discard(unparse(t))
                    else:
                        facts.discard(unparse(t))
                elif isinstance(t, ast.Attribute):
                    self.expr(t.value, facts, deref=True, how='attribute store')
            return facts
        if isinstance(s, ast.AugAssign):
            self.expr(s.value, facts)
            self.expr(s.target, facts, deref=True, how='augmented assignment')
            if isinstance(s.target, ast.Name):
                self.kill(facts, s.target.id)
            return facts
        if isinstance(s, ast.Expr):
            self.expr(s.value, facts)
            return facts
        if isinstance(s, ast.Return):
            self.expr(s.value, facts)
            return facts
        if isinstance(s, (ast.With,)):
            for it in s.items:
                self.expr(it.context_expr, facts)
            return self.block(s.body, facts)
        if isinstance(s, (ast.FunctionDef, ast.AsyncFunctionDef)):
            return facts      # nested functions are analysed as separate units
        if isinstance(s, (ast.Raise, ast.Assert, ast.Delete)):
            for c in ast.iter_child_nodes(s):
                if isinstance(c, ast.expr):
                    self.expr(c, facts)
            return facts
        return facts

    def run(self):
        self.block(self.f.body, set())
        return self.findings
