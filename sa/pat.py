"""Syntax-tree patterns with metavariables, matched modulo local definitions.

A rule that wants to say "this function contains the statement  X = [None] * padding[0] + X + [None] * padding[1]"
must not depend on how the locals are called or on whether a sub-expression was first stored in a temporary.  Patterns are
Python source in which

    $NAME      matches any expression (or assignment target); a second occurrence must match a structurally equal tree
    $_         matches any expression, binds nothing
    $$REST     as the last positional argument of a call: matches the remaining positional arguments

Everything else matches literally (attribute names, called functions, constants, operators, keywords by name; keyword order is
irrelevant; keywords not mentioned in the pattern are allowed only with `...` as an extra positional pattern argument - kept
simple: by default extra keywords in the code are NOT allowed).

Matching is *modulo local definitions*: when the code has a plain local name where the pattern has a compound expression and
that local has exactly one binding `name = expr` in the function, the pattern is matched against `expr` (recursively, bounded).
This makes `front = [None] * padding[0]; self.content = front + self.content + back` match the one-line pattern.

The matcher is purely syntactic; it is used for necessary conditions of the form "the defining statement is present".
"""
import ast
import os
import re

_MV = '_MV_'
_MVS = '_MVS_'


def compile_pattern(src):
    s = re.sub(r'\$\$([A-Za-z_][A-Za-z0-9_]*)', _MVS + r'\1', src)
    s = re.sub(r'\$([A-Za-z_][A-Za-z0-9_]*)', _MV + r'\1', s)
    tree = ast.parse(s)
    if len(tree.body) != 1:
        raise ValueError('pattern must be one statement or expression: %r' % src)
    node = tree.body[0]
    if isinstance(node, ast.Expr):
        return node.value
    return node


def local_defs(func):
    """name -> value for locals bound exactly once by a plain assignment (never augmented, never a loop/with/except target,
    not a parameter)."""
    counts = {}
    vals = {}
    params = set()
    if isinstance(func, (ast.FunctionDef, ast.AsyncFunctionDef, ast.Lambda)):
        a = func.args
        for x in a.posonlyargs + a.args + a.kwonlyargs:
            params.add(x.arg)
        if a.vararg:
            params.add(a.vararg.arg)
        if a.kwarg:
            params.add(a.kwarg.arg)

    def bump(t, val=None):
        if isinstance(t, ast.Name):
            counts[t.id] = counts.get(t.id, 0) + (1 if val is not None else 2)
            if val is not None:
                vals[t.id] = val
        elif isinstance(t, (ast.Tuple, ast.List)):
            for e in t.elts:
                bump(e)
        elif isinstance(t, ast.Starred):
            bump(t.value)

    for n in ast.walk(func):
        if isinstance(n, ast.Assign):
            for t in n.targets:
                if isinstance(t, ast.Name) and len(n.targets) == 1:
                    bump(t, n.value)
                else:
                    bump(t)
        elif isinstance(n, ast.AnnAssign) and n.value is not None:
            bump(n.target, n.value)
        elif isinstance(n, ast.AugAssign):
            bump(n.target)
        elif isinstance(n, (ast.For, ast.AsyncFor)):
            bump(n.target)
        elif isinstance(n, ast.comprehension):
            bump(n.target)
        elif isinstance(n, (ast.With, ast.AsyncWith)):
            for it in n.items:
                if it.optional_vars is not None:
                    bump(it.optional_vars)
        elif isinstance(n, ast.ExceptHandler) and n.name:
            counts[n.name] = counts.get(n.name, 0) + 2
        elif isinstance(n, ast.NamedExpr):
            bump(n.target)
    return {k: v for k, v in vals.items() if counts.get(k) == 1 and k not in params}


def _same(a, b):
    return ast.dump(a) == ast.dump(b)


class Matcher:
    def __init__(self, defs=None, depth=4):
        self.defs = defs or {}
        self.depth = depth

    def match(self, pat, node, env=None):
        env = {} if env is None else env
        trial = dict(env)
        if self._m(pat, node, trial, self.depth):
            env.clear()
            env.update(trial)
            return True
        return False

    def _m(self, p, n, env, d):
        if isinstance(p, ast.Name) and p.id.startswith(_MV):
            key = p.id[len(_MV):]
            if key == '_':
                return True
            if key in env:
                return _same(_strip_ctx(env[key]), _strip_ctx(n))
            env[key] = n
            return True
        if isinstance(n, ast.Name) and isinstance(n.ctx, ast.Load) and not (isinstance(p, ast.Name) and p.id == n.id):
            if d > 0 and n.id in self.defs:
                return self._m(p, self.defs[n.id], env, d - 1)
            return False
        if type(p) is not type(n):
            return False
        if isinstance(p, ast.Constant):
            return type(p.value) is type(n.value) and p.value == n.value
        if isinstance(p, ast.Call):
            if not self._m(p.func, n.func, env, d):
                return False
            pa = list(p.args)
            na = list(n.args)
            if pa and isinstance(pa[-1], ast.Name) and pa[-1].id.startswith(_MVS):
                key = pa[-1].id[len(_MVS):]
                pa = pa[:-1]
                if len(na) < len(pa):
                    return False
                env[key] = na[len(pa):]
                na = na[:len(pa)]
            if len(pa) != len(na):
                return False
            for x, y in zip(pa, na):
                if not self._m(x, y, env, d):
                    return False
            pk = {k.arg: k.value for k in p.keywords}
            nk = {k.arg: k.value for k in n.keywords}
            any_kw = pk.pop('_MV_KW', None) is not None
            if (set(pk) - set(nk)) or (not any_kw and set(nk) - set(pk)):
                return False
            return all(self._m(pk[k], nk[k], env, d) for k in pk)
        header = getattr(p, '_header_only', False)
        for field in p._fields:
            if field in ('ctx', 'type_comment', 'lineno', 'col_offset', 'end_lineno', 'end_col_offset', 'kind'):
                continue
            if header and field in ('body', 'orelse', 'finalbody', 'handlers'):
                continue
            a = getattr(p, field, None)
            b = getattr(n, field, None)
            if isinstance(a, list):
                if not isinstance(b, list) or len(a) != len(b):
                    return False
                for x, y in zip(a, b):
                    if isinstance(x, ast.AST):
                        if not isinstance(y, ast.AST) or not self._m(x, y, env, d):
                            return False
                    elif x != y:
                        return False
            elif isinstance(a, ast.AST):
                if not isinstance(b, ast.AST) or not self._m(a, b, env, d):
                    return False
            elif a != b:
                return False
        return True


def _strip_ctx(node):
    class T(ast.NodeTransformer):
        def generic_visit(self, n):
            n = super().generic_visit(n)
            if hasattr(n, 'ctx'):
                n.ctx = ast.Load()
            return n
    import copy
    return T().visit(copy.deepcopy(node))


def find_all(root, pattern, defs=None, modulo_defs=True):
    """all (node, env) under root (a function, statement or expression) that match the pattern"""
    pat = compile_pattern(pattern) if isinstance(pattern, str) else pattern
    if defs is None and modulo_defs:
        defs = local_defs(root)
    m = Matcher(defs if modulo_defs else {})
    out = []
    want_stmt = isinstance(pat, ast.stmt)
    for n in ast.walk(root):
        if want_stmt != isinstance(n, ast.stmt):
            continue
        if not want_stmt and not isinstance(n, ast.expr):
            continue
        env = {}
        if m.match(pat, n, env):
            out.append((n, env))
    return out


def has(root, pattern, **kw):
    return bool(find_all(root, pattern, **kw))


def has_all(root, patterns, **kw):
    """list of the patterns that are missing"""
    return [p for p in patterns if not has(root, p, **kw)]


# ---------------------------------------------------------------------------------------------------------------------------------
# "text modulo renaming of locals": the drop-in replacement for   t = unparse(func);  '<statement>' in t

import builtins as _bi


def _module_names(module_tree):
    out = set(dir(_bi))
    for n in module_tree.body:
        if isinstance(n, (ast.FunctionDef, ast.AsyncFunctionDef, ast.ClassDef)):
            out.add(n.name)
        elif isinstance(n, (ast.Import, ast.ImportFrom)):
            for a in n.names:
                out.add((a.asname or a.name).split('.')[0])
        elif isinstance(n, ast.Assign):
            for t in n.targets:
                for x in ast.walk(t):
                    if isinstance(x, ast.Name):
                        out.add(x.id)
        elif isinstance(n, (ast.If, ast.Try)):
            for x in ast.walk(n):
                if isinstance(x, (ast.Import, ast.ImportFrom)):
                    for a in x.names:
                        out.add((a.asname or a.name).split('.')[0])
    return out


def _params(func):
    out = set()
    for f in ast.walk(func):
        if isinstance(f, (ast.FunctionDef, ast.AsyncFunctionDef, ast.Lambda)):
            a = f.args
            for x in a.posonlyargs + a.args + a.kwonlyargs:
                out.add(x.arg)
            if a.vararg:
                out.add(a.vararg.arg)
            if a.kwarg:
                out.add(a.kwarg.arg)
    return out


class Text:
    """`'<expr or statement>' in Text(mod, func)` is true when the function contains that expression / statement up to a
    consistent renaming of its local variables and up to temporaries (matching modulo single-assignment local definitions).
    Names of the fragment that are parameters, module-level names, imports or builtins are literal; every other name is a local
    and becomes a metavariable.  All fragments that were found so far must be satisfiable by ONE renaming, so the roles of the
    locals stay tied together across fragments (swapping which local receives which value is still seen).
    A fragment that is not a complete expression / statement falls back to a substring test on the unparsed text; those are
    counted in `.fallbacks`."""

    def __init__(self, module_tree, func, literal=()):
        self.func = func
        self.fixed = _module_names(module_tree) | _params(func) | set(literal) | {'self', 'cls'}
        for n in ast.walk(func):
            if isinstance(n, (ast.Import, ast.ImportFrom)):
                for a in n.names:
                    self.fixed.add((a.asname or a.name).split('.')[0])
            elif isinstance(n, (ast.FunctionDef, ast.AsyncFunctionDef, ast.ClassDef)) and n is not func:
                self.fixed.add(n.name)
        self.defs = local_defs(func)
        self.unparsed = ast.unparse(func)
        self.accepted = []      # list of candidate env lists
        self.fallbacks = []
        self.generalised = 0

    def _compile(self, frag):
        frag = re.sub(r'\$\$([A-Za-z_][A-Za-z0-9_]*)', _MVS + r'\1', frag)
        frag = re.sub(r'\$([A-Za-z_][A-Za-z0-9_]*)', _MV + r'\1', frag)
        header = False
        try:
            if frag.rstrip().endswith(':'):
                tree = ast.parse(frag + ' pass')
                header = True
            else:
                tree = ast.parse(frag)
        except SyntaxError:
            return None
        if len(tree.body) != 1:
            return None
        if header:
            tree.body[0]._header_only = True
        fixed = self.fixed

        class R(ast.NodeTransformer):
            def visit_Name(self, n):
                if n.id in fixed or n.id.startswith(_MV):
                    return n
                return ast.copy_location(ast.Name(id=_MV + n.id, ctx=n.ctx), n)

            def visit_arg(self, n):
                return n

            def visit_Lambda(self, n):
                return n
        node = R().visit(tree.body[0])
        if isinstance(node, ast.Expr):
            node = node.value
        return node

    def _candidates(self, patnode):
        m = Matcher(self.defs)
        want_stmt = isinstance(patnode, ast.stmt)
        out = []
        for n in ast.walk(self.func):
            if want_stmt != isinstance(n, ast.stmt):
                continue
            if not want_stmt and not isinstance(n, ast.expr):
                continue
            env = {}
            if m.match(patnode, n, env):
                out.append(env)
        return out

    @staticmethod
    def _compatible(e1, e2):
        for k in e1.keys() & e2.keys():
            a, b = e1[k], e2[k]
            if isinstance(a, list) or isinstance(b, list):
                if not (isinstance(a, list) and isinstance(b, list) and len(a) == len(b) and all(_same(_strip_ctx(x), _strip_ctx(y)) for x, y in zip(a, b))):
                    return False
            elif not _same(_strip_ctx(a), _strip_ctx(b)):
                return False
        return True

    def _joint(self, groups):
        def rec(i, env):
            if i == len(groups):
                return True
            for cand in groups[i]:
                if self._compatible(env, cand):
                    e2 = dict(env)
                    e2.update(cand)
                    if rec(i + 1, e2):
                        return True
            return False
        return rec(0, {})

    def __contains__(self, frag):
        patnode = self._compile(frag)
        if patnode is None:
            self.fallbacks.append(frag)
            if os.environ.get('VERIF_PAT_DEBUG'):
                print('PAT-FALLBACK %s: %r' % (getattr(self.func, 'name', '?'), frag))
            return frag in self.unparsed
        cands = self._candidates(patnode)
        if not cands:
            return False
        if self._joint(self.accepted + [cands]):
            self.accepted.append(cands)
            return True
        return False


_TEXT_CACHE = {}


def text_of(node):
    """Text for an arbitrary node without module context: names bound inside the node (locals, comprehension variables; not the
    parameters of a function node) are renamable, every other name is literal.  One Text per node and process, so all fragments
    ever tested on the node must agree on one renaming."""
    key = id(node)
    hit = _TEXT_CACHE.get(key)
    if hit is not None and hit[0] is node:
        return hit[1]
    bound = set()
    for n in ast.walk(node):
        if isinstance(n, ast.Name) and isinstance(n.ctx, (ast.Store, ast.Del)):
            bound.add(n.id)
        elif isinstance(n, ast.ExceptHandler) and n.name:
            bound.add(n.name)
        elif isinstance(n, (ast.FunctionDef, ast.AsyncFunctionDef)) and n is not node:
            bound.add(n.name)
            for a in n.args.posonlyargs + n.args.args + n.args.kwonlyargs:
                bound.add(a.arg)
        elif isinstance(n, ast.Lambda):
            for a in n.args.args:
                bound.add(a.arg)
    params = _params(node) if isinstance(node, (ast.FunctionDef, ast.AsyncFunctionDef)) else set()
    if isinstance(node, (ast.FunctionDef, ast.AsyncFunctionDef)):
        own = {a.arg for a in node.args.posonlyargs + node.args.args + node.args.kwonlyargs}
        bound -= own
    free = {n.id for n in ast.walk(node) if isinstance(n, ast.Name)} - bound
    t = Text(ast.Module(body=[], type_ignores=[]), node, literal=free | params)
    # names that are bound inside must not be taken literally even if they coincide with builtins
    t.fixed -= (bound - free - params)
    _TEXT_CACHE[key] = (node, t)
    return t
