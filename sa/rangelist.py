"""Generic rule <id>-G2: a configuration list is replaced by a range only when every element was compared.

`range(A[0], A[-1] + e, S)` built from the end points of a list A describes the same configurations as A only if A is equally
spaced; a test of the length or of the end points alone also passes for irregular lists (1, 3, 4, 7, 9 has the end points and the
length of 1, 3, 5, 7, 9).  Where such a range is built, one of the element-wise witnesses the code base uses must guard it:

  W1  the step is D[0] with D = np.unique(np.diff(A)) (or the set of the differences) and the construct is under `len(D) == 1`
  W2  the range R is compared with A as a whole: `_check_lists_equal([list(R), A])`, `list(R) == A`, `np.array_equal(R, A)`
  W3  `all(... for ... in zip(A, A[1:]))` / `all(np.diff(A) == S)` in the guard

VIOLATED when none of them is found on the path to the construct or to the statement that puts the range in the place of the list.
"""
import ast

from .srcmodel import unparse, walk, guards_of, call_name


def _is_endpoint_range(c):
    if not (isinstance(c, ast.Call) and isinstance(c.func, ast.Name) and c.func.id == 'range' and len(c.args) == 3 and not c.keywords):
        return None
    a0, a1, st = c.args
    if not (isinstance(a0, ast.Subscript) and isinstance(a0.value, ast.Name) and unparse(a0.slice) == '0'):
        return None
    A = a0.value.id
    ok_end = isinstance(a1, ast.BinOp) and isinstance(a1.op, ast.Add) and unparse(a1.left) == '%s[-1]' % A
    if not ok_end:
        return None
    return A


def _defs(f, name):
    return [s for s in walk(f) if isinstance(s, ast.Assign) and len(s.targets) == 1 and isinstance(s.targets[0], ast.Name) and s.targets[0].id == name]


def _witness(mod, f, node, A, R, step):
    tests = [t for t, pol in guards_of(mod, node, stop=f) if pol]
    txts = [unparse(t) for t in tests]
    # W1
    if isinstance(step, ast.Subscript) and isinstance(step.value, ast.Name):
        D = step.value.id
        dd = _defs(f, D)
        if dd and all(('diff(%s)' % A) in unparse(d.value) and ('unique' in unparse(d.value) or 'set(' in unparse(d.value)) for d in dd) and any(
                x.replace(' ', '') in ('len(%s)==1' % D,) for x in txts):
            return 'W1 len(%s) == 1 with %s the distinct differences of %s' % (D, D, A)
    for t in tests:
        for c in ast.walk(t):
            # W2
            if isinstance(c, ast.Call) and call_name(c) == '_check_lists_equal' and c.args:
                arg = c.args[0]
                if isinstance(arg, ast.Name):
                    ds = _defs(f, arg.id)
                    arg = ds[-1].value if ds else arg
                at = unparse(arg)
                if R is not None and ('list(%s)' % R in at or R in [unparse(e) for e in getattr(arg, 'elts', [])]) and A in [unparse(e) for e in getattr(arg, 'elts', [])]:
                    return 'W2 _check_lists_equal of the range and the list'
            if isinstance(c, ast.Compare) and len(c.ops) == 1 and isinstance(c.ops[0], ast.Eq) and R is not None:
                l, r = unparse(c.left), unparse(c.comparators[0])
                if {l, r} in ({'list(%s)' % R, A}, {'list(%s)' % R, 'list(%s)' % A}):
                    return 'W2 list(range) == list'
            if isinstance(c, ast.Call) and call_name(c) == 'array_equal' and R is not None and {unparse(a) for a in c.args} >= {R, A}:
                return 'W2 np.array_equal'
            # W3
            if isinstance(c, ast.Call) and call_name(c) == 'all' and c.args and ('zip(%s, %s[1:])' % (A, A) in unparse(c.args[0]) or 'diff(%s)' % A in unparse(c.args[0])):
                return 'W3 all differences compared'
    return None


def check(ctx, rule, mod):
    n = 0
    for q, f in mod.functions():
        for c in walk(f):
            if mod.enclosing_func(c) is not f:
                continue
            A = _is_endpoint_range(c)
            if A is None:
                continue
            n += 1
            st = mod.parents.get(c)
            while st is not None and not isinstance(st, ast.stmt):
                st = mod.parents.get(st)
            R = st.targets[0].id if isinstance(st, ast.Assign) and len(st.targets) == 1 and isinstance(st.targets[0], ast.Name) and st.value is c else None
            key = '%s:%s#range-from-endpoints[%s]' % (mod.relpath.replace('pyerrors/', ''), q, A)
            w = _witness(mod, f, c, A, R, c.args[2])
            uses = []
            if w is None and R is not None:
                # the statements that put the range in the place of the list (assignment to the list / return / use as argument)
                uses = [u for u in walk(f) if isinstance(u, ast.Name) and u.id == R and isinstance(u.ctx, ast.Load) and not any(u is w_ for w_ in ast.walk(st))]      # (no line numbers: restored code)
                ws = [_witness(mod, f, u, A, R, c.args[2]) for u in uses]
                # reads inside the witness itself (list(R) in the comparison) do not replace anything
                repl = [(u, w_) for u, w_ in zip(uses, ws) if not _inside_test(mod, u, f)]
                if repl and all(w_ is not None for _, w_ in repl):
                    w = repl[0][1]
            if w is not None:
                ctx.holds(rule, key, 'the range built from the end points of %s is used only where every element was compared (%s)' % (A, w), mod.loc(c))
            else:
                ctx.violated(rule, key, '`%s` replaces the list %s by the range through its end points, but on the path only %s is tested: an irregular list with the same end points '
                             'and length (1, 3, 4, 7, 9 for 1, 3, 5, 7, 9) is silently relabelled' % (unparse(c), A, [unparse(t) for t, pol in guards_of(mod, c, stop=f)] or 'nothing'), mod.loc(c))
    return n


def _inside_test(mod, node, f):
    q = mod.parents.get(node)
    prev = node
    while q is not None and q is not f:
        if isinstance(q, (ast.If, ast.While)) and prev is q.test:
            return True
        if isinstance(q, ast.Assign):
            # a helper list such as idtest = [list(R), A] that only feeds the comparison
            return all(isinstance(t, ast.Name) for t in q.targets) and isinstance(q.value, (ast.List, ast.Tuple))
        prev, q = q, mod.parents.get(q)
    return False
