"""Obligation bookkeeping, verdicts, known findings, evidence and exit status."""
import json
import os
import sys
import time
import traceback

from .srcmodel import Repo, AnchorMissing, Unrecognised

HOLDS, VIOLATED, UNREC = 'HOLDS', 'VIOLATED', 'UNRECOGNISED'
VERIF = os.path.dirname(os.path.dirname(os.path.abspath(__file__)))


class Ob:
    __slots__ = ('rule', 'construct', 'verdict', 'detail', 'loc', 'extra')

    def __init__(self, rule, construct, verdict, detail, loc, extra=None):
        self.rule, self.construct, self.verdict, self.detail, self.loc, self.extra = rule, construct, verdict, detail, loc, extra

    def as_dict(self):
        d = {'rule': self.rule, 'construct': self.construct, 'verdict': self.verdict, 'detail': self.detail, 'loc': self.loc}
        if self.extra:
            d['extra'] = self.extra
        return d


class Ctx:
    def __init__(self, pid, tier='quick', repo_root=None, seed=0):
        self.pid = pid
        self.tier = tier
        self.seed = seed
        self.t0 = time.time()
        self.repo = Repo(repo_root)
        self.obs = []
        self.info = {}          # free-form counts for evidence
        self.notes = []
        self.floors = []        # (name, found, floor)
        self.not_decided = []
        self.trusted = []
        self.rule_text = {}

    # ---- recording -------------------------------------------------------
    def rule(self, rid, text):
        self.rule_text[rid] = text

    def ob(self, rule, construct, verdict, detail='', loc='', **extra):
        self.obs.append(Ob(rule, construct, verdict, detail, loc, extra or None))

    def holds(self, rule, construct, detail='', loc='', **extra):
        self.ob(rule, construct, HOLDS, detail, loc, **extra)

    def violated(self, rule, construct, detail='', loc='', **extra):
        self.ob(rule, construct, VIOLATED, detail, loc, **extra)

    def unrec(self, rule, construct, detail='', loc='', **extra):
        self.ob(rule, construct, UNREC, detail, loc, **extra)

    def check(self, rule, construct, cond, detail_ok='', detail_bad='', loc='', **extra):
        if cond:
            self.holds(rule, construct, detail_ok, loc, **extra)
        else:
            self.violated(rule, construct, detail_bad or detail_ok, loc, **extra)
        return cond

    def floor(self, name, found, floor):
        self.floors.append((name, found, floor))

    def guarded(self, rule, construct, fn, *a, **kw):
        """Run fn; AnchorMissing / Unrecognised become UNRECOGNISED obligations."""
        try:
            return fn(*a, **kw)
        except (AnchorMissing, Unrecognised) as e:
            self.unrec(rule, construct, '%s: %s' % (type(e).__name__, e))
        except Exception as e:  # internal error: analysis broken, never a violation
            self.unrec(rule, construct, 'internal error: %s\n%s' % (e, traceback.format_exc(limit=6)))
        return None


def load_known():
    p = os.path.join(VERIF, 'known_findings.json')
    if not os.path.exists(p):
        return []
    with open(p) as fh:
        return json.load(fh)


def finish(ctx, level, explanation, checker_cmd):
    """Write evidence, print report lines, return exit status."""
    pid = ctx.pid
    only = getattr(ctx, 'only', None)
    if only:
        ctx.obs = [o for o in ctx.obs if (o.rule, o.construct) == tuple(only)]
        ctx.floors = []
        if not ctx.obs:
            print('ANALYSIS-ERROR property=%s replayed instance %s %s no longer exists' % (pid, only[0], only[1]))
            return 2
    known = [k for k in load_known() if k.get('property') == pid and k.get('status', 'known') == 'known']
    viol = [o for o in ctx.obs if o.verdict == VIOLATED]
    unrec = [o for o in ctx.obs if o.verdict == UNREC]
    holds = [o for o in ctx.obs if o.verdict == HOLDS]

    def is_known(o):
        for k in known:
            if k.get('rule') == o.rule and k.get('construct') == o.construct:
                return k
        return None

    known_hits, new_viol = [], []
    for o in viol:
        k = is_known(o)
        (known_hits if k else new_viol).append((o, k))

    floor_fail = [(n, f, fl) for n, f, fl in ctx.floors if f < fl]

    lines = []
    print('== %s tier=%s repo=%s : %d obligations, %d hold, %d violated (%d known), %d unrecognised' % (
        pid, ctx.tier, ctx.repo.root, len(ctx.obs), len(holds), len(viol), len(known_hits), len(unrec)))
    byrule = {}
    for o in ctx.obs:
        byrule.setdefault(o.rule, []).append(o)
    for r in sorted(byrule):
        c = byrule[r]
        print('   %-8s %3d instances  hold=%d violated=%d unrecognised=%d  %s' % (
            r, len(c), sum(o.verdict == HOLDS for o in c), sum(o.verdict == VIOLATED for o in c),
            sum(o.verdict == UNREC for o in c), ctx.rule_text.get(r, '')))
    for n, f, fl in ctx.floors:
        print('   floor %-40s found=%d floor=%d%s' % (n, f, fl, '  <-- BELOW FLOOR' if f < fl else ''))

    for o, k in known_hits:
        print('KNOWN-FINDING: property=%s %s %s -- %s' % (pid, o.rule, o.construct, k.get('what', o.detail)))

    outdir = os.path.join(os.environ.get('VERIF_OUT_DIR', os.path.join(VERIF, 'out')), pid)
    status = 0
    if new_viol:
        os.makedirs(outdir, exist_ok=True)
        for i, (o, _) in enumerate(new_viol):
            rp = os.path.join(outdir, '%d.json' % i)
            with open(rp, 'w') as fh:
                json.dump({'property': pid, 'repo': ctx.repo.root, **o.as_dict()}, fh, indent=1)
            print('  %s %s at %s: %s' % (o.rule, o.construct, o.loc, o.detail))
            print('VIOLATION property=%s replay=%s' % (pid, rp))
        status = 1
    if unrec or floor_fail:
        for o in unrec:
            print('ANALYSIS-ERROR property=%s %s %s at %s: %s' % (pid, o.rule, o.construct, o.loc, o.detail))
        for n, f, fl in floor_fail:
            print('ANALYSIS-ERROR property=%s instance floor not met: %s found=%d floor=%d' % (pid, n, f, fl))
        if status == 0:
            status = 2

    # evidence
    samples = []
    seen_rules = set()
    for o in ctx.obs:
        if o.rule not in seen_rules:
            seen_rules.add(o.rule)
            samples.append(o.as_dict())
    for o in viol[:10]:
        samples.append(o.as_dict())
    n_ob = len(ctx.obs)
    n_dis = len(holds)
    cov = {
        'obligations': n_ob,
        'discharged': n_dis,
        'violated_known': len(known_hits),
        'violated_new': len(new_viol),
        'unrecognised': len(unrec),
        'checker_cmd': checker_cmd,
        'trusted_base': ctx.trusted or ['CPython ast parser', 'sympy simplification/differentiation (where algebra is used)',
                                        'the rule and atom tables under /verif/sa/rules'],
        'explanation': explanation,
        'rule': 'one obligation per (rule, construct) enumerated from the parsed source of %s; distinct = distinct (rule, construct) keys; non-trivial = the obligation needed an analysis step (not a bare existence test)' % ctx.repo.root,
        'evaluations': max(n_ob, 1),
        'distinct_nontrivial': len({(o.rule, o.construct) for o in ctx.obs}),
        'samples': samples[:40] or [{'note': 'no obligations'}],
        'analysed': ctx.repo.stats(),
        'rules': {r: {'text': ctx.rule_text.get(r, ''), 'instances': len(c),
                      'holds': sum(o.verdict == HOLDS for o in c),
                      'violated': sum(o.verdict == VIOLATED for o in c),
                      'unrecognised': sum(o.verdict == UNREC for o in c)} for r, c in sorted(byrule.items())},
        'instance_floors': [{'name': n, 'found': f, 'floor': fl} for n, f, fl in ctx.floors],
        'info': ctx.info,
        'not_decided': ctx.not_decided,
        'known_findings_reported': [o.construct for o, _ in known_hits],
        'exhaustive': False,
    }
    ev = {
        'property_id': pid,
        'tier': ctx.tier,
        'seed': int(ctx.seed),
        'level': level,
        'coverage': cov,
        'assumptions': ctx.notes,
        'wall_s': round(time.time() - ctx.t0, 3),
        'violations': len(new_viol),
    }
    evdir = os.environ.get('VERIF_EVIDENCE_DIR', os.path.join(VERIF, 'evidence'))
    os.makedirs(evdir, exist_ok=True)
    with open(os.path.join(evdir, pid + '.json'), 'w') as fh:
        json.dump(ev, fh, indent=1, default=str)
    print('== %s exit %d (%.2fs)' % (pid, status, time.time() - ctx.t0))
    return status
