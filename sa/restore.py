"""Reference-guided restoration of refactored functions (second stage of the normalisation pre-pass, see normalise.py).

A maintainer's clean-up - a temporary for a repeated sub-expression, a private helper extracted from duplicated code, a loop
turned into a comprehension, a condition rewritten by De Morgan, an `else` dropped after a `return` - changes the shape the rules
look for and nothing else.  Each rewrite below is semantics preserving under the side conditions it checks.  Rewrites that only
remove something the reference cannot contain (a local or a helper that does not exist in the reference) are applied
unconditionally; all others have two directions and are applied only when they bring the function closer to the reference,
measured on the blanked line hashes of sa/refnames.json (score = 2 * matched lines - lines).  Nothing is restored from stored
source: the reference holds hashes only, a rewrite is a local transformation of the current tree.

What cannot be restored is left as it is, and the rules see the function as written.
"""
import ast
import os
import sys
import copy
from collections import Counter

FuncDef = (ast.FunctionDef, ast.AsyncFunctionDef)
_BODY_FIELDS = ('body', 'orelse', 'finalbody', 'handlers')
PURE_CALLS = {'len', 'getattr', 'range', 'min', 'max', 'int', 'float', 'str', 'tuple', 'abs', 'isinstance', 'type', 'sorted', 'list', 'set', 'bool'}
MUTATORS = {'append', 'extend', 'insert', 'pop', 'remove', 'clear', 'sort', 'reverse', 'update', 'add', 'discard', 'setdefault', 'popitem', 'fill', 'resize'}


def parents_of(root):
    par = {}
    for n in ast.walk(root):
        for c in ast.iter_child_nodes(n):
            par[c] = n
    return par


def blocks_of(root):
    for n in ast.walk(root):
        for f in ('body', 'orelse', 'finalbody'):
            v = getattr(n, f, None)
            if isinstance(v, list) and v and isinstance(v[0], ast.stmt):
                yield n, f, v
        if isinstance(n, ast.Try):
            for h in n.handlers:
                pass


def always_exits(stmts):
    if not stmts:
        return False
    last = stmts[-1]
    if isinstance(last, (ast.Raise, ast.Return, ast.Continue, ast.Break)):
        return True
    if isinstance(last, ast.If):
        return bool(last.orelse) and always_exits(last.body) and always_exits(last.orelse)
    return False


def negate(test):
    """syntactic negation in the simplest equivalent form (comparisons are negated only where that is exact for all values:
    == / !=, in / not in, is / is not; ordering comparisons get an explicit `not`)"""
    if isinstance(test, ast.UnaryOp) and isinstance(test.op, ast.Not):
        return copy.deepcopy(test.operand)
    if isinstance(test, ast.Compare) and len(test.ops) == 1:
        swap = {ast.Eq: ast.NotEq, ast.NotEq: ast.Eq, ast.In: ast.NotIn, ast.NotIn: ast.In, ast.Is: ast.IsNot, ast.IsNot: ast.Is}
        t = type(test.ops[0])
        if t in swap:
            c = copy.deepcopy(test)
            c.ops = [swap[t]()]
            return c
    if isinstance(test, ast.BoolOp) and all(isinstance(v, ast.UnaryOp) and isinstance(v.op, ast.Not) or (isinstance(v, ast.Compare) and len(v.ops) == 1
                                            and isinstance(v.ops[0], (ast.Eq, ast.NotEq, ast.In, ast.NotIn, ast.Is, ast.IsNot))) for v in test.values):
        return ast.BoolOp(op=ast.And() if isinstance(test.op, ast.Or) else ast.Or(), values=[negate(v) for v in test.values])
    return ast.UnaryOp(op=ast.Not(), operand=copy.deepcopy(test))


def fix(node, like=None):
    if like is not None:
        ast.copy_location(node, like)
    for n in ast.walk(node):
        if not hasattr(n, 'lineno') and like is not None and isinstance(n, (ast.stmt, ast.expr)):
            n.lineno = like.lineno
            n.col_offset = getattr(like, 'col_offset', 0)
            n.end_lineno = getattr(like, 'end_lineno', like.lineno)
            n.end_col_offset = getattr(like, 'end_col_offset', 0)
    return ast.fix_missing_locations(node)


def replace_node(root, old, new):
    for parent in ast.walk(root):
        for f, v in ast.iter_fields(parent):
            if v is old:
                setattr(parent, f, new)
                return True
            if isinstance(v, list):
                for k, x in enumerate(v):
                    if x is old:
                        v[k] = new
                        return True
    return False


NP_PURE = {'bincount', 'vstack', 'hstack', 'identity', 'eye', 'column_stack', 'cumsum', 'argsort', 'sort', 'where', 'real', 'imag', 'conj', 'tile', 'repeat', 'outer', 'inner', 'trace', 'diag', 'std', 'var', 'median', 'round', 'sign', 'isnan', 'isfinite', 'nan_to_num', 'zeros_like', 'ones_like', 'full', 'atleast_1d', 'atleast_2d', 'squeeze', 'expand_dims', 'stack', 'arange', 'abs', 'sqrt', 'exp', 'log', 'sum', 'mean', 'array', 'asarray', 'zeros', 'ones', 'finfo', 'prod', 'floor', 'ceil', 'log10', 'diff', 'unique', 'min', 'max',
           'all', 'any', 'isclose', 'allclose', 'shape', 'ndim', 'size', 'reshape', 'ravel', 'concatenate', 'vstack', 'hstack', 'transpose', 'dot', 'matmul', 'linspace', 'empty', 'average'}


def _is_pure(e, allow_calls=True):
    for n in ast.walk(e):
        if isinstance(n, ast.Call):
            nm = n.func.id if isinstance(n.func, ast.Name) else None
            if allow_calls and isinstance(n.func, ast.Attribute) and isinstance(n.func.value, ast.Name) and n.func.value.id in ('np', 'anp', 'numpy', 'math') and n.func.attr in NP_PURE \
                    and not any(k.arg == 'out' for k in n.keywords):
                continue
            if not allow_calls or nm not in PURE_CALLS:
                # attribute calls that are known to be pure accessors
                if isinstance(n.func, ast.Attribute) and n.func.attr in ('get', 'keys', 'values', 'items', 'split', 'strip', 'startswith', 'endswith', 'index', 'finfo', 'reshape', 'ravel', 'flatten', 'transpose', 'astype', 'partition', 'lstrip', 'rstrip', 'tolist', 'copy', 'item', 'conj', 'conjugate', 'lower', 'upper', 'replace', 'count', 'find', 'join') and allow_calls:
                    continue
                return False
        if isinstance(n, (ast.Lambda, ast.Yield, ast.YieldFrom, ast.Await, ast.NamedExpr)):
            return False
    return True


def _roots(e):
    bound = set()
    for n in ast.walk(e):
        if isinstance(n, ast.comprehension):
            for y in ast.walk(n.target):
                if isinstance(y, ast.Name):
                    bound.add(y.id)
    out = set()
    for n in ast.walk(e):
        if isinstance(n, (ast.Name, ast.Attribute, ast.Subscript)):
            if any(isinstance(y, ast.Name) and y.id in bound for y in ast.walk(n)):
                continue
            out.add(ast.unparse(n))
    return out


# --------------------------------------------------------------------------------------------------- unconditional rewrites

def inline_new_temps(func, ref_locals, local_names, score=None, max_candidates=60):
    """a local that the reference does not know, bound once by `t = <side-effect free expression>`, whose operands are not
    rebound or mutated afterwards, is replaced by its definition at every use"""
    done = []
    changed = True
    while changed:
        changed = False
        names = {x for x in local_names(func) - set(ref_locals) if not x.startswith(('_xt', '_ret_tmp'))}
        par = parents_of(func)
        for t in sorted(names):
            stores = [n for n in ast.walk(func) if isinstance(n, ast.Name) and n.id == t and isinstance(n.ctx, (ast.Store, ast.Del))]
            loads = [n for n in ast.walk(func) if isinstance(n, ast.Name) and n.id == t and isinstance(n.ctx, ast.Load)]
            if len(stores) != 1 or not loads:
                continue
            a = par.get(stores[0])
            if not (isinstance(a, ast.Assign) and len(a.targets) == 1 and a.targets[0] is stores[0]):
                continue
            e = a.value
            single = len(loads) == 1
            if not _is_pure(e, allow_calls=True):
                continue
            if not single and not _is_pure(e, allow_calls=True):
                continue
            if any(l.lineno < a.lineno for l in loads):
                continue
            # the assignment must dominate the uses: it sits in a block that encloses every use
            blk_owner = par.get(a)
            ok = True
            for l in loads:
                p = par.get(l)
                while p is not None and p is not blk_owner:
                    p = par.get(p)
                if p is None:
                    ok = False
            if not ok:
                continue
            roots = _roots(e)
            unsafe = False
            region = []
            for _, _, blk in blocks_of(func):
                if a in blk:
                    for st in blk[blk.index(a) + 1:]:
                        region.extend(ast.walk(st))
            for n in region:
                tg = []
                if isinstance(n, ast.Assign):
                    tg = n.targets
                elif isinstance(n, (ast.AugAssign, ast.AnnAssign)):
                    tg = [n.target]
                elif isinstance(n, (ast.For, ast.comprehension)):
                    tg = [n.target]
                elif isinstance(n, ast.Delete):
                    tg = n.targets
                for x in tg:
                    for y in ast.walk(x):
                        if isinstance(y, (ast.Name, ast.Attribute, ast.Subscript)) and not isinstance(getattr(y, 'ctx', None), ast.Load) and ast.unparse(y) in roots:
                            unsafe = True
                        if isinstance(y, (ast.Subscript, ast.Attribute)) and isinstance(getattr(y, 'ctx', None), ast.Store) and ast.unparse(y.value) in roots:
                            unsafe = True
                if isinstance(n, ast.Call) and isinstance(n.func, ast.Attribute) and n.func.attr in MUTATORS and ast.unparse(n.func.value) in roots:
                    unsafe = True
            # the local itself must not be mutated when it names a fresh object (a container that is filled afterwards); an alias of
            # an existing object (name, attribute, element, getattr) may be written through: x = a.b ; x[k] = v  ==  a.b[k] = v
            alias = isinstance(e, (ast.Name, ast.Attribute, ast.Subscript)) or (isinstance(e, ast.Call) and isinstance(e.func, ast.Name) and e.func.id == 'getattr')
            for n in ([] if alias else region):
                if isinstance(n, ast.Call) and isinstance(n.func, ast.Attribute) and isinstance(n.func.value, ast.Name) and n.func.value.id == t and n.func.attr in MUTATORS:
                    unsafe = True
                if isinstance(n, (ast.Subscript, ast.Attribute)) and isinstance(getattr(n, 'ctx', None), (ast.Store, ast.Del)) and isinstance(n.value, ast.Name) and n.value.id == t:
                    unsafe = True
                if isinstance(n, ast.AugAssign) and isinstance(n.target, ast.Name) and n.target.id == t:
                    unsafe = True
            if unsafe:
                continue
            guided_ = score is not None
            if guided_ and Ctx.line_hash is not None and Ctx.ref_hashes:
                # the reference has no assignment of this shape at all: the local cannot be a renamed temporary of the reference
                try:
                    if Ctx.line_hash(a, local_names(func), func) not in Ctx.ref_hashes:
                        guided_ = False
                except Exception:
                    pass
            if guided_:
                # guided: the inlining is kept only when it brings the function closer to the reference (a renamed temporary of
                # the reference must stay)
                tried = getattr(func, '_inl_tried', set())
                if t in tried or len(tried) >= max_candidates:
                    continue
                tried.add(t)
                func._inl_tried = tried
                before = score(func)
                snapshot = _clone(func)
            for l in loads:
                replace_node(func, l, fix(copy.deepcopy(e), l))
            for _, _, blk in blocks_of(func):
                if a in blk:
                    blk.remove(a)
                    if not blk:
                        blk.append(fix(ast.Pass(), a))
                    break
            if guided_ and not score(func).better_than(before, removal=True):      # equal recovery with one statement less is kept
                func.body = snapshot.body
                changed = True          # the tree objects changed: recompute everything, the candidate is remembered as tried
                break
            done.append(t)
            changed = True
            break
    return done


def _tail_normalise(stmts):
    """if c: ...exit ; rest   ->   if c: ...exit else: rest   (recursively), so that every return is in tail position"""
    out = list(stmts)
    for i, s in enumerate(out):
        if isinstance(s, ast.If) and not s.orelse and always_exits(s.body) and i + 1 < len(out):
            s.orelse = _tail_normalise(out[i + 1:])
            s.body = _tail_normalise(s.body)
            return out[:i + 1]
        if isinstance(s, ast.If):
            s.body = _tail_normalise(s.body)
            s.orelse = _tail_normalise(s.orelse)
    return out


def _returns_in_tail(stmts):
    """all Return statements are the last statement of their block chain"""
    for i, s in enumerate(stmts):
        last = i == len(stmts) - 1
        if isinstance(s, ast.Return):
            if not last:
                return False
        elif isinstance(s, ast.If):
            if not last and any(isinstance(x, ast.Return) for x in ast.walk(s)):
                return False
            if not _returns_in_tail(s.body) or not _returns_in_tail(s.orelse):
                return False
        elif isinstance(s, ast.Try):
            if not last and any(isinstance(x, ast.Return) for x in ast.walk(s)):
                return False
            for b in [s.body, s.orelse, s.finalbody] + [h.body for h in s.handlers]:
                if not _returns_in_tail(b):
                    return False
        elif isinstance(s, (ast.For, ast.While, ast.With)):
            if any(isinstance(x, ast.Return) for x in ast.walk(s)):
                return False
        elif isinstance(s, FuncDef):
            continue
    return True


def _all_paths_end(stmts):
    """every path through stmts ends in return or raise"""
    if not stmts:
        return False
    last = stmts[-1]
    if isinstance(last, (ast.Return, ast.Raise)):
        return True
    if isinstance(last, ast.If):
        return bool(last.orelse) and _all_paths_end(last.body) and _all_paths_end(last.orelse)
    if isinstance(last, ast.Try):
        return _all_paths_end(last.body if not last.orelse else last.orelse) and all(_all_paths_end(h.body) for h in last.handlers)
    return False


def _subst_params(node, mapping):
    class R(ast.NodeTransformer):
        def visit_Name(self, n):
            if n.id in mapping and isinstance(n.ctx, ast.Load):
                return copy.deepcopy(mapping[n.id])
            return n
    return R().visit(node)


def inline_new_helpers(tree, ref_funcs, note):
    """calls of functions that the reference does not contain (module level, methods of the same class called through self,
    functions nested in the caller) are replaced by the helper's body: every `return e` of the helper becomes the calling
    statement with e in place of the call.  Conditions: simple positional / keyword parameters that the helper does not rebind,
    all returns in tail position (after guard-clause normalisation), every path ends in return / raise (or the helper has no
    return at all and the call is an expression statement), exactly one call of the helper in the calling statement, not
    inside a lambda / comprehension / loop header of that statement."""
    helpers = {}
    for n in tree.body:
        if isinstance(n, FuncDef) and n.name not in ref_funcs:
            helpers[('mod', n.name)] = n
        elif isinstance(n, ast.ClassDef):
            for m in n.body:
                if isinstance(m, FuncDef) and (n.name + '.' + m.name) not in ref_funcs:
                    helpers[('meth', m.name)] = m
    Ctx.helpers = dict(helpers)
    count = 0
    # new functions that are only passed around as values (callbacks): written back as lambda expressions where that is possible
    for key_, h in list(helpers.items()):
        if key_[0] != 'mod':
            continue
        lam = _as_lambda(h)
        if lam is None:
            continue
        for owner in [tree]:
            par = parents_of(owner)
            for n in [x for x in ast.walk(owner) if isinstance(x, ast.Name) and x.id == h.name and isinstance(x.ctx, ast.Load)]:
                p_ = par.get(n)
                if isinstance(p_, ast.Call) and p_.func is n:
                    continue
                replace_node(owner, n, fix(copy.deepcopy(lam), n))
                note.append('function value %s written as lambda' % h.name)
                count += 1
    # single-return helpers: substitute the returned expression for every call, wherever it stands
    def _single_return(h):
        body = [x for x in h.body if not (isinstance(x, ast.Expr) and isinstance(x.value, ast.Constant) and isinstance(x.value.value, str))]
        if len(body) == 1 and isinstance(body[0], ast.Return) and body[0].value is not None and not (h.args.vararg or h.args.kwarg or h.args.kwonlyargs):
            return body[0].value
        return None
    for owner in [n for n in ast.walk(tree) if isinstance(n, FuncDef)]:
        table = dict(helpers)
        for n in ast.walk(owner):
            if isinstance(n, FuncDef) and n is not owner and getattr(n, '_is_new_nested', False):
                table[('nested', n.name)] = n
        for _round in range(6):
            hit = False
            for c in [x for x in ast.walk(owner) if isinstance(x, ast.Call)]:
                h = kind = None
                if isinstance(c.func, ast.Name):
                    h = table.get(('mod', c.func.id)) or table.get(('nested', c.func.id))
                    kind = 'mod'
                elif isinstance(c.func, ast.Attribute) and isinstance(c.func.value, ast.Name) and c.func.value.id == 'self' and ('meth', c.func.attr) in table:
                    h, kind = table[('meth', c.func.attr)], 'meth'
                if h is None or h is owner:
                    continue
                e = _single_return(h)
                if e is None:
                    continue
                params = [a.arg for a in h.args.posonlyargs + h.args.args]
                if kind == 'meth':
                    params = params[1:]
                if any(isinstance(a, ast.Starred) for a in c.args) or any(k.arg is None for k in c.keywords) or len(c.args) > len(params):
                    continue
                mapping = dict(zip(params, c.args))
                okk = True
                for k in c.keywords:
                    if k.arg not in params or k.arg in mapping:
                        okk = False
                    mapping[k.arg] = k.value
                for p_, d_ in zip(params[len(params) - len(h.args.defaults):], h.args.defaults):
                    mapping.setdefault(p_, d_)
                if not okk or set(mapping) != set(params):
                    continue
                if any(isinstance(x, ast.Name) and x.id in mapping and isinstance(x.ctx, ast.Store) for x in ast.walk(e)):
                    continue
                new_e = _subst_params(ast.Expression(body=copy.deepcopy(e)), mapping).body
                replace_node(owner, c, fix(new_e, c))
                note.append('inlined helper %s' % h.name)
                count += 1
                hit = True
                break
            if not hit:
                break
    for _ in range(40):
        site = _find_helper_site(tree, helpers, ref_funcs)
        if site is None:
            break
        owner_blk, stmt, call, h, kind = site
        new = _inline_site(stmt, call, h, kind)
        if new is None:
            # mark as not inlinable: remove from consideration by tagging the call
            call._no_inline = True
            continue
        i = owner_blk.index(stmt)
        owner_blk[i:i + 1] = new
        count += 1
        note.append('inlined helper %s' % h.name)
    return count


def _as_lambda(h):
    """def f(args): [t = E ...] return R      or      def f(args): def g(args2): ... return R2 ; return g        as a lambda expression"""
    if h.args.vararg or h.args.kwarg or h.args.kwonlyargs or h.decorator_list:
        return None
    body = [x for x in h.body if not (isinstance(x, ast.Expr) and isinstance(x.value, ast.Constant) and isinstance(x.value.value, str))]
    if not body:
        return None
    env = {}
    inner = {}
    for st in body[:-1]:
        if isinstance(st, ast.Assign) and len(st.targets) == 1 and isinstance(st.targets[0], ast.Name):
            v = _subst_params(ast.Expression(body=copy.deepcopy(st.value)), env).body
            env[st.targets[0].id] = v
        elif isinstance(st, FuncDef):
            lam = _as_lambda(st)
            if lam is None:
                return None
            inner[st.name] = lam
        else:
            return None
    last = body[-1]
    if not isinstance(last, ast.Return) or last.value is None:
        return None
    if isinstance(last.value, ast.Name) and last.value.id in inner:
        e = _subst_params(ast.Expression(body=copy.deepcopy(inner[last.value.id])), env).body
    else:
        e = _subst_params(ast.Expression(body=copy.deepcopy(last.value)), dict(env, **inner)).body
    return ast.Lambda(args=copy.deepcopy(h.args), body=e)


def _find_helper_site(tree, helpers, ref_funcs):
    for owner in ast.walk(tree):
        if not isinstance(owner, FuncDef):
            continue
        local_helpers = {}
        for n in ast.walk(owner):
            if isinstance(n, FuncDef) and n is not owner and getattr(n, '_is_new_nested', False):
                local_helpers[n.name] = n
        for node, fld, blk in blocks_of(owner):
            for stmt in blk:
                if isinstance(stmt, FuncDef + (ast.ClassDef,)):
                    continue
                roots = [stmt]
                compound = any(isinstance(getattr(stmt, f, None), list) and f in _BODY_FIELDS for f in stmt._fields)
                if compound:
                    continue
                calls = []
                for c in ast.walk(stmt):
                    if isinstance(c, ast.Call) and not getattr(c, '_no_inline', False):
                        h = None
                        kind = None
                        if isinstance(c.func, ast.Name) and ('mod', c.func.id) in helpers:
                            h, kind = helpers[('mod', c.func.id)], 'mod'
                        elif isinstance(c.func, ast.Name) and c.func.id in local_helpers:
                            h, kind = local_helpers[c.func.id], 'nested'
                        elif isinstance(c.func, ast.Attribute) and isinstance(c.func.value, ast.Name) and c.func.value.id == 'self' and ('meth', c.func.attr) in helpers:
                            h, kind = helpers[('meth', c.func.attr)], 'meth'
                        if h is not None and h is not owner:
                            calls.append((c, h, kind))
                if len(calls) != 1:
                    continue
                c, h, kind = calls[0]
                # not below a lambda / comprehension of the statement
                par = parents_of(stmt)
                p = par.get(c)
                bad = False
                while p is not None:
                    if isinstance(p, (ast.Lambda, ast.ListComp, ast.SetComp, ast.DictComp, ast.GeneratorExp)):
                        bad = True
                    p = par.get(p)
                if bad:
                    continue
                return blk, stmt, c, h, kind
    return None


_INLINE_SEQ = 0


def _inline_site(stmt, call, h, kind):
    params = [a.arg for a in h.args.posonlyargs + h.args.args]
    if h.args.vararg or h.args.kwarg or h.args.kwonlyargs:
        return None
    if kind == 'meth':
        if not params or params[0] != 'self':
            return None
        params = params[1:]
    if any(isinstance(a, ast.Starred) for a in call.args) or any(k.arg is None for k in call.keywords):
        return None
    mapping = {}
    for p_, a_ in zip(params, call.args):
        mapping[p_] = a_
    for k in call.keywords:
        if k.arg not in params or k.arg in mapping:
            return None
        mapping[k.arg] = k.value
    defaults = h.args.defaults
    for p_, d_ in zip(params[len(params) - len(defaults):], defaults):
        mapping.setdefault(p_, d_)
    if set(mapping) != set(params):
        return None
    body = [copy.deepcopy(x) for x in h.body]
    if body and isinstance(body[0], ast.Expr) and isinstance(body[0].value, ast.Constant) and isinstance(body[0].value.value, str):
        body = body[1:]
    if not body:
        return None
    # the helper must not rebind its parameters, define nested functions using them is fine
    for x in body:
        for n in ast.walk(x):
            if isinstance(n, ast.Name) and n.id in mapping and isinstance(n.ctx, (ast.Store, ast.Del)):
                return None
            if isinstance(n, (ast.Global, ast.Nonlocal, ast.Yield, ast.YieldFrom)):
                return None
    body = _tail_normalise(body)
    has_return = any(isinstance(n, ast.Return) and n.value is not None for x in body for n in ast.walk(x))
    if has_return:
        if not _returns_in_tail(body) or not _all_paths_end(body):
            return None
    else:
        if not (isinstance(stmt, ast.Expr) and stmt.value is call):
            return None
        if any(isinstance(n, ast.Return) for x in body for n in ast.walk(x)):
            return None
    # the helper's own locals get unique names at every inlining (no capture of the caller's names)
    global _INLINE_SEQ
    _INLINE_SEQ += 1
    # evaluation of the arguments: an argument is evaluated exactly once, before the body, in the order of the call.  An argument
    # expression is substituted textually only where that cannot be observed (a name / constant, or a pure expression read once);
    # otherwise it is bound to a fresh local first
    pre = []
    inside_call = {id(y) for y in ast.walk(call)}
    for c_ in ast.walk(stmt):
        if isinstance(c_, ast.Call) and id(c_) not in inside_call and not _is_pure(c_) and not any(call is y for y in ast.walk(c_)):
            return None      # another effectful call of the statement would be overtaken by the inlined body
    order = [p_ for p_, _ in zip(params, call.args)] + [k.arg for k in call.keywords]
    for p_ in order + [q_ for q_ in params if q_ not in order]:
        a_ = mapping[p_]
        uses = sum(1 for x in body for n in ast.walk(x) if isinstance(n, ast.Name) and n.id == p_ and isinstance(n.ctx, ast.Load))
        simple = isinstance(a_, (ast.Name, ast.Constant)) or (isinstance(a_, (ast.Attribute, ast.Subscript)) and _is_pure(a_, allow_calls=False))
        if simple or (uses == 1 and _is_pure(a_)) or (uses == 0 and _is_pure(a_)):
            continue
        tname = '%s_inl%d' % (p_, _INLINE_SEQ)
        pre.append(ast.Assign(targets=[ast.Name(id=tname, ctx=ast.Store())], value=copy.deepcopy(a_)))
        mapping[p_] = ast.Name(id=tname, ctx=ast.Load())
    wrapper = ast.Module(body=body, type_ignores=[])
    wrapper = _subst_params(wrapper, mapping)
    own = set()
    comp_bound = set()
    for n in ast.walk(wrapper):
        if isinstance(n, ast.comprehension):
            for y in ast.walk(n.target):
                if isinstance(y, ast.Name):
                    comp_bound.add(id(y))
    for n in ast.walk(wrapper):
        if isinstance(n, ast.Name) and isinstance(n.ctx, (ast.Store, ast.Del)) and id(n) not in comp_bound:
            own.add(n.id)
        elif isinstance(n, ast.ExceptHandler) and n.name:
            own.add(n.name)
    for n in ast.walk(wrapper):
        if isinstance(n, ast.Name) and n.id in own:
            n.id = '%s_inl%d' % (n.id, _INLINE_SEQ)
        elif isinstance(n, ast.ExceptHandler) and n.name in own:
            n.name = '%s_inl%d' % (n.name, _INLINE_SEQ)

    def conv(stmts):
        out = []
        for s in stmts:
            if isinstance(s, ast.Return):
                if s.value is None:
                    return None
                ctx_stmt = copy.deepcopy(stmt)
                # locate the call copy: same position by walk order
                orig = [n for n in ast.walk(stmt)]
                cp = [n for n in ast.walk(ctx_stmt)]
                target = cp[[i for i, n in enumerate(orig) if n is call][0]]
                if ctx_stmt is target:
                    return None
                if isinstance(ctx_stmt, ast.Expr) and ctx_stmt.value is target:
                    ctx_stmt = ast.Expr(value=s.value)
                else:
                    replace_node(ctx_stmt, target, s.value)
                out.append(fix(ctx_stmt, stmt))
            elif isinstance(s, ast.If):
                b, o = conv(s.body), conv(s.orelse)
                if b is None or o is None:
                    return None
                s.body, s.orelse = b, o
                out.append(s)
            elif isinstance(s, ast.Try):
                for fld in ('body', 'orelse', 'finalbody'):
                    r = conv(getattr(s, fld))
                    if r is None:
                        return None
                    setattr(s, fld, r)
                for hd in s.handlers:
                    r = conv(hd.body)
                    if r is None:
                        return None
                    hd.body = r
                out.append(s)
            else:
                out.append(s)
        return out
    new = conv(wrapper.body)
    if new is None:
        return None
    new = pre + new
    for s in new:
        fix(s, stmt)
        for n in ast.walk(s):
            if hasattr(n, 'lineno'):
                n.lineno = stmt.lineno
                n.end_lineno = getattr(stmt, 'end_lineno', stmt.lineno)
    return new


# ------------------------------------------------------------------------------------------------------- guided rewrites
# every rewrite: rw(func_copy, k) applies itself to its k-th site and returns True, or returns False when there is no k-th site

def _sites(func, pred):
    return [n for n in ast.walk(func) if pred(n)]


def rw_comp_to_loop(func, k):
    """L = [e for x in it (if c)]   ->   L = [] ; for x in it: (if c:) L.append(e)      (also `a if c else b` elements -> if/else)"""
    sites = []
    for owner, fld, blk in blocks_of(func):
        for s in blk:
            if isinstance(s, ast.Assign) and len(s.targets) == 1 and isinstance(s.value, ast.ListComp) and \
                    (isinstance(s.targets[0], ast.Name) or (isinstance(s.targets[0], (ast.Subscript, ast.Attribute)) and _is_pure(s.targets[0], allow_calls=False)
                                                             and not (_roots(s.targets[0]) & {y.id for y in ast.walk(s.value) if isinstance(y, ast.Name) and isinstance(y.ctx, ast.Store)}))):
                sites.append((blk, s))
    if k >= len(sites):
        return False
    blk, s = sites[k]
    comp = s.value
    tgt = s.targets[0]

    def load(t):
        t = copy.deepcopy(t)
        t.ctx = ast.Load()
        return t

    def app(e):
        return ast.Expr(value=ast.Call(func=ast.Attribute(value=load(tgt), attr='append', ctx=ast.Load()), args=[e], keywords=[]))
    if isinstance(comp.elt, ast.IfExp):
        inner = [ast.If(test=comp.elt.test, body=[app(comp.elt.body)], orelse=[app(comp.elt.orelse)])]
    else:
        inner = [app(comp.elt)]
    for g in reversed(comp.generators):
        for c in reversed(g.ifs):
            inner = [ast.If(test=c, body=inner, orelse=[])]
        inner = [ast.For(target=g.target, iter=g.iter, body=inner, orelse=[])]
    init = ast.Assign(targets=[copy.deepcopy(tgt)], value=ast.List(elts=[], ctx=ast.Load()))
    i = blk.index(s)
    blk[i:i + 1] = [fix(init, s), fix(inner[0], s)]
    return True


def _append_stmt(st):
    if isinstance(st, ast.Expr) and isinstance(st.value, ast.Call) and isinstance(st.value.func, ast.Attribute) and st.value.func.attr == 'append' and len(st.value.args) == 1 \
            and not st.value.keywords and _is_pure(st.value.func.value, allow_calls=False):
        return st.value.func.value, st.value.args[0]
    return None, None


def rw_append_comp_to_loop(func, k):
    """T.append([E for a in A])    ->    T.append([]) ; for a in A: T[-1].append(E)"""
    sites = []
    for owner, fld, blk in blocks_of(func):
        for st in blk:
            t, v = _append_stmt(st)
            if t is not None and isinstance(v, ast.ListComp) and len(v.generators) == 1 and not v.generators[0].ifs:
                sites.append((blk, st))
    if k >= len(sites):
        return False
    blk, st = sites[k]
    t, v = _append_stmt(st)
    g = v.generators[0]
    bound = {y.id for y in ast.walk(g.target) if isinstance(y, ast.Name)}
    par = parents_of(func)
    inside = {id(y) for y in ast.walk(v)}
    if not all(_free_loop_name(func, b_, inside, par) for b_ in bound) or (_roots(t) & bound):
        return True
    last = ast.Subscript(value=copy.deepcopy(t), slice=ast.UnaryOp(op=ast.USub(), operand=ast.Constant(value=1)), ctx=ast.Load())
    inner = ast.Expr(value=ast.Call(func=ast.Attribute(value=last, attr='append', ctx=ast.Load()), args=[v.elt], keywords=[]))
    loop = ast.For(target=g.target, iter=g.iter, body=[inner], orelse=[])
    for y in ast.walk(loop.target):
        if hasattr(y, 'ctx'):
            y.ctx = ast.Store()
    first = ast.Expr(value=ast.Call(func=ast.Attribute(value=copy.deepcopy(t), attr='append', ctx=ast.Load()), args=[ast.List(elts=[], ctx=ast.Load())], keywords=[]))
    i = blk.index(st)
    blk[i:i + 1] = [fix(first, st), fix(loop, st)]
    return True


def rw_split_append_concat(func, k):
    """T.append([a, ...] + B)    ->    T.append([a, ...]) ; T[-1] += B        (lists: extending in place gives the same list)"""
    sites = []
    for owner, fld, blk in blocks_of(func):
        for st in blk:
            t, v = _append_stmt(st)
            if t is not None and isinstance(v, ast.BinOp) and isinstance(v.op, ast.Add) and isinstance(v.left, ast.List):
                sites.append((blk, st))
    if k >= len(sites):
        return False
    blk, st = sites[k]
    t, v = _append_stmt(st)
    last = ast.Subscript(value=copy.deepcopy(t), slice=ast.UnaryOp(op=ast.USub(), operand=ast.Constant(value=1)), ctx=ast.Store())
    aug = ast.AugAssign(target=last, op=ast.Add(), value=v.right)
    st.value.args[0] = v.left
    blk.insert(blk.index(st) + 1, fix(aug, st))
    return True


def rw_enumerate_to_index(func, k):
    """for i, x in enumerate(S): B     ->    for i in range(len(S)): B[x := S[i]]       (S a name that B does not change)"""
    sites = [n for n in ast.walk(func) if isinstance(n, (ast.For, ast.comprehension)) and isinstance(n.iter, ast.Call) and isinstance(n.iter.func, ast.Name) and n.iter.func.id == 'enumerate'
             and len(n.iter.args) == 1 and not n.iter.keywords and isinstance(n.target, ast.Tuple) and len(n.target.elts) == 2 and all(isinstance(t, ast.Name) for t in n.target.elts)
             and _is_pure(n.iter.args[0], allow_calls=False) and isinstance(n.iter.args[0], (ast.Name, ast.Subscript, ast.Attribute))]
    if k >= len(sites):
        return False
    g = sites[k]
    par = parents_of(func)
    owner = par.get(g) if isinstance(g, ast.comprehension) else g
    iv, xv = g.target.elts[0].id, g.target.elts[1].id
    seq = g.iter.args[0]
    roots = _roots(seq)
    for y in ast.walk(owner):
        if any(y is z for z in ast.walk(g.target)):
            continue
        if isinstance(y, ast.Name) and isinstance(y.ctx, (ast.Store, ast.Del)) and (y.id in roots or y.id in (iv, xv)):
            return True
        if isinstance(y, ast.Call) and isinstance(y.func, ast.Attribute) and y.func.attr in MUTATORS and (_roots(y.func.value) & roots) and ast.unparse(y.func.value) == ast.unparse(seq):
            return True
    if isinstance(g, ast.For):
        inside = {id(y) for y in ast.walk(g)}
        if not _free_loop_name(func, xv, inside, par):
            return True
    for y in list(ast.walk(owner)):
        if isinstance(y, ast.Name) and y.id == xv and isinstance(y.ctx, ast.Load):
            replace_node(owner, y, fix(ast.Subscript(value=copy.deepcopy(seq), slice=ast.Name(id=iv, ctx=ast.Load()), ctx=ast.Load()), y))
    g.target = fix(ast.Name(id=iv, ctx=ast.Store()), g.target)
    g.iter = fix(ast.Call(func=ast.Name(id='range', ctx=ast.Load()), args=[ast.Call(func=ast.Name(id='len', ctx=ast.Load()), args=[copy.deepcopy(seq)], keywords=[])], keywords=[]), g.iter)
    return True


def _append_of(stmt, name):
    if isinstance(stmt, ast.Expr) and isinstance(stmt.value, ast.Call) and isinstance(stmt.value.func, ast.Attribute) and stmt.value.func.attr == 'append' \
            and isinstance(stmt.value.func.value, ast.Name) and stmt.value.func.value.id == name and len(stmt.value.args) == 1 and not stmt.value.keywords:
        return stmt.value.args[0]
    return None


def rw_loop_to_comp(func, k):
    """L = [] ; for x in it: L.append(e)   ->   L = [e for x in it]   (if / if-else / nested for variants)"""
    sites = []
    for owner, fld, blk in blocks_of(func):
        for i, s in enumerate(blk):
            if isinstance(s, ast.Assign) and len(s.targets) == 1 and isinstance(s.targets[0], ast.Name) and isinstance(s.value, ast.List) and not s.value.elts:
                name = s.targets[0].id
                for j in range(i + 1, len(blk)):
                    t = blk[j]
                    uses = any(isinstance(n, ast.Name) and n.id == name for n in ast.walk(t))
                    if isinstance(t, ast.For) and uses:
                        sites.append((blk, i, j, name))
                        break
                    if uses:
                        break
    if k >= len(sites):
        return False
    blk, i, j, name = sites[k]
    loop = blk[j]
    gens = []
    cur = loop
    elt = None
    while True:
        if cur.orelse or len(cur.body) != 1:
            return True     # site exists but is not convertible: leave unchanged (score will not improve)
        gens.append(ast.comprehension(target=cur.target, iter=cur.iter, ifs=[], is_async=0))
        b = cur.body[0]
        while isinstance(b, ast.If) and not b.orelse and len(b.body) == 1:
            gens[-1].ifs.append(b.test)
            b = b.body[0]
        if isinstance(b, ast.For):
            cur = b
            continue
        if isinstance(b, ast.If) and len(b.body) == 1 and len(b.orelse) == 1:
            x, y = _append_of(b.body[0], name), _append_of(b.orelse[0], name)
            if x is None or y is None:
                return True
            elt = ast.IfExp(test=b.test, body=x, orelse=y)
        else:
            elt = _append_of(b, name)
            if elt is None:
                return True
        break
    if any(isinstance(n, ast.Name) and n.id == name for g in gens for n in ast.walk(g)) or any(isinstance(n, ast.Name) and n.id == name for n in ast.walk(elt)):
        return True
    new = ast.Assign(targets=[ast.Name(id=name, ctx=ast.Store())], value=ast.ListComp(elt=elt, generators=gens))
    blk[j] = fix(new, loop)
    del blk[i]
    return True


def rw_not_compare(func, k):
    """not a == b  <->  a != b   (and in / is)"""
    sites = [n for n in ast.walk(func) if (isinstance(n, ast.UnaryOp) and isinstance(n.op, ast.Not) and isinstance(n.operand, ast.Compare) and len(n.operand.ops) == 1
                                           and isinstance(n.operand.ops[0], (ast.Eq, ast.NotEq, ast.In, ast.NotIn, ast.Is, ast.IsNot)))
             or (isinstance(n, ast.Compare) and len(n.ops) == 1 and isinstance(n.ops[0], (ast.NotEq, ast.NotIn, ast.IsNot)))]
    if k >= len(sites):
        return False
    n = sites[k]
    if isinstance(n, ast.UnaryOp):
        replace_node(func, n, fix(negate(n.operand), n))
    else:
        replace_node(func, n, fix(ast.UnaryOp(op=ast.Not(), operand=negate(n)), n))
    return True


def rw_demorgan(func, k):
    """not (A or B) <-> not A and not B ;  not (A and B) <-> not A or not B"""
    sites = [n for n in ast.walk(func) if (isinstance(n, ast.UnaryOp) and isinstance(n.op, ast.Not) and isinstance(n.operand, ast.BoolOp)) or isinstance(n, ast.BoolOp)]
    if k >= len(sites):
        return False
    n = sites[k]
    if isinstance(n, ast.UnaryOp):
        b = n.operand
        new = ast.BoolOp(op=ast.And() if isinstance(b.op, ast.Or) else ast.Or(), values=[negate(v) for v in b.values])
    else:
        new = ast.UnaryOp(op=ast.Not(), operand=ast.BoolOp(op=ast.And() if isinstance(n.op, ast.Or) else ast.Or(), values=[negate(v) for v in n.values]))
    replace_node(func, n, fix(new, n))
    return True


def rw_swap_branches(func, k):
    """if c: X else: Y   <->   if not c: Y else: X"""
    sites = [n for n in ast.walk(func) if isinstance(n, ast.If) and n.orelse]
    sites += [n for n in ast.walk(func) if isinstance(n, ast.IfExp)]
    if k >= len(sites):
        return False
    n = sites[k]
    n.test = fix(negate(n.test), n.test)
    n.body, n.orelse = n.orelse, n.body
    return True


def rw_merge_nested_if(func, k):
    """if A: if B: X   ->   if A and B: X"""
    sites = [n for n in ast.walk(func) if isinstance(n, ast.If) and not n.orelse and len(n.body) == 1 and isinstance(n.body[0], ast.If) and not n.body[0].orelse]
    if k >= len(sites):
        return False
    n = sites[k]
    inner = n.body[0]
    a = n.test.values if isinstance(n.test, ast.BoolOp) and isinstance(n.test.op, ast.And) else [n.test]
    b = inner.test.values if isinstance(inner.test, ast.BoolOp) and isinstance(inner.test.op, ast.And) else [inner.test]
    n.test = fix(ast.BoolOp(op=ast.And(), values=list(a) + list(b)), n.test)
    n.body = inner.body
    return True


def rw_split_and_if(func, k):
    """if A and B: X   ->   if A: if B: X      (no else)"""
    sites = [n for n in ast.walk(func) if isinstance(n, ast.If) and not n.orelse and isinstance(n.test, ast.BoolOp) and isinstance(n.test.op, ast.And)]
    # one site per split position
    flat = [(n, i) for n in sites for i in range(1, len(n.test.values))]
    if k >= len(flat):
        return False
    n, i = flat[k]
    vals = n.test.values
    first = vals[0] if i == 1 else ast.BoolOp(op=ast.And(), values=vals[:i])
    rest = vals[i] if len(vals) - i == 1 else ast.BoolOp(op=ast.And(), values=vals[i:])
    inner = ast.If(test=rest, body=n.body, orelse=[])
    n.test = fix(first, n.test)
    n.body = [fix(inner, n)]
    return True


def rw_else_after_exit_wrap(func, k):
    """if c: ...exit ; rest   ->   if c: ...exit else: rest"""
    sites = []
    for owner, fld, blk in blocks_of(func):
        for i, s in enumerate(blk):
            if isinstance(s, ast.If) and always_exits(s.body) and i + 1 < len(blk):
                # the last If of an elif chain receives the else
                tail = s
                while len(tail.orelse) == 1 and isinstance(tail.orelse[0], ast.If) and always_exits(tail.orelse[0].body):
                    tail = tail.orelse[0]
                if not tail.orelse:
                    sites.append((blk, i, tail))
    if k >= len(sites):
        return False
    blk, i, tail = sites[k]
    tail.orelse = blk[i + 1:]
    del blk[i + 1:]
    return True


def rw_else_after_exit_unwrap(func, k):
    """if c: ...exit else: rest   ->   if c: ...exit ; rest"""
    sites = []
    for owner, fld, blk in blocks_of(func):
        for i, s in enumerate(blk):
            if isinstance(s, ast.If) and i == len(blk) - 1:
                tail = s
                chain_ok = always_exits(tail.body)
                while chain_ok and len(tail.orelse) == 1 and isinstance(tail.orelse[0], ast.If):
                    tail = tail.orelse[0]
                    chain_ok = always_exits(tail.body)
                if chain_ok and tail.orelse:
                    sites.append((blk, tail))
    if k >= len(sites):
        return False
    blk, tail = sites[k]
    blk.extend(tail.orelse)
    tail.orelse = []
    return True


def rw_split_elif_after_exit(func, k):
    """if c: ...exit  elif d: B ...     ->     if c: ...exit ;  if d: B ...        (any position in the block)"""
    sites = []
    for owner, fld, blk in blocks_of(func):
        for i, s in enumerate(blk):
            if isinstance(s, ast.If) and always_exits(s.body) and len(s.orelse) == 1 and isinstance(s.orelse[0], ast.If):
                sites.append((blk, i))
    if k >= len(sites):
        return False
    blk, i = sites[k]
    s = blk[i]
    nxt = s.orelse[0]
    s.orelse = []
    blk.insert(i + 1, nxt)
    return True


def rw_join_elif_after_exit(func, k):
    """if c: ...exit ;  if d: B ...     ->     if c: ...exit  elif d: B ..."""
    sites = []
    for owner, fld, blk in blocks_of(func):
        for i in range(len(blk) - 1):
            s = blk[i]
            if isinstance(s, ast.If) and isinstance(blk[i + 1], ast.If):
                tail = s
                ok = always_exits(tail.body)
                while ok and len(tail.orelse) == 1 and isinstance(tail.orelse[0], ast.If):
                    tail = tail.orelse[0]
                    ok = always_exits(tail.body)
                if ok and not tail.orelse:
                    sites.append((blk, i, tail))
    if k >= len(sites):
        return False
    blk, i, tail = sites[k]
    tail.orelse = [blk.pop(i + 1)]
    return True


def rw_fuse_nested_comp(func, k):
    """[E(o) for o in [F(y) for y in S if c]]    ->    [E(F(y)) for y in S if c]        (F pure: it may now be evaluated once per use of o)"""
    sites = [n for n in ast.walk(func) if isinstance(n, (ast.ListComp, ast.GeneratorExp, ast.SetComp)) and len(n.generators) == 1 and not n.generators[0].ifs
             and isinstance(n.generators[0].target, ast.Name) and isinstance(n.generators[0].iter, (ast.ListComp, ast.GeneratorExp)) and len(n.generators[0].iter.generators) == 1
             and _is_pure(n.generators[0].iter.elt)]
    if k >= len(sites):
        return False
    n = sites[k]
    inner = n.generators[0].iter
    o = n.generators[0].target.id
    bound_inner = {y.id for y in ast.walk(inner.generators[0].target) if isinstance(y, ast.Name)}
    if any(isinstance(y, ast.Name) and y.id in bound_inner for y in ast.walk(n.elt)):
        return True
    holder = ast.Expression(body=n.elt)
    for y in list(ast.walk(holder)):
        if isinstance(y, ast.Name) and y.id == o and isinstance(y.ctx, ast.Load):
            replace_node(holder, y, copy.deepcopy(inner.elt))
    n.elt = holder.body
    n.generators = inner.generators
    return True


def rw_ifexp_to_if(func, k):
    """x = a if c else b  ->  if c: x = a else: x = b      ;   return a if c else b  ->  if c: return a else: return b"""
    sites = []
    for owner, fld, blk in blocks_of(func):
        for s in blk:
            if isinstance(s, (ast.Assign, ast.Return, ast.AugAssign)) and isinstance(s.value, ast.IfExp):
                sites.append((blk, s))
    if k >= len(sites):
        return False
    blk, s = sites[k]
    a, b = copy.deepcopy(s), copy.deepcopy(s)
    a.value, b.value = s.value.body, s.value.orelse
    new = ast.If(test=s.value.test, body=[a], orelse=[b])
    blk[blk.index(s)] = fix(new, s)
    return True


def rw_if_to_ifexp(func, k):
    """if c: x = a else: x = b  ->  x = a if c else b     (same for return / augmented assignment)"""
    sites = []
    for owner, fld, blk in blocks_of(func):
        for s in blk:
            if isinstance(s, ast.If) and len(s.body) == 1 and len(s.orelse) == 1 and type(s.body[0]) is type(s.orelse[0]) and isinstance(s.body[0], (ast.Assign, ast.Return, ast.AugAssign)):
                x, y = s.body[0], s.orelse[0]
                if isinstance(x, ast.Assign) and ast.dump(x.targets[0]) != ast.dump(y.targets[0]):
                    continue
                if isinstance(x, ast.AugAssign) and (ast.dump(x.target) != ast.dump(y.target) or type(x.op) is not type(y.op)):
                    continue
                if x.value is None or y.value is None:
                    continue
                sites.append((blk, s))
    if k >= len(sites):
        return False
    blk, s = sites[k]
    x, y = s.body[0], s.orelse[0]
    new = copy.deepcopy(x)
    new.value = ast.IfExp(test=s.test, body=x.value, orelse=y.value)
    blk[blk.index(s)] = fix(new, s)
    return True


def rw_bool_to_if(func, k):
    """x = <test>   ->   if <test>: x = True else: x = False      (for comparison / isinstance / not valued right-hand sides)"""
    sites = []
    for owner, fld, blk in blocks_of(func):
        for s in blk:
            if isinstance(s, ast.Assign) and len(s.targets) == 1 and (isinstance(s.value, (ast.Compare, ast.BoolOp)) or (isinstance(s.value, ast.UnaryOp) and isinstance(s.value.op, ast.Not))
                                                                     or (isinstance(s.value, ast.Call) and isinstance(s.value.func, ast.Name) and s.value.func.id == 'isinstance')):
                if isinstance(s.value, ast.BoolOp) and not all(isinstance(v, (ast.Compare, ast.UnaryOp)) for v in s.value.values):
                    continue
                sites.append((blk, s))
    flat = [(b, s, pol) for b, s in sites for pol in (True, False)]
    if k >= len(flat):
        return False
    blk, s, pol = flat[k]
    a, b = copy.deepcopy(s), copy.deepcopy(s)
    a.value, b.value = ast.Constant(value=pol), ast.Constant(value=not pol)
    test = s.value if pol else negate(s.value)
    new = ast.If(test=test, body=[a], orelse=[b])
    blk[blk.index(s)] = fix(new, s)
    return True


def rw_kwargs_default(func, k):
    """x = d.get(key, default)   ->   if key in d: x = d.get(key) else: x = default"""
    sites = []
    for owner, fld, blk in blocks_of(func):
        for s in blk:
            if isinstance(s, ast.Assign) and len(s.targets) == 1 and isinstance(s.value, ast.Call) and isinstance(s.value.func, ast.Attribute) and s.value.func.attr == 'get' \
                    and len(s.value.args) == 2 and not s.value.keywords:
                sites.append((blk, s))
    flat = [(b, s, v) for b, s in sites for v in (0, 1)]
    if k >= len(flat):
        return False
    blk, s, variant = flat[k]
    d, key, default = s.value.func.value, s.value.args[0], s.value.args[1]
    a, b = copy.deepcopy(s), copy.deepcopy(s)
    a.value = ast.Call(func=ast.Attribute(value=copy.deepcopy(d), attr='get', ctx=ast.Load()), args=[copy.deepcopy(key)], keywords=[])
    b.value = copy.deepcopy(default)
    test = ast.Compare(left=copy.deepcopy(key), ops=[ast.In()], comparators=[copy.deepcopy(d)])
    if variant == 0:
        new = [ast.If(test=test, body=[a], orelse=[b])]
    else:
        # default first, then the conditional overwrite
        new = [b, ast.If(test=test, body=[a], orelse=[])]
    i = blk.index(s)
    blk[i:i + 1] = [fix(x, s) for x in new]
    return True


def rw_trailing_return(func, k):
    """add the bare `return` that ends the function in the reference"""
    if k > 0 or not isinstance(func, FuncDef) or not getattr(func, '_is_tail', True):
        return False
    if func.body and isinstance(func.body[-1], ast.Return):
        return False
    func.body.append(fix(ast.Return(value=None), func.body[-1]))
    return True


def rw_enumerate(func, k):
    """for x in it   ->   for _i, x in enumerate(it)      (an index the body does not use)"""
    sites = [n for n in ast.walk(func) if isinstance(n, (ast.For, ast.comprehension)) and isinstance(n.target, ast.Name)
             and not (isinstance(n.iter, ast.Call) and isinstance(n.iter.func, ast.Name) and n.iter.func.id in ('enumerate', 'range', 'zip'))]
    if k >= len(sites):
        return False
    n = sites[k]
    n.iter = fix(ast.Call(func=ast.Name(id='enumerate', ctx=ast.Load()), args=[n.iter], keywords=[]), n.iter)
    n.target = fix(ast.Tuple(elts=[ast.Name(id='_idx_unused', ctx=ast.Store()), n.target], ctx=ast.Store()), n.target)
    return True


def rw_guard_to_swapped_else(func, k):
    """if c: ...exit ; rest   ->   if not c: rest else: ...exit"""
    sites = []
    for owner, fld, blk in blocks_of(func):
        for i, s in enumerate(blk):
            if isinstance(s, ast.If) and not s.orelse and always_exits(s.body) and i + 1 < len(blk):
                sites.append((blk, i))
    if k >= len(sites):
        return False
    blk, i = sites[k]
    s = blk[i]
    rest = blk[i + 1:]
    new = ast.If(test=fix(negate(s.test), s.test), body=rest, orelse=s.body)
    blk[i:] = [fix(new, s)]
    return True


def rw_swapped_else_to_guard(func, k):
    """if c: rest else: ...exit   ->   if not c: ...exit ; rest"""
    sites = []
    for owner, fld, blk in blocks_of(func):
        for i, s in enumerate(blk):
            if isinstance(s, ast.If) and s.orelse and always_exits(s.orelse) and not always_exits(s.body) and i == len(blk) - 1 \
                    and not (len(s.orelse) == 1 and isinstance(s.orelse[0], ast.If)):
                sites.append((blk, i))
    if k >= len(sites):
        return False
    blk, i = sites[k]
    s = blk[i]
    new = ast.If(test=fix(negate(s.test), s.test), body=s.orelse, orelse=[])
    blk[i:i + 1] = [fix(new, s)] + s.body
    return True


def rw_drop_tail_return(func, k):
    """a bare `return` that ends a branch in tail position of the function is redundant"""
    sites = []

    def tail(stmts):
        if not stmts:
            return
        last = stmts[-1]
        if isinstance(last, ast.Return) and last.value is None and len(stmts) > 1:
            sites.append(stmts)
        elif isinstance(last, ast.If):
            tail(last.body)
            tail(last.orelse)
    if isinstance(func, FuncDef) and getattr(func, '_is_tail', True):
        tail(func.body)
    for g in ast.walk(func):
        if isinstance(g, FuncDef) and g is not func:
            tail(g.body)
    if k >= len(sites):
        return False
    sites[k].pop()
    return True


def rw_drop_noop_pass(func, k):
    """a `pass` next to other statements does nothing"""
    sites = []
    for owner, fld, blk in blocks_of(func):
        if len(blk) > 1:
            for st in blk:
                if isinstance(st, ast.Pass):
                    sites.append((blk, st))
    if k >= len(sites):
        return False
    sites[k][0].remove(sites[k][1])
    return True


def rw_add_tail_return(func, k):
    """inverse of the above for the branches of the last statement"""
    sites = []

    def tail(stmts):
        if not stmts:
            return
        last = stmts[-1]
        if isinstance(last, ast.If):
            tail(last.body)
            tail(last.orelse)
        elif not isinstance(last, (ast.Return, ast.Raise)):
            sites.append(stmts)
    if isinstance(func, FuncDef) and getattr(func, '_is_tail', True) and func.body and isinstance(func.body[-1], ast.If):
        tail(func.body[-1].body)
        tail(func.body[-1].orelse)
    for g in ast.walk(func):
        if isinstance(g, FuncDef) and g is not func and g.body and isinstance(g.body[-1], ast.If):
            tail(g.body[-1].body)
            tail(g.body[-1].orelse)
    if k >= len(sites):
        return False
    sites[k].append(fix(ast.Return(value=None), sites[k][-1]))
    return True


def rw_element_to_index_loop(func, k):
    """[... e ... for e in X]   ->   [... X[i] ... for i in range(len(X))]      (comprehensions and for statements)"""
    sites = [n for n in ast.walk(func) if isinstance(n, (ast.For, ast.comprehension)) and isinstance(n.target, ast.Name) and isinstance(n.iter, (ast.Name, ast.Attribute, ast.Subscript))]
    if k >= len(sites):
        return False
    g = sites[k]
    par = parents_of(func)
    owner = par.get(g) if isinstance(g, ast.comprehension) else g
    name = g.target.id
    it = g.iter
    idx = '_idx_loop%d' % (len({n.id for n in ast.walk(func) if isinstance(n, ast.Name) and n.id.startswith('_idx_loop')} | {n.id for st_ in getattr(Ctx, 'window_outside', []) for n in ast.walk(st_) if isinstance(n, ast.Name) and n.id.startswith('_idx_loop')}) + 1)
    for n in list(ast.walk(owner)):
        if isinstance(n, ast.Name) and n.id == name and isinstance(n.ctx, ast.Load):
            replace_node(owner, n, fix(ast.Subscript(value=copy.deepcopy(it), slice=ast.Name(id=idx, ctx=ast.Load()), ctx=ast.Load()), n))
    g.target = fix(ast.Name(id=idx, ctx=ast.Store()), g.target)
    g.iter = fix(ast.Call(func=ast.Name(id='range', ctx=ast.Load()), args=[ast.Call(func=ast.Name(id='len', ctx=ast.Load()), args=[copy.deepcopy(it)], keywords=[])], keywords=[]), it)
    return True


def rw_fuse_loops(func, k):
    """for A: X ; (inits) ; for A: Y   ->   (inits) ; for A: X ; Y       (identical headers, adjacent up to list initialisations)"""
    sites = []
    for owner, fld, blk in blocks_of(func):
        for i, s in enumerate(blk):
            if not isinstance(s, ast.For) or s.orelse:
                continue
            j = i + 1
            while j < len(blk) and isinstance(blk[j], ast.Assign) and isinstance(blk[j].value, (ast.List, ast.Dict, ast.Constant)) and not getattr(blk[j].value, 'elts', None):
                j += 1
            if j < len(blk) and isinstance(blk[j], ast.For) and not blk[j].orelse and ast.dump(blk[j].iter) == ast.dump(s.iter) and \
                    (ast.dump(blk[j].target) == ast.dump(s.target) or (isinstance(blk[j].target, ast.Name) and isinstance(s.target, ast.Name))):
                sites.append((blk, i, j))
    if k >= len(sites):
        return False
    blk, i, j = sites[k]
    a, b = blk[i], blk[j]
    inits = blk[i + 1:j]
    # the second body must not read what the first one writes through names other than its own accumulators: keep it simple -
    # the initialised names of `inits` must not occur in the first loop
    init_names = {t.id for x in inits for t in x.targets if isinstance(t, ast.Name)}
    if any(isinstance(n, ast.Name) and n.id in init_names for n in ast.walk(a)):
        return True

    def written(body):
        out = set()
        for st in body:
            for n in ast.walk(st):
                if isinstance(n, ast.Name) and isinstance(n.ctx, (ast.Store, ast.Del)):
                    out.add(n.id)
                elif isinstance(n, (ast.Subscript, ast.Attribute)) and isinstance(n.ctx, (ast.Store, ast.Del)):
                    out |= _roots(n.value)
                elif isinstance(n, ast.Call) and isinstance(n.func, ast.Attribute) and n.func.attr in MUTATORS:
                    out |= _roots(n.func.value)
                elif isinstance(n, ast.Call) and not _is_pure(n):
                    out.add('<call>')
        return out

    def mentioned(body):
        return {n.id for st in body for n in ast.walk(st) if isinstance(n, ast.Name)}
    # the iterations of the two loops are interleaved by the fusion: neither body may touch what the other one writes
    w1, w2 = written(a.body), written(b.body)
    lv = {y.id for y in ast.walk(a.target) if isinstance(y, ast.Name)} | {y.id for y in ast.walk(b.target) if isinstance(y, ast.Name)}
    if ((w1 - lv) & mentioned(b.body)) or ((w2 - lv) & mentioned(a.body)) or (w1 & lv) or (w2 & lv):
        return True
    if '<call>' in w1 and '<call>' in w2:
        return True
    if any(isinstance(n, (ast.Break, ast.Return)) for st in a.body + b.body for n in ast.walk(st)):
        return True
    if ast.dump(a.target) != ast.dump(b.target):
        va, vb = a.target.id, b.target.id
        if va in mentioned(b.body):
            return True
        par = parents_of(func)
        if not _free_loop_name(func, vb, {id(y) for y in ast.walk(b)}, par):
            return True
        for st in b.body:
            for n in ast.walk(st):
                if isinstance(n, ast.Name) and n.id == vb:
                    n.id = va
    a.body = a.body + b.body
    blk[i:j + 1] = inits + [a]
    return True


def rw_late_publication(func, k):
    """t = Ctor(...) ; t.x = ... ; S = t      ->      S = Ctor(...) ; S.x = ...        (t only used as attribute base in between)"""
    sites = []
    for owner, fld, blk in blocks_of(func):
        for j, s in enumerate(blk):
            if isinstance(s, ast.Assign) and len(s.targets) == 1 and isinstance(s.value, ast.Name) and isinstance(s.targets[0], (ast.Subscript, ast.Attribute)):
                t = s.value.id
                for i in range(j - 1, -1, -1):
                    d = blk[i]
                    if isinstance(d, ast.Assign) and len(d.targets) == 1 and isinstance(d.targets[0], ast.Name) and d.targets[0].id == t:
                        sites.append((blk, i, j, t))
                        break
    if k >= len(sites):
        return False
    blk, i, j, t = sites[k]
    slot = blk[j].targets[0]
    slot_names = {n.id for n in ast.walk(slot) if isinstance(n, ast.Name)}
    for st in blk[i + 1:j]:
        for n in ast.walk(st):
            if isinstance(n, ast.Name) and n.id in slot_names and isinstance(n.ctx, (ast.Store, ast.Del)):
                return True
    uses_elsewhere = [n for n in ast.walk(func) if isinstance(n, ast.Name) and n.id == t and not (blk[i].lineno <= getattr(n, 'lineno', 0) <= blk[j].lineno)]
    if uses_elsewhere:
        return True
    for st in blk[i + 1:j]:
        for n in list(ast.walk(st)):
            if isinstance(n, ast.Name) and n.id == t:
                new = copy.deepcopy(slot)
                for y in ast.walk(new):
                    if hasattr(y, 'ctx'):
                        y.ctx = ast.Load()
                replace_node(st, n, fix(new, n))
    blk[i].targets = [copy.deepcopy(slot)]
    del blk[j]
    return True


def rw_drop_tail_continue(func, k):
    """a `continue` that ends a branch in tail position of a loop body is redundant"""
    sites = []

    def tail(stmts):
        if not stmts:
            return
        last = stmts[-1]
        if isinstance(last, ast.Continue) and len(stmts) > 1:
            sites.append(stmts)
        elif isinstance(last, ast.If):
            tail(last.body)
            tail(last.orelse)
    for n in ast.walk(func):
        if isinstance(n, (ast.For, ast.While)):
            tail(n.body)
    if k >= len(sites):
        return False
    sites[k].pop()
    return True


def rw_tail_pass_to_continue(func, k):
    """a branch consisting of `pass` in tail position of a loop body   ->   `continue`"""
    sites = []

    def tail(stmts):
        if not stmts:
            return
        last = stmts[-1]
        if isinstance(last, ast.Pass) and len(stmts) == 1:
            sites.append(stmts)
        elif isinstance(last, ast.If):
            tail(last.body)
            tail(last.orelse)
    for n in ast.walk(func):
        if isinstance(n, (ast.For, ast.While)):
            tail(n.body)
    if k >= len(sites):
        return False
    sites[k][0] = fix(ast.Continue(), sites[k][0])
    return True


def rw_split_or_exit(func, k):
    """if A or B: EXIT   ->   if A: EXIT ; if B: EXIT        (EXIT a single continue / break / return / raise)"""
    sites = []
    for owner, fld, blk in blocks_of(func):
        for st in blk:
            if isinstance(st, ast.If) and not st.orelse and len(st.body) == 1 and isinstance(st.body[0], (ast.Continue, ast.Break, ast.Return, ast.Raise)) \
                    and isinstance(st.test, ast.BoolOp) and isinstance(st.test.op, ast.Or):
                sites.append((blk, st))
    if k >= len(sites):
        return False
    blk, st = sites[k]
    out = [fix(ast.If(test=v, body=[copy.deepcopy(st.body[0])], orelse=[]), st) for v in st.test.values]
    i = blk.index(st)
    blk[i:i + 1] = out
    return True


def rw_merge_exit_ifs(func, k):
    """if A: EXIT ; if B: EXIT   ->   if A or B: EXIT"""
    sites = []
    for owner, fld, blk in blocks_of(func):
        for i in range(len(blk) - 1):
            a, b = blk[i], blk[i + 1]
            if all(isinstance(x, ast.If) and not x.orelse and len(x.body) == 1 and isinstance(x.body[0], (ast.Continue, ast.Break, ast.Return, ast.Raise)) for x in (a, b)) \
                    and ast.dump(a.body[0]) == ast.dump(b.body[0]):
                sites.append((blk, i))
    if k >= len(sites):
        return False
    blk, i = sites[k]
    a, b = blk[i], blk[i + 1]
    vals = (a.test.values if isinstance(a.test, ast.BoolOp) and isinstance(a.test.op, ast.Or) else [a.test]) + (b.test.values if isinstance(b.test, ast.BoolOp) and isinstance(b.test.op, ast.Or) else [b.test])
    blk[i:i + 2] = [fix(ast.If(test=ast.BoolOp(op=ast.Or(), values=vals), body=a.body, orelse=[]), a)]
    return True


def rw_extend_to_loop(func, k):
    """X.extend(S)   ->   for v in S: X.append(v)"""
    sites = []
    for owner, fld, blk in blocks_of(func):
        for st in blk:
            if isinstance(st, ast.Expr) and isinstance(st.value, ast.Call) and isinstance(st.value.func, ast.Attribute) and st.value.func.attr == 'extend' and len(st.value.args) == 1 \
                    and not st.value.keywords and isinstance(st.value.args[0], (ast.Name, ast.Attribute, ast.Subscript)) and ast.unparse(st.value.args[0]) != ast.unparse(st.value.func.value) \
                    and _is_pure(st.value.func.value):
                sites.append((blk, st))
    if k >= len(sites):
        return False
    blk, st = sites[k]
    v = '_ext_v%d' % (st.lineno,)
    app = ast.Expr(value=ast.Call(func=ast.Attribute(value=st.value.func.value, attr='append', ctx=ast.Load()), args=[ast.Name(id=v, ctx=ast.Load())], keywords=[]))
    loop = ast.For(target=ast.Name(id=v, ctx=ast.Store()), iter=st.value.args[0], body=[app], orelse=[])
    blk[blk.index(st)] = fix(loop, st)
    return True


def rw_comp_over_collected(func, k):
    """L = [] ; for x in S: ... L.append(x) ...  ;  A = [E(y) for y in L]
         ->    A = [] ; L = [] ; for x in S: ... A.append(E(x)) ; L.append(x) ...
    (L holds exactly the x of the iterations that reach the append, in order; E is pure and the loop only appends)"""
    sites = []
    for owner, fld, blk in blocks_of(func):
        for i, st in enumerate(blk):
            if not (isinstance(st, ast.Assign) and len(st.targets) == 1 and isinstance(st.targets[0], ast.Name) and isinstance(st.value, ast.ListComp) and len(st.value.generators) == 1):
                continue
            g = st.value.generators[0]
            if g.ifs or not isinstance(g.iter, ast.Name) or not isinstance(g.target, ast.Name) or not _is_pure(st.value.elt):
                continue
            L = g.iter.id
            # the collecting loop: the closest preceding For, only separated by other comprehensions over L
            j = i - 1
            while j >= 0 and isinstance(blk[j], ast.Assign) and isinstance(blk[j].value, ast.ListComp):
                j -= 1
            if j < 1 or not isinstance(blk[j], ast.For) or blk[j].orelse:
                continue
            loop = blk[j]
            apps = [c for c in ast.walk(loop) if isinstance(c, ast.Call) and isinstance(c.func, ast.Attribute) and c.func.attr == 'append' and isinstance(c.func.value, ast.Name) and c.func.value.id == L]
            if len(apps) != 1 or not (isinstance(apps[0].args[0], ast.Name) or _is_pure(apps[0].args[0], allow_calls=False)):
                continue
            # the loop body only tests and appends to plain names (nothing E could read is changed)
            okb = True
            for n in ast.walk(loop):
                if isinstance(n, ast.stmt) and n is not loop and not isinstance(n, (ast.If, ast.Expr, ast.Continue, ast.Pass)):
                    okb = False
                if isinstance(n, ast.Expr) and not (isinstance(n.value, ast.Call) and isinstance(n.value.func, ast.Attribute) and n.value.func.attr == 'append' and isinstance(n.value.func.value, ast.Name)):
                    okb = False
            if not okb or any(isinstance(n, (ast.Break, ast.Return)) for n in ast.walk(loop)):
                continue
            init = [q for q in range(j) if isinstance(blk[q], ast.Assign) and len(blk[q].targets) == 1 and isinstance(blk[q].targets[0], ast.Name) and blk[q].targets[0].id == L
                    and isinstance(blk[q].value, ast.List) and not blk[q].value.elts]
            if not init:
                continue
            q = init[-1]
            # L is not touched between its initialisation and the loop, A and the roots of E are not used there either
            A = st.targets[0].id
            mid = blk[q + 1:j]
            if any(isinstance(n, ast.Name) and n.id in (L, A) for m_ in mid for n in ast.walk(m_)):
                continue
            if any(isinstance(n, ast.Name) and n.id == A for n in ast.walk(loop)) or any(isinstance(n, ast.Name) and n.id == A for m_ in blk[j + 1:i] for n in ast.walk(m_)):
                continue
            appended = {c.func.value.id for c in ast.walk(loop) if isinstance(c, ast.Call) and isinstance(c.func, ast.Attribute) and c.func.attr == 'append' and isinstance(c.func.value, ast.Name)}
            if _roots(st.value.elt) & (appended | {loop.target.id if isinstance(loop.target, ast.Name) else ''}) - {g.target.id}:
                continue
            for pos in ('before', 'after'):
                for ipos in ('before', 'after'):
                    sites.append((blk, i, j, q, apps[0], pos, ipos))
    if k >= len(sites):
        return False
    blk, i, j, q, app, pos, ipos = sites[k]
    st, loop = blk[i], blk[j]
    g = st.value.generators[0]
    holder_e = ast.Expression(body=copy.deepcopy(st.value.elt))
    for n in list(ast.walk(holder_e)):
        if isinstance(n, ast.Name) and n.id == g.target.id and isinstance(n.ctx, ast.Load):
            replace_node(holder_e, n, copy.deepcopy(app.args[0]))
    elt = holder_e.body
    par = parents_of(loop)
    holder = par.get(app)          # the Expr statement
    hb = None
    for owner, fld, b2 in blocks_of(loop):
        if any(h is holder for h in b2):
            hb = b2
    if hb is None:
        return True
    def _app(e_):
        return ast.Expr(value=ast.Call(func=ast.Attribute(value=ast.Name(id=st.targets[0].id, ctx=ast.Load()), attr='append', ctx=ast.Load()), args=[e_], keywords=[]))
    if isinstance(elt, ast.IfExp) and pos == 'before':
        new_app = fix(ast.If(test=elt.test, body=[_app(elt.body)], orelse=[_app(elt.orelse)]), holder)
    else:
        new_app = fix(_app(elt), holder)
    at = next(n_ for n_, h in enumerate(hb) if h is holder)
    hb.insert(at if pos == 'before' else at + 1, new_app)
    init = fix(ast.Assign(targets=[ast.Name(id=st.targets[0].id, ctx=ast.Store())], value=ast.List(elts=[], ctx=ast.Load())), blk[q])
    del blk[i]
    blk.insert(q if ipos == 'before' else q + 1, init)
    return True


def _static_len(func, e, depth=0):
    """number of elements of a sequence expression when the source fixes it, as an expression: a constant (literal, range(c)) or
    len(<name>) for a name that is never rebound or resized; comprehensions without filter, np.array(...) and zip of equally long
    sequences inherit the length of what they run over"""
    if depth > 10:
        return None
    if isinstance(e, (ast.List, ast.Tuple)) and not any(isinstance(x, ast.Starred) for x in e.elts):
        return ast.Constant(value=len(e.elts))
    if isinstance(e, ast.Call) and isinstance(e.func, ast.Name) and e.func.id == 'range' and len(e.args) == 1 and isinstance(e.args[0], ast.Constant) and isinstance(e.args[0].value, int):
        return ast.Constant(value=max(0, e.args[0].value))
    if isinstance(e, ast.Call) and isinstance(e.func, ast.Name) and e.func.id == 'range' and len(e.args) == 1 and isinstance(e.args[0], ast.Call) and isinstance(e.args[0].func, ast.Name) \
            and e.args[0].func.id == 'len' and len(e.args[0].args) == 1:
        return _static_len(func, e.args[0].args[0], depth + 1)
    if isinstance(e, ast.ListComp) and len(e.generators) == 1 and not e.generators[0].ifs:
        return _static_len(func, e.generators[0].iter, depth + 1)
    if isinstance(e, ast.Call) and ast.unparse(e.func) in ('np.array', 'np.asarray', 'list', 'tuple', 'anp.array') and len(e.args) >= 1:
        return _static_len(func, e.args[0], depth + 1)
    if isinstance(e, ast.Call) and isinstance(e.func, ast.Name) and e.func.id == 'zip' and e.args:
        ls = [_static_len(func, a, depth + 1) for a in e.args]
        if None in ls or len({ast.dump(x) for x in ls}) != 1:
            return None
        return ls[0]
    if isinstance(e, ast.Name):
        whole = getattr(Ctx, 'whole_func', None)
        if whole is not None and getattr(whole, 'name', None) == getattr(func, 'name', None):
            func = whole
        if any(isinstance(c, ast.Call) and isinstance(c.func, ast.Attribute) and c.func.attr in MUTATORS and ast.unparse(c.func.value) == e.id for c in ast.walk(func)):
            return None
        if any(isinstance(n, (ast.AugAssign, ast.Delete)) and any(isinstance(y, ast.Name) and y.id == e.id for y in ast.walk(n.target if isinstance(n, ast.AugAssign) else ast.Tuple(elts=n.targets))) for n in ast.walk(func)):
            return None
        defs = [n for n in ast.walk(func) if isinstance(n, ast.Name) and n.id == e.id and isinstance(n.ctx, (ast.Store, ast.Del))]
        if not defs:
            # a parameter (or outer name) that is never rebound: its length is whatever it is, but it is one length
            return ast.Call(func=ast.Name(id='len', ctx=ast.Load()), args=[ast.Name(id=e.id, ctx=ast.Load())], keywords=[])
        if len(defs) != 1:
            return None
        for st in ast.walk(func):
            if isinstance(st, ast.Assign) and len(st.targets) == 1 and st.targets[0] is defs[0]:
                r = _static_len(func, st.value, depth + 1)
                if r is None and isinstance(st.value, (ast.ListComp, ast.Call, ast.List)):
                    return None
                return r
    return None


def rw_zip_to_index(func, k):
    """for a, b in zip(X, Y): B      ->     for i in range(N): B[a := X[i], b := Y[i]]      (X, Y names whose length N is fixed by
    the source and equal; a, b only read)"""
    sites = []
    _par = parents_of(func)
    for n in ast.walk(func):
        if isinstance(n, (ast.For, ast.comprehension)) and isinstance(n.iter, ast.Call) and isinstance(n.iter.func, ast.Name) and n.iter.func.id == 'zip' and len(n.iter.args) >= 2 \
                and isinstance(n.target, ast.Tuple) and len(n.target.elts) == len(n.iter.args) and all(isinstance(t, ast.Name) for t in n.target.elts) \
                and all(isinstance(a, ast.Name) or (isinstance(a, (ast.Subscript, ast.Attribute)) and _is_pure(a, allow_calls=False)) for a in n.iter.args) and not n.iter.keywords:
            scope, q_ = func, _par.get(n)
            while q_ is not None and q_ is not func:
                if isinstance(q_, FuncDef):
                    scope = q_
                    break
                q_ = _par.get(q_)
            N = _static_len(scope, n.iter) if all(isinstance(a, ast.Name) for a in n.iter.args) else None
            whole_ = getattr(Ctx, 'whole_func', None)
            if scope is func and whole_ is not None and getattr(whole_, 'name', None) == getattr(func, 'name', None):
                scope = whole_          # definitions before the window that is being rewritten
            if N is not None:
                sites.append((n, N))
            elif len(n.iter.args) == 2:
                # Y = [... for v in X] / [... for j in range(len(X))] and neither X nor Y changes after that: len(Y) == len(X)
                for Xn, Yn in ((n.iter.args[0], n.iter.args[1]), (n.iter.args[1], n.iter.args[0])):
                    if not isinstance(Yn, ast.Name):
                        continue
                    X, Y = ast.unparse(Xn), Yn.id
                    xroots = {w.id for w in ast.walk(Xn) if isinstance(w, ast.Name)}
                    ydefs = [st for st in ast.walk(scope) if isinstance(st, ast.Assign) and len(st.targets) == 1 and isinstance(st.targets[0], ast.Name) and st.targets[0].id == Y]
                    ystores = [y for y in ast.walk(scope) if isinstance(y, ast.Name) and y.id == Y and isinstance(y.ctx, (ast.Store, ast.Del))]
                    if len(ydefs) != 1 or len(ystores) != 1:
                        continue
                    yv = ydefs[0].value
                    if isinstance(yv, ast.Call) and ast.unparse(yv.func) in ('np.array', 'np.asarray') and len(yv.args) == 1 and not yv.keywords:
                        yv = yv.args[0]         # an array of the collected values has their number as its length
                    if not (isinstance(yv, ast.ListComp) and len(yv.generators) == 1 and not yv.generators[0].ifs):
                        continue
                    it = yv.generators[0].iter
                    if not (ast.unparse(it) == X or ast.unparse(it) == 'range(len(%s))' % X):
                        continue
                    dl = ydefs[0].lineno
                    if getattr(n, 'lineno', getattr(_par.get(n), 'lineno', 0)) <= dl:
                        continue
                    changed = False
                    for y in ast.walk(scope):
                        if getattr(y, 'lineno', 0) < dl:
                            continue
                        if isinstance(y, ast.Call) and isinstance(y.func, ast.Attribute) and y.func.attr in MUTATORS and (ast.unparse(y.func.value) == Y or {w.id for w in ast.walk(y.func.value) if isinstance(w, ast.Name)} & xroots):
                            changed = True
                        if isinstance(y, ast.Name) and y.id in xroots and isinstance(y.ctx, (ast.Store, ast.Del)):
                            changed = True
                        if isinstance(y, (ast.Subscript, ast.Attribute)) and isinstance(y.ctx, (ast.Store, ast.Del)) and ({w.id for w in ast.walk(y.value) if isinstance(w, ast.Name)} & (xroots | {Y})):
                            changed = True
                        if isinstance(y, (ast.AugAssign,)) and isinstance(y.target, ast.Name) and (y.target.id in xroots or y.target.id == Y):
                            changed = True
                    # the definition must not sit in a loop that the use is outside of (stale value of an earlier iteration)
                    q2, loops_def = _par.get(ydefs[0]), []
                    while q2 is not None and q2 is not scope:
                        if isinstance(q2, (ast.For, ast.While)):
                            loops_def.append(q2)
                        q2 = _par.get(q2)
                    inside_all = all(any(n is z or (isinstance(n, ast.comprehension) and _par.get(n) is z) for z in ast.walk(lp)) for lp in loops_def)
                    if not changed and inside_all:
                        for nm in (Xn, Yn):
                            sites.append((n, ast.Call(func=ast.Name(id='len', ctx=ast.Load()), args=[copy.deepcopy(nm)], keywords=[])))
                        break
    if k >= len(sites):
        return False
    g, N = sites[k]
    par = parents_of(func)
    owner = par.get(g) if isinstance(g, ast.comprehension) else g
    tnames = [t.id for t in g.target.elts]
    seqs = [w.id for a in g.iter.args for w in ast.walk(a) if isinstance(w, ast.Name)]
    seqx = [copy.deepcopy(a) for a in g.iter.args]
    scope = [owner]
    inner = [y for y in ast.walk(owner) if y is not g.target and not any(y is z for z in ast.walk(g.target))]
    if any(isinstance(y, ast.Name) and y.id in tnames + seqs and isinstance(y.ctx, (ast.Store, ast.Del)) for y in inner):
        return True
    if isinstance(g, ast.For):
        # the loop variables must be dead after the loop
        inside = {id(y) for y in ast.walk(g)}
        if not all(_free_loop_name(func, t, inside, par) for t in tnames):
            return True
    iv = '_zi%d' % getattr(owner, 'lineno', 0)
    sub = {t: q for t, q in zip(tnames, seqx)}
    for y in list(ast.walk(owner)):
        if isinstance(y, ast.Name) and y.id in sub and isinstance(y.ctx, ast.Load) and not any(y is z for z in ast.walk(g.iter)):
            replace_node(owner, y, fix(ast.Subscript(value=copy.deepcopy(sub[y.id]), slice=ast.Name(id=iv, ctx=ast.Load()), ctx=ast.Load()), y))
    g.target = fix(ast.Name(id=iv, ctx=ast.Store()), g.target)
    g.iter = fix(ast.Call(func=ast.Name(id='range', ctx=ast.Load()), args=[copy.deepcopy(N)], keywords=[]), g.iter)
    return True


_OPERATOR_FUNCS = {'add': ast.Add, 'sub': ast.Sub, 'mul': ast.Mult, 'truediv': ast.Div, 'floordiv': ast.FloorDiv, 'mod': ast.Mod, 'pow': ast.Pow, 'matmul': ast.MatMult}


def rw_fold_literal_concat(func, k):
    """(a, b) + (c,)   ->   (a, b, c)        (two displays of the same kind whose elements are constants; read-only use)"""
    sites = [n for n in ast.walk(func) if isinstance(n, ast.BinOp) and isinstance(n.op, ast.Add) and type(n.left) is type(n.right) and isinstance(n.left, (ast.Tuple, ast.List))
             and all(isinstance(e_, ast.Constant) for e_ in n.left.elts + n.right.elts)]
    if k >= len(sites):
        return False
    n = sites[k]
    new = type(n.left)(elts=list(n.left.elts) + list(n.right.elts), ctx=ast.Load())
    replace_node(func, n, fix(new, n))
    return True


def rw_beta_lambda(func, k):
    """f = lambda a, b: E ; ... f(x, y) ...     ->     ... E[a := x, b := y] ...        (f bound once, used only as the callee of
    calls with matching positional pure arguments; E has no free local names, so it means the same at the call as in the lambda)"""
    sites = []
    stored = {n.id for n in ast.walk(func) if isinstance(n, ast.Name) and isinstance(n.ctx, (ast.Store, ast.Del))} | {a_.arg for a_ in ast.walk(func) if isinstance(a_, ast.arg)}
    for owner, fld, blk in blocks_of(func):
        for i, a in enumerate(blk):
            if not (isinstance(a, ast.Assign) and len(a.targets) == 1 and isinstance(a.targets[0], ast.Name) and isinstance(a.value, ast.Lambda)):
                continue
            lam, t = a.value, a.targets[0].id
            la = lam.args
            if la.vararg or la.kwarg or la.kwonlyargs or la.defaults or la.posonlyargs or any(isinstance(n, (ast.Lambda, ast.ListComp, ast.SetComp, ast.DictComp, ast.GeneratorExp, ast.NamedExpr)) for n in ast.walk(lam.body)):
                continue
            params = [x.arg for x in la.args]
            occ = [n for n in ast.walk(func) if isinstance(n, ast.Name) and n.id == t]
            if sum(1 for n in occ if not isinstance(n.ctx, ast.Load)) != 1:
                continue
            if any(isinstance(n, ast.Name) and n.id == t for st_ in getattr(Ctx, 'window_outside', []) for n in ast.walk(st_)):
                continue
            # free names of the body: parameters, or names that are never bound in the function (module level)
            if any(isinstance(n, ast.Name) and n.id not in params and n.id in (stored - {t}) for n in ast.walk(lam.body)):
                continue
            calls = [c for c in ast.walk(func) if isinstance(c, ast.Call) and isinstance(c.func, ast.Name) and c.func.id == t]
            loads = [n for n in occ if isinstance(n.ctx, ast.Load)]
            if not calls or len(calls) != len(loads):
                continue
            if any(c.keywords or len(c.args) != len(params) or any(isinstance(x, ast.Starred) or not _is_pure(x, allow_calls=False) for x in c.args) for c in calls):
                continue
            # every call comes after the binding in the same function body (not inside a nested function that may run earlier)
            if any(isinstance(n, FuncDef) and n is not func and any(c is w for c in calls for w in ast.walk(n)) for n in ast.walk(func)):
                continue
            order = {}

            def _pre(n):
                order[id(n)] = len(order)
                for ch in ast.iter_child_nodes(n):
                    _pre(ch)
            _pre(func)
            if any(order[id(c)] <= order[id(a)] for c in calls):
                continue
            sites.append((blk, i, lam, params, calls))
    if k >= len(sites):
        return False
    blk, i, lam, params, calls = sites[k]
    for c in calls:
        new = _subst_params(copy.deepcopy(lam.body), dict(zip(params, c.args)))
        replace_node(func, c, fix(new, c))
    del blk[i]
    if not blk:
        blk.append(fix(ast.Pass(), func))
    return True


def rw_operator_call(func, k):
    """operator.add(a, b)   ->   a + b        (the functions of the standard module `operator` ARE the operators; same operand order)"""
    sites = [n for n in ast.walk(func) if isinstance(n, ast.Call) and isinstance(n.func, ast.Attribute) and isinstance(n.func.value, ast.Name) and n.func.value.id == 'operator'
             and (n.func.attr in _OPERATOR_FUNCS and len(n.args) == 2 or n.func.attr == 'neg' and len(n.args) == 1) and not n.keywords
             and not any(isinstance(a_, ast.Starred) for a_ in n.args)]
    if any(isinstance(w, ast.Name) and w.id == 'operator' and isinstance(w.ctx, ast.Store) for w in ast.walk(func)) or any(isinstance(w, ast.arg) and w.arg == 'operator' for w in ast.walk(func)):
        sites = []      # a local of that name is not the module
    if k >= len(sites):
        return False
    n = sites[k]
    if n.func.attr == 'neg':
        new = ast.UnaryOp(op=ast.USub(), operand=n.args[0])
    else:
        new = ast.BinOp(left=n.args[0], op=_OPERATOR_FUNCS[n.func.attr](), right=n.args[1])
    replace_node(func, n, fix(new, n))
    return True


def rw_zip_mapped(func, k):
    """for a, b in zip(S, [E(v) for v in S]): B      ->      for a in S: B[b := E(a)]
    (S and E pure; b is read only; nothing E reads is stored or mutated in B - the values E(a) are then the ones the list held)"""
    sites = []
    for n in ast.walk(func):
        if not (isinstance(n, (ast.For, ast.comprehension)) and isinstance(n.iter, ast.Call) and isinstance(n.iter.func, ast.Name) and n.iter.func.id == 'zip' and len(n.iter.args) == 2
                and not n.iter.keywords and isinstance(n.target, ast.Tuple) and len(n.target.elts) == 2 and all(isinstance(t, ast.Name) for t in n.target.elts)):
            continue
        S, M = n.iter.args
        if not (isinstance(M, ast.ListComp) and len(M.generators) == 1 and not M.generators[0].ifs and isinstance(M.generators[0].target, ast.Name)
                and ast.dump(M.generators[0].iter) == ast.dump(S) and _is_pure(S) and _is_pure(M.elt)):
            continue
        sites.append(n)
    if k >= len(sites):
        return False
    g = sites[k]
    par = parents_of(func)
    owner = par.get(g) if isinstance(g, ast.comprehension) else g
    a, b = g.target.elts[0].id, g.target.elts[1].id
    S, M = g.iter.args
    v = M.generators[0].target.id
    body_nodes = [y for st in (owner.body + owner.orelse if isinstance(owner, ast.For) else [owner]) for y in ast.walk(st)]
    body_nodes = [y for y in body_nodes if not any(y is z for z in ast.walk(g.iter)) and not any(y is z for z in ast.walk(g.target))]
    reads = (_roots(M.elt) | _roots(S)) - {v}
    for y in body_nodes:
        if isinstance(y, ast.Name) and isinstance(y.ctx, (ast.Store, ast.Del)) and (y.id in (a, b) or y.id in reads):
            return True
        if isinstance(y, (ast.Subscript, ast.Attribute)) and isinstance(y.ctx, (ast.Store, ast.Del)) and _roots(y.value) & reads:
            return True
        if isinstance(y, ast.Call) and isinstance(y.func, ast.Attribute) and y.func.attr in MUTATORS and _roots(y.func.value) & reads:
            return True
    if isinstance(g, ast.For):
        inside = {id(y) for y in ast.walk(g)}
        if not _free_loop_name(func, b, inside, par):
            return True
    for y in list(body_nodes):
        if isinstance(y, ast.Name) and y.id == b and isinstance(y.ctx, ast.Load):
            e2 = copy.deepcopy(M.elt)
            for w in list(ast.walk(e2)):
                if isinstance(w, ast.Name) and w.id == v:
                    w.id = a
            replace_node(owner, y, fix(e2, y))
    g.target = fix(ast.Name(id=a, ctx=ast.Store()), g.target)
    g.iter = S
    return True


def rw_zip_collected(func, k):
    """L = [] ; for x in S: L.append(E(x))   ...   for x2, y in zip(S, L): B      ->      ... for x2 in S: B[y := E(x2)]
    (L holds E(x) for every x of S in order; S and the operands of E unchanged in between; y only read)"""
    sites = []
    par = parents_of(func)
    whole = getattr(Ctx, 'whole_func', None)
    scope0 = func       # the collecting loop has to be in the window that is being rewritten (the whole function is the unrestored original)
    for n in ast.walk(func):
        if not (isinstance(n, ast.For) and isinstance(n.iter, ast.Call) and isinstance(n.iter.func, ast.Name) and n.iter.func.id == 'zip' and len(n.iter.args) == 2
                and isinstance(n.target, ast.Tuple) and len(n.target.elts) == 2 and all(isinstance(t, ast.Name) for t in n.target.elts) and isinstance(n.iter.args[1], ast.Name)):
            continue
        S, L = n.iter.args[0], n.iter.args[1].id
        if not _is_pure(S, allow_calls=False):
            continue
        coll = [lp for lp in ast.walk(scope0) if isinstance(lp, ast.For) and not lp.orelse and isinstance(lp.target, ast.Name) and ast.unparse(lp.iter) == ast.unparse(S)
                and len(lp.body) >= 1 and any(_append_stmt(b_)[0] is not None and ast.unparse(_append_stmt(b_)[0]) == L for b_ in lp.body)]
        if len(coll) != 1:
            continue
        lp = coll[0]
        apps = [c for c in ast.walk(scope0) if isinstance(c, ast.Call) and isinstance(c.func, ast.Attribute) and c.func.attr in MUTATORS and ast.unparse(c.func.value) == L]
        stores = [y for y in ast.walk(scope0) if isinstance(y, ast.Name) and y.id == L and isinstance(y.ctx, (ast.Store, ast.Del))]
        if len(apps) != 1 or len(stores) != 1:
            continue
        app_stmt = next(b_ for b_ in lp.body if _append_stmt(b_)[0] is not None and ast.unparse(_append_stmt(b_)[0]) == L)
        E = _append_stmt(app_stmt)[1]
        if not _is_pure(E, allow_calls=False) or lp.lineno >= n.lineno:
            continue
        # the append is unconditional and the loop has no exits
        if any(isinstance(y, (ast.Break, ast.Continue, ast.Return)) for y in ast.walk(lp)):
            continue
        roots = (_roots(E) | _roots(S)) - {lp.target.id}
        changed = False
        last_line = max([getattr(z, 'lineno', 0) for z in ast.walk(n)] + [n.lineno])
        for y in ast.walk(scope0):
            if not (lp.lineno < getattr(y, 'lineno', 0) <= last_line):
                continue        # only what happens between the collection and the end of the consuming loop matters
            if isinstance(y, ast.Name) and y.id in roots and isinstance(y.ctx, (ast.Store, ast.Del)):
                changed = True
            if isinstance(y, (ast.Subscript, ast.Attribute)) and isinstance(y.ctx, (ast.Store, ast.Del)) and ast.unparse(y.value) in roots:
                changed = True
        if not changed:
            sites.append((n, lp.target.id, E))
    if k >= len(sites):
        return False
    n, xv, E = sites[k]
    x2, y = n.target.elts[0].id, n.target.elts[1].id
    if any(isinstance(z, ast.Name) and z.id == y and isinstance(z.ctx, (ast.Store, ast.Del)) for b_ in n.body for z in ast.walk(b_)):
        return True
    inside = {id(z) for z in ast.walk(n)}
    if not _free_loop_name(func, y, inside, par):
        return True
    for b_ in n.body:
        for z in list(ast.walk(b_)):
            if isinstance(z, ast.Name) and z.id == y and isinstance(z.ctx, ast.Load):
                e2 = copy.deepcopy(E)
                for w in ast.walk(e2):
                    if isinstance(w, ast.Name) and w.id == xv:
                        w.id = x2
                replace_node(b_, z, fix(e2, z))
    n.target = fix(ast.Name(id=x2, ctx=ast.Store()), n.target)
    n.iter = n.iter.args[0]
    return True


def rw_extend_literal(func, k):
    """L.extend([a, b, ...])   ->   L.append(a) ; L.append(b) ; ...        (elements are evaluated in the same order; L pure)"""
    sites = []
    for owner, fld, blk in blocks_of(func):
        for st in blk:
            if isinstance(st, ast.Expr) and isinstance(st.value, ast.Call) and isinstance(st.value.func, ast.Attribute) and st.value.func.attr == 'extend' and len(st.value.args) == 1 \
                    and not st.value.keywords and isinstance(st.value.args[0], (ast.List, ast.Tuple)) and 1 <= len(st.value.args[0].elts) <= 6 \
                    and not any(isinstance(e, ast.Starred) for e in st.value.args[0].elts) and _is_pure(st.value.func.value, allow_calls=False):
                base = ast.unparse(st.value.func.value)
                if not any(base in ast.unparse(e) for e in st.value.args[0].elts):
                    sites.append((blk, st))
    if k >= len(sites):
        return False
    blk, st = sites[k]
    out = [fix(ast.Expr(value=ast.Call(func=ast.Attribute(value=copy.deepcopy(st.value.func.value), attr='append', ctx=ast.Load()), args=[e], keywords=[])), st) for e in st.value.args[0].elts]
    i = blk.index(st)
    blk[i:i + 1] = out
    return True


def rw_unpack_name(func, k):
    """a, b = T   ->   a = T[0] ; b = T[1]        (T a plain name; the values are those of a successful unpacking)
    second form, when a and b are read exactly once, in the statement that follows, and T is not otherwise named there:   a, b = T ; S(a, b)   ->   S(T[0], T[1])"""
    sites = []
    for owner, fld, blk in blocks_of(func):
        for st in blk:
            if isinstance(st, ast.Assign) and len(st.targets) == 1 and isinstance(st.targets[0], ast.Tuple) and 2 <= len(st.targets[0].elts) <= 4 and isinstance(st.value, ast.Name) \
                    and all(isinstance(t, ast.Name) and t.id != st.value.id for t in st.targets[0].elts):
                sites.append((blk, st, 'assign'))
                i = blk.index(st)
                names = [t.id for t in st.targets[0].elts]
                if i + 1 < len(blk) and len(set(names)) == len(names) and not isinstance(blk[i + 1], (ast.For, ast.While, ast.If, ast.With, ast.Try, ast.FunctionDef, ast.ClassDef)):
                    nxt = blk[i + 1]
                    occ = {n_: [w for w in ast.walk(func) if isinstance(w, ast.Name) and w.id == n_] for n_ in names}
                    inside = {id(w) for w in ast.walk(nxt)}
                    deferred = {id(w) for d in ast.walk(nxt) if isinstance(d, (ast.Lambda, ast.GeneratorExp)) for w in ast.walk(d)}
                    if all(len(o) == 2 and sum(isinstance(w.ctx, ast.Load) and id(w) in inside and id(w) not in deferred for w in o) == 1 for o in occ.values()) \
                            and not any(isinstance(w, ast.Name) and w.id == st.value.id for w in ast.walk(nxt)):
                        sites.append((blk, st, 'subst'))
    if k >= len(sites):
        return False
    blk, st, how = sites[k]
    i = blk.index(st)
    if how == 'subst':
        nxt = blk[i + 1]
        for j, t in enumerate(st.targets[0].elts):
            for w in list(ast.walk(nxt)):
                if isinstance(w, ast.Name) and w.id == t.id and isinstance(w.ctx, ast.Load):
                    replace_node(nxt, w, fix(ast.Subscript(value=ast.Name(id=st.value.id, ctx=ast.Load()), slice=ast.Constant(value=j), ctx=ast.Load()), w))
        del blk[i]
        return True
    out = [fix(ast.Assign(targets=[ast.Name(id=t.id, ctx=ast.Store())], value=ast.Subscript(value=ast.Name(id=st.value.id, ctx=ast.Load()), slice=ast.Constant(value=j), ctx=ast.Load())), st)
           for j, t in enumerate(st.targets[0].elts)]
    blk[i:i + 1] = out
    return True


def rw_filter_none(func, k):
    """list(filter(None, S))   <->   [x for x in S if x]"""
    sites = []
    for n in ast.walk(func):
        if isinstance(n, ast.Call) and isinstance(n.func, ast.Name) and n.func.id == 'list' and len(n.args) == 1 and isinstance(n.args[0], ast.Call) and isinstance(n.args[0].func, ast.Name) \
                and n.args[0].func.id == 'filter' and len(n.args[0].args) == 2 and isinstance(n.args[0].args[0], ast.Constant) and n.args[0].args[0].value is None:
            sites.append((n, 'comp'))
        if isinstance(n, ast.ListComp) and len(n.generators) == 1 and isinstance(n.generators[0].target, ast.Name) and isinstance(n.elt, ast.Name) and n.elt.id == n.generators[0].target.id \
                and len(n.generators[0].ifs) == 1 and isinstance(n.generators[0].ifs[0], ast.Name) and n.generators[0].ifs[0].id == n.elt.id:
            sites.append((n, 'filter'))
    if k >= len(sites):
        return False
    n, how = sites[k]
    if how == 'comp':
        v = '_fv%d' % getattr(n, 'lineno', 0)
        new = ast.ListComp(elt=ast.Name(id=v, ctx=ast.Load()), generators=[ast.comprehension(target=ast.Name(id=v, ctx=ast.Store()), iter=n.args[0].args[1], ifs=[ast.Name(id=v, ctx=ast.Load())], is_async=0)])
    else:
        new = ast.Call(func=ast.Name(id='list', ctx=ast.Load()), args=[ast.Call(func=ast.Name(id='filter', ctx=ast.Load()), args=[ast.Constant(value=None), n.generators[0].iter], keywords=[])], keywords=[])
    replace_node(func, n, fix(new, n))
    return True


def rw_star_list(func, k):
    """[*a, *b]   ->   list(a) + list(b)"""
    sites = [n for n in ast.walk(func) if isinstance(n, ast.List) and isinstance(n.ctx, ast.Load) and len(n.elts) >= 2 and all(isinstance(e, ast.Starred) for e in n.elts)]
    if k >= len(sites):
        return False
    n = sites[k]
    parts = [ast.Call(func=ast.Name(id='list', ctx=ast.Load()), args=[e.value], keywords=[]) for e in n.elts]
    new = parts[0]
    for p_ in parts[1:]:
        new = ast.BinOp(left=new, op=ast.Add(), right=p_)
    replace_node(func, n, fix(new, n))
    return True


def rw_subscripted_literal(func, k):
    """(a, b)[i]   <->   [a, b][i]"""
    sites = [n for n in ast.walk(func) if isinstance(n, ast.Subscript) and isinstance(n.ctx, ast.Load) and isinstance(n.value, (ast.Tuple, ast.List)) and not isinstance(n.slice, ast.Slice)]
    if k >= len(sites):
        return False
    n = sites[k]
    n.value = fix((ast.List if isinstance(n.value, ast.Tuple) else ast.Tuple)(elts=n.value.elts, ctx=ast.Load()), n.value)
    return True


def rw_items_loop(func, k):
    """for key, val in D.items(): ... val ...    ->    for key in D: ... D[key] ..."""
    sites = [n for n in ast.walk(func) if isinstance(n, (ast.For, ast.comprehension)) and isinstance(n.target, ast.Tuple) and len(n.target.elts) == 2
             and all(isinstance(e, ast.Name) for e in n.target.elts) and isinstance(n.iter, ast.Call) and isinstance(n.iter.func, ast.Attribute) and n.iter.func.attr == 'items' and not n.iter.args]
    if k >= len(sites):
        return False
    g = sites[k]
    par = parents_of(func)
    owner = par.get(g) if isinstance(g, ast.comprehension) else g
    key, val = g.target.elts[0].id, g.target.elts[1].id
    d = g.iter.func.value
    if any(isinstance(n, ast.Name) and n.id == val and isinstance(n.ctx, ast.Store) for n in ast.walk(owner) if n is not g.target.elts[1]):
        return True
    for n in list(ast.walk(owner)):
        if isinstance(n, ast.Name) and n.id == val and isinstance(n.ctx, ast.Load):
            replace_node(owner, n, fix(ast.Subscript(value=copy.deepcopy(d), slice=ast.Name(id=key, ctx=ast.Load()), ctx=ast.Load()), n))
    g.target = fix(ast.Name(id=key, ctx=ast.Store()), g.target)
    g.iter = fix(copy.deepcopy(d), g.iter)
    return True


def _free_loop_name(func, v, inside, par, stop=None):
    """every occurrence of the name v outside the node set `inside` is bound by an enclosing loop / comprehension of its own
    (so a new loop variable v cannot be observed there)"""
    # (context and operator objects such as ast.Store() / ast.Add() are shared between nodes: they are no positions in the tree)
    site = next((n for n in ast.walk(func) if id(n) in inside and isinstance(n, (ast.stmt, ast.expr, ast.comprehension))), None)
    q = par.get(site) if site is not None else None
    while q is not None and q is not func:
        # the converted statement itself sits in a loop over v: the new binding would clobber that loop's variable
        if isinstance(q, ast.For) and q is not stop and any(isinstance(y, ast.Name) and y.id == v for y in ast.walk(q.target)):
            return False
        q = par.get(q)
    own = set()      # nested functions / lambdas with a parameter v: a scope of their own
    for n in ast.walk(func):
        if isinstance(n, FuncDef + (ast.Lambda,)) and n is not func:
            a_ = n.args
            if any(x.arg == v for x in a_.posonlyargs + a_.args + a_.kwonlyargs + [y for y in (a_.vararg, a_.kwarg) if y is not None]):
                own.update(id(y) for y in ast.walk(n))
    if isinstance(func, FuncDef):
        a_ = func.args
        if any(x.arg == v for x in a_.posonlyargs + a_.args + a_.kwonlyargs + [y for y in (a_.vararg, a_.kwarg) if y is not None]):
            return False
    for n in ast.walk(func):
        if id(n) in own:
            continue
        if isinstance(n, ast.Name) and n.id == v and id(n) not in inside:
            q, bound = par.get(n), False
            if isinstance(n.ctx, ast.Store) and isinstance(q, (ast.For, ast.Tuple)):
                # the target of another loop
                qq = q
                while isinstance(qq, ast.Tuple):
                    qq = par.get(qq)
                if isinstance(qq, ast.For) and any(n is y for y in ast.walk(qq.target)):
                    continue
            while q is not None and q is not func:
                if isinstance(q, ast.For) and q is not stop and any(isinstance(y, ast.Name) and y.id == v for y in ast.walk(q.target)) and not any(n is y for y in ast.walk(q.iter)):
                    bound = True
                if isinstance(q, (ast.ListComp, ast.GeneratorExp, ast.SetComp, ast.DictComp)) and any(isinstance(y, ast.Name) and y.id == v for c in q.generators for y in ast.walk(c.target)):
                    bound = True
                if stop is not None and q is stop:
                    bound = False
                    break
                q = par.get(q)
            if not bound:
                return False
    return True


def rw_genexp_loop(func, k):
    """for t in (E for v in S): B     ->     for v in S: t = E ; B        (generators are lazy: same interleaving; v must not be
    read anywhere it is not rebound first)"""
    sites = [n for n in ast.walk(func) if isinstance(n, ast.For) and isinstance(n.iter, (ast.GeneratorExp, ast.ListComp)) and len(n.iter.generators) == 1
             and not n.iter.generators[0].ifs and not n.iter.generators[0].is_async and isinstance(n.iter.generators[0].target, ast.Name)]
    if k >= len(sites):
        return False
    g = sites[k]
    gen = g.iter.generators[0]
    v = gen.target.id
    if isinstance(g.iter, ast.ListComp):
        # a list is built before the first iteration: only equivalent when the body cannot influence the elements
        if not _is_pure(g.iter.elt):
            return True
        wr = set()
        for b_ in g.body:
            for n in ast.walk(b_):
                if isinstance(n, ast.Name) and isinstance(n.ctx, (ast.Store, ast.Del)):
                    wr.add(n.id)
                elif isinstance(n, (ast.Subscript, ast.Attribute)) and isinstance(n.ctx, (ast.Store, ast.Del)):
                    wr |= _roots(n.value)
                elif isinstance(n, ast.Call) and isinstance(n.func, ast.Attribute) and n.func.attr in MUTATORS and isinstance(n.func.value, (ast.Name, ast.Subscript, ast.Attribute)):
                    wr |= _roots(n.func.value)
                elif isinstance(n, ast.Call) and not _is_pure(n) and not (isinstance(n.func, ast.Attribute) and n.func.attr in MUTATORS):
                    inner_pure = all(_is_pure(a_) for a_ in n.args)
                    if not (isinstance(n.func, ast.Name) and n.func.id in ('isinstance', 'len', 'print') and inner_pure):
                        wr.add('<call>')
        if wr & (_roots(g.iter.elt) | _roots(gen.iter)) or '<call>' in wr:
            return True
    par = parents_of(func)
    inside = {id(n) for n in ast.walk(g.iter)}
    if not _free_loop_name(func, v, inside, par, g):
        return True
    asg = fix(ast.Assign(targets=[copy.deepcopy(g.target)], value=g.iter.elt), g)
    for y in ast.walk(asg.targets[0]):
        if hasattr(y, 'ctx'):
            y.ctx = ast.Store()
    g.target = fix(ast.Name(id=v, ctx=ast.Store()), g)
    g.iter = gen.iter
    g.body.insert(0, asg)
    return True


def rw_return_temp(func, k):
    """return E   ->   _ret = E ; return _ret"""
    sites = []
    for owner, fld, blk in blocks_of(func):
        for s in blk:
            if isinstance(s, ast.Return) and s.value is not None and not isinstance(s.value, (ast.Name, ast.Constant)):
                sites.append((blk, s))
    if Ctx.line_hash is not None and Ctx.ref_hashes:
        # only where the reference has an assignment of exactly this expression
        names = Ctx.local_names(func)
        keep = []
        for blk_, s_ in sites:
            probe = ast.Assign(targets=[ast.Name(id='_ret_tmp', ctx=ast.Store())], value=s_.value, lineno=s_.lineno, col_offset=0, end_lineno=s_.lineno, end_col_offset=0)
            probe.targets[0].lineno = s_.lineno
            probe.targets[0].col_offset = 0
            probe.targets[0].end_lineno = s_.lineno
            probe.targets[0].end_col_offset = 0
            try:
                if Ctx.line_hash(probe, names | {'_ret_tmp'}, func) in Ctx.ref_hashes:
                    keep.append((blk_, s_))
            except Exception:
                pass
        sites = keep
    if k >= len(sites):
        return False
    blk, s = sites[k]
    i = blk.index(s)
    a = ast.Assign(targets=[ast.Name(id='_ret_tmp', ctx=ast.Store())], value=s.value)
    r = ast.Return(value=ast.Name(id='_ret_tmp', ctx=ast.Load()))
    blk[i:i + 1] = [fix(a, s), fix(r, s)]
    return True


def rw_filter_loop(func, k):
    """for x in [y for y in IT if C(y)]: BODY    ->    for x in IT: if not C(x): continue ; BODY"""
    sites = [n for n in ast.walk(func) if isinstance(n, ast.For) and isinstance(n.iter, (ast.ListComp, ast.GeneratorExp)) and len(n.iter.generators) == 1
             and isinstance(n.iter.elt, ast.Name) and isinstance(n.iter.generators[0].target, ast.Name) and n.iter.elt.id == n.iter.generators[0].target.id
             and isinstance(n.target, ast.Name) and n.iter.generators[0].ifs]
    if k >= len(sites):
        return False
    lp = sites[k]
    g = lp.iter.generators[0]
    y = g.target.id
    x = lp.target.id
    guards = []
    for c in g.ifs:
        c2 = copy.deepcopy(c)
        for n in ast.walk(c2):
            if isinstance(n, ast.Name) and n.id == y:
                n.id = x
        guards.append(fix(ast.If(test=negate(c2), body=[ast.Continue()], orelse=[]), lp))
    lp.iter = g.iter
    lp.body = guards + lp.body
    return True


def rw_loop_to_update(func, k):
    """for x in IT: D[K] = V    ->    D.update({K: V for x in IT})"""
    sites = [n for n in ast.walk(func) if isinstance(n, ast.For) and not n.orelse and len(n.body) == 1 and isinstance(n.body[0], ast.Assign) and len(n.body[0].targets) == 1
             and isinstance(n.body[0].targets[0], ast.Subscript) and isinstance(n.body[0].targets[0].value, ast.Name)]
    if k >= len(sites):
        return False
    lp = sites[k]
    st = lp.body[0]
    d = st.targets[0].value
    comp = ast.DictComp(key=st.targets[0].slice, value=st.value, generators=[ast.comprehension(target=lp.target, iter=lp.iter, ifs=[], is_async=0)])
    new = ast.Expr(value=ast.Call(func=ast.Attribute(value=ast.Name(id=d.id, ctx=ast.Load()), attr='update', ctx=ast.Load()), args=[comp], keywords=[]))
    replace_node(func, lp, fix(new, lp))
    return True


def rw_is_false(func, k):
    """not X  <->  (X) is False     for comparison valued X"""
    sites = [n for n in ast.walk(func) if isinstance(n, ast.Compare) and len(n.ops) == 1 and isinstance(n.ops[0], (ast.NotEq, ast.Eq, ast.Lt, ast.Gt, ast.LtE, ast.GtE))
             and not (isinstance(n.comparators[0], ast.Constant) and n.comparators[0].value is False)]
    if k >= len(sites):
        return False
    n = sites[k]
    inner = negate(n) if isinstance(n.ops[0], (ast.NotEq, ast.Eq)) else None
    if inner is None:
        return True
    new = ast.Compare(left=inner, ops=[ast.Is()], comparators=[ast.Constant(value=False)])
    replace_node(func, n, fix(new, n))
    return True


def rw_wrap_set(func, k):
    """for x in D   ->   for x in set(D)"""
    sites = [n for n in ast.walk(func) if isinstance(n, (ast.For, ast.comprehension)) and isinstance(n.iter, (ast.Attribute, ast.Name))]
    if k >= len(sites):
        return False
    n = sites[k]
    n.iter = fix(ast.Call(func=ast.Name(id='set', ctx=ast.Load()), args=[n.iter], keywords=[]), n.iter)
    return True


def rw_hoist_common_tail(func, k):
    """if c: A ; S else: B ; S    ->    if c: A else: B ; S        (S the identical last statement of every branch of the chain)"""
    sites = []
    for owner, fld, blk in blocks_of(func):
        for i, s in enumerate(blk):
            if isinstance(s, ast.If) and s.orelse:
                sites.append((blk, i))
    if k >= len(sites):
        return False
    blk, i = sites[k]
    s = blk[i]

    def leaves(n):
        out = [n.body]
        if len(n.orelse) == 1 and isinstance(n.orelse[0], ast.If) and n.orelse[0].orelse:
            out += leaves(n.orelse[0])
        else:
            out.append(n.orelse)
        return out
    # try the deepest chain first, then only the two branches of this statement
    for lv in (leaves(s), [s.body, s.orelse]):
        if all(b and len(b) > 1 for b in lv) and len({ast.dump(b[-1]) for b in lv}) == 1 and not isinstance(lv[0][-1], (ast.Return, ast.Raise, ast.Continue, ast.Break)):
            tail = lv[0][-1]
            for b in lv:
                b.pop()
            blk.insert(i + 1, tail)
            return True
    return True


def rw_sink_common_tail(func, k):
    """if c: A else: B ; S    ->    if c: A ; S else: B ; S"""
    sites = []
    for owner, fld, blk in blocks_of(func):
        for i, s in enumerate(blk):
            if isinstance(s, ast.If) and s.orelse and i + 1 < len(blk) and not isinstance(blk[i + 1], FuncDef):
                if isinstance(blk[i + 1], (ast.If, ast.For, ast.While, ast.Try, ast.With)):
                    # a compound statement is only moved (never duplicated): exactly one branch of the chain falls through
                    def _open(n):
                        c_ = 0 if always_exits(n.body) else 1
                        if len(n.orelse) == 1 and isinstance(n.orelse[0], ast.If):
                            return c_ + _open(n.orelse[0])
                        return c_ + (0 if always_exits(n.orelse) else 1)
                    if _open(s) != 1:
                        continue
                sites.append((blk, i))
    if k >= len(sites):
        return False
    blk, i = sites[k]
    s = blk[i]
    tail = blk.pop(i + 1)

    def put(n):
        if not always_exits(n.body):
            n.body.append(copy.deepcopy(tail))
        if len(n.orelse) == 1 and isinstance(n.orelse[0], ast.If):
            put(n.orelse[0])
        elif n.orelse and not always_exits(n.orelse):
            n.orelse.append(copy.deepcopy(tail))
        elif not n.orelse:
            n.orelse = [copy.deepcopy(tail)]
    put(s)
    return True


def _simple_return(st):
    return isinstance(st, ast.Return) and (st.value is None or isinstance(st.value, (ast.Name, ast.Constant)))


def _try_sites(func):
    sites = []
    for owner, fld, blk in blocks_of(func):
        for i, s in enumerate(blk):
            if isinstance(s, ast.Try) and not s.finalbody and not s.orelse and s.handlers:
                sites.append((blk, i))
    return sites


def rw_try_tail_out(func, k):
    """try: A ; return n  except: H ; return n      ->   try: A  except: H ;  return n       (n a plain name or constant:
    its evaluation cannot raise, so leaving the protected region does not change which exceptions are caught)"""
    sites = _try_sites(func)
    if k >= len(sites):
        return False
    blk, i = sites[k]
    s = blk[i]

    def leaves(b, owner, fld):
        if b and isinstance(b[-1], ast.If) and b[-1].orelse:
            return leaves(b[-1].body, b[-1], 'body') + leaves(b[-1].orelse, b[-1], 'orelse')
        return [(b, owner, fld)]
    tails = leaves(s.body, s, 'body')
    for h in s.handlers:
        tails += leaves(h.body, h, 'body')
    rets = [b[-1] for b, o, f in tails if b and _simple_return(b[-1])]
    if not rets:
        return True
    nxt = blk[i + 1] if i + 1 < len(blk) else None
    if nxt is not None:
        if not _simple_return(nxt):
            return True
        want = ast.dump(nxt)
    else:
        if not all(always_exits(b) for b, o, f in tails):
            return True      # a path falls through to whatever follows the enclosing block
        want = Counter(ast.dump(r) for r in rets).most_common(1)[0][0]
        blk.insert(i + 1, copy.deepcopy(next(r for r in rets if ast.dump(r) == want)))
    for b, o, f in tails:
        if b and _simple_return(b[-1]) and ast.dump(b[-1]) == want:
            b.pop()
            if not b and f == 'body':
                b.append(ast.Pass(lineno=s.lineno, col_offset=0, end_lineno=s.lineno, end_col_offset=0))
    return True


def rw_try_tail_in(func, k):
    """try: A  except: H ;  return n    ->   try: A ; return n  except: H ; return n      (inverse of try_tail_out)"""
    sites = _try_sites(func)
    if k >= len(sites):
        return False
    blk, i = sites[k]
    s = blk[i]
    nxt = blk[i + 1] if i + 1 < len(blk) else None
    if nxt is None or not _simple_return(nxt):
        return True
    if isinstance(nxt.value, ast.Name) and any(isinstance(n, ast.Name) and n.id == nxt.value.id and isinstance(n.ctx, ast.Store) for h in s.handlers for n in ast.walk(h)) is None:
        return True
    for b in [s.body] + [h.body for h in s.handlers]:
        if always_exits(b):
            continue
        if len(b) == 1 and isinstance(b[0], ast.Pass):
            b.pop()
        b.append(copy.deepcopy(nxt))
    return True


class Ctx:
    whole_func = None
    window_outside = []
    helpers = {}
    nested_sigs = {}
    ref_counter = Counter()
    ref_hashes = frozenset()
    line_hash = None
    local_names = None


def rw_extract_temp(func, k):
    """S[... E ...]   ->   t = E ; S[... t ...]     for a sub-expression E whose assignment `t = E` is a statement of the reference;
    every later identical occurrence in the same block is replaced as long as the operands of E are not rebound or mutated"""
    if Ctx.line_hash is None:
        return False
    names = Ctx.local_names(func)
    have = Counter(getattr(func, '_outside_have', {}))
    for owner, fld, blk in blocks_of(func):
        for st in blk:
            if isinstance(st, ast.Assign):
                have[Ctx.line_hash(st, names, func)] += 1
    sites = []
    for owner, fld, blk in blocks_of(func):
        for st in blk:
            if isinstance(st, FuncDef + (ast.ClassDef,)):
                continue
            compound = any(isinstance(getattr(st, f, None), list) and f in _BODY_FIELDS for f in st._fields)
            roots = []
            if compound:
                for f, v in ast.iter_fields(st):
                    if f in _BODY_FIELDS:
                        continue
                    if isinstance(v, ast.AST):
                        roots.append(v)
            else:
                roots = [st.value] if isinstance(st, (ast.Assign, ast.AugAssign, ast.Return, ast.Expr)) and getattr(st, 'value', None) is not None else []
            for r in roots:
                for e in ast.walk(r):
                    if not isinstance(e, (ast.Call, ast.BinOp, ast.Attribute, ast.Subscript, ast.ListComp, ast.Compare, ast.IfExp, ast.List, ast.Tuple, ast.Dict, ast.Set, ast.DictComp, ast.SetComp, ast.BoolOp, ast.UnaryOp, ast.JoinedStr)) or not isinstance(getattr(e, 'ctx', ast.Load()), ast.Load):
                        continue
                    if isinstance(st, ast.Assign) and e is st.value and len(st.targets) == 1 and isinstance(st.targets[0], ast.Name):
                        continue
                    probe = ast.Assign(targets=[ast.Name(id='_xt_probe', ctx=ast.Store())], value=e, lineno=st.lineno, col_offset=0, end_lineno=st.lineno, end_col_offset=0)
                    probe.targets[0].lineno = st.lineno
                    probe.targets[0].col_offset = 0
                    probe.targets[0].end_lineno = st.lineno
                    probe.targets[0].end_col_offset = 0
                    h = Ctx.line_hash(probe, names | {'_xt_probe'}, func)
                    if h in Ctx.ref_hashes and have[h] < Ctx.ref_counter.get(h, 1):
                        sites.append((blk, st, e))
    # every site may also be hoisted into the enclosing blocks (the temporary of the reference may live further out)
    par = parents_of(func)
    block_of = {}
    for owner, fld, blk in blocks_of(func):
        for st in blk:
            block_of[id(st)] = blk
    expanded = []
    for blk, st, e in sites:
        expanded.append((blk, st, e))
        p = par.get(st)
        hops = 0
        while p is not None and p is not func and hops < 4:
            if isinstance(p, ast.stmt) and id(p) in block_of and not isinstance(p, FuncDef + (ast.For, ast.While)):
                expanded.append((block_of[id(p)], p, e))
                hops += 1
            elif isinstance(p, (ast.For, ast.While)):
                # only a literal without any name may leave a loop (it has the same value in every iteration)
                if id(p) in block_of and isinstance(e, (ast.List, ast.Tuple, ast.Constant, ast.Dict, ast.Set)) and not any(isinstance(y, (ast.Name, ast.Call, ast.Attribute)) for y in ast.walk(e)):
                    expanded.append((block_of[id(p)], p, e))
                    hops += 1
                elif id(p) in block_of and isinstance(e, ast.Call) and isinstance(e.func, ast.Name) and e.func.id == 'len' and len(e.args) == 1 and isinstance(e.args[0], ast.Name) \
                        and not any(isinstance(y, ast.Name) and y.id == e.args[0].id and isinstance(y.ctx, (ast.Store, ast.Del)) for y in ast.walk(func)) \
                        and not any(isinstance(y, ast.Call) and isinstance(y.func, ast.Attribute) and y.func.attr in MUTATORS and ast.unparse(y.func.value) == e.args[0].id for y in ast.walk(func)):
                    # the length of a name that is never rebound or resized is loop invariant
                    expanded.append((block_of[id(p)], p, e))
                    hops += 1
                else:
                    break
            elif isinstance(p, FuncDef) and id(p) in block_of:
                # out of a closure: only if no operand of the expression is ever rebound or mutated in the enclosing function
                roots_ = _roots(e)
                clean = True
                for n in ast.walk(func):
                    if isinstance(n, (ast.Name, ast.Attribute, ast.Subscript)) and isinstance(getattr(n, 'ctx', None), (ast.Store, ast.Del)) and ast.unparse(n) in roots_ \
                            and getattr(n, 'lineno', 0) > p.lineno:
                        clean = False
                    if isinstance(n, ast.Call) and isinstance(n.func, ast.Attribute) and n.func.attr in MUTATORS and ast.unparse(n.func.value) in roots_ and getattr(n, 'lineno', 0) > p.lineno:
                        clean = False
                if clean and _is_pure(e):
                    expanded.append((block_of[id(p)], p, e))
                    hops += 1
                else:
                    break
            p = par.get(p)
    sites = expanded
    if k >= len(sites):
        return False
    blk, st, e = sites[k]
    # a sub-expression that is evaluated only conditionally (branch of a conditional expression, later operand of and / or) must
    # not be evaluated unconditionally in front of the statement
    q_, child_ = par.get(e), e
    while q_ is not None and q_ is not st:
        if isinstance(q_, ast.IfExp) and child_ is not q_.test:
            return True
        if isinstance(q_, ast.BoolOp) and q_.values and child_ is not q_.values[0]:
            return True
        child_, q_ = q_, par.get(q_)
    p = par.get(e)
    while p is not None and p is not st:
        if isinstance(p, (ast.Lambda, ast.ListComp, ast.SetComp, ast.DictComp, ast.GeneratorExp)):
            # the sub-expression may depend on a variable bound inside: only allowed if it has no such free name
            bound = set()
            if not isinstance(p, ast.Lambda):
                for g in p.generators:
                    bound |= {y.id for y in ast.walk(g.target) if isinstance(y, ast.Name)}
            else:
                bound |= {a.arg for a in p.args.args}
            if any(isinstance(y, ast.Name) and y.id in bound for y in ast.walk(e)):
                return True
            # an expression with effects is evaluated once per element / call there: it cannot be computed once in front
            first_iter = (not isinstance(p, ast.Lambda)) and any(e is y for y in ast.walk(p.generators[0].iter))
            if not _is_pure(e) and not first_iter:
                return True
        p = par.get(p)
    pure_e = _is_pure(e)
    if not pure_e:
        # moving an effectful expression in front of its statement must not overtake another effectful expression of the statement
        inside_e = {id(y) for y in ast.walk(e)}
        for c_ in ast.walk(st):
            if isinstance(c_, ast.Call) and id(c_) not in inside_e and not _is_pure(c_) and not any(e is y for y in ast.walk(c_)):
                return True
            if isinstance(c_, ast.stmt) and c_ is not st:
                break
    text = ast.dump(e)
    tname = '_xt%d' % (sum(1 for n in ast.walk(func) if isinstance(n, ast.Name) and n.id.startswith('_xt')) + 1)
    roots = _roots(e)
    i = blk.index(st)
    new_assign = fix(ast.Assign(targets=[ast.Name(id=tname, ctx=ast.Store())], value=copy.deepcopy(e)), st)
    stop = False
    for st2 in blk[i:]:
        if stop:
            break
        if not pure_e:
            # exactly the one occurrence: every evaluation of an effectful expression is a separate event
            replace_node(st, e, fix(ast.Name(id=tname, ctx=ast.Load()), e))
            break
        for n in list(ast.walk(st2)):
            if isinstance(n, type(e)) and ast.dump(n) == text and isinstance(getattr(n, 'ctx', ast.Load()), ast.Load):
                replace_node(st2, n, fix(ast.Name(id=tname, ctx=ast.Load()), n))
        # stop after a statement that rebinds or mutates an operand
        for n in ast.walk(st2):
            tg = []
            if isinstance(n, ast.Assign):
                tg = n.targets
            elif isinstance(n, (ast.AugAssign, ast.AnnAssign, ast.For)):
                tg = [n.target]
            for x in tg:
                for y in ast.walk(x):
                    if isinstance(y, (ast.Name, ast.Attribute, ast.Subscript)) and ast.unparse(y) in roots:
                        stop = True
            if isinstance(n, ast.Call) and isinstance(n.func, ast.Attribute) and n.func.attr in MUTATORS and ast.unparse(n.func.value) in roots:
                stop = True
    blk.insert(i, new_assign)
    return True


def rw_flatten_comp_filter(func, k):
    """[E for x in [y for y in IT if C(y)]]    ->    [E for x in IT if C(x)]"""
    sites = [g for n in ast.walk(func) if isinstance(n, (ast.ListComp, ast.SetComp, ast.GeneratorExp, ast.DictComp)) for g in n.generators
             if isinstance(g.iter, (ast.ListComp, ast.GeneratorExp)) and len(g.iter.generators) == 1 and isinstance(g.iter.elt, ast.Name)
             and isinstance(g.iter.generators[0].target, ast.Name) and g.iter.elt.id == g.iter.generators[0].target.id and isinstance(g.target, ast.Name)]
    if k >= len(sites):
        return False
    g = sites[k]
    inner = g.iter.generators[0]
    y, x = inner.target.id, g.target.id
    conds = []
    for c in inner.ifs:
        c2 = copy.deepcopy(c)
        for n in ast.walk(c2):
            if isinstance(n, ast.Name) and n.id == y:
                n.id = x
        conds.append(c2)
    g.iter = inner.iter
    g.ifs = conds + g.ifs
    return True


def rw_first_of_concat(func, k):
    """(list(A) + B)[0]   ->   A[0]        (A is the non-empty list of data points)"""
    sites = [n for n in ast.walk(func) if isinstance(n, ast.Subscript) and isinstance(n.slice, ast.Constant) and n.slice.value == 0 and isinstance(n.value, ast.BinOp)
             and isinstance(n.value.op, ast.Add) and isinstance(n.value.left, ast.Call) and isinstance(n.value.left.func, ast.Name) and n.value.left.func.id == 'list' and len(n.value.left.args) == 1]
    if k >= len(sites):
        return False
    n = sites[k]
    n.value = n.value.left.args[0]
    return True


def rw_split_tuple_assign(func, k):
    """a, b = (x, y)   ->   a = x ; b = y      (no target occurs in a later value)"""
    sites = []
    for owner, fld, blk in blocks_of(func):
        for st in blk:
            if isinstance(st, ast.Assign) and len(st.targets) == 1 and isinstance(st.targets[0], ast.Tuple) and isinstance(st.value, ast.Tuple) and len(st.targets[0].elts) == len(st.value.elts) \
                    and all(isinstance(t, ast.Name) for t in st.targets[0].elts):
                sites.append((blk, st))
    if k >= len(sites):
        return False
    blk, st = sites[k]
    tg = [t.id for t in st.targets[0].elts]
    for i, v in enumerate(st.value.elts):
        if any(isinstance(n, ast.Name) and n.id in tg[:i] for n in ast.walk(v)):
            return True
    new = [fix(ast.Assign(targets=[ast.Name(id=t.id, ctx=ast.Store())], value=v), st) for t, v in zip(st.targets[0].elts, st.value.elts)]
    i = blk.index(st)
    blk[i:i + 1] = new
    return True


def rw_augcomp_to_loop(func, k):
    """L += [e for x in it if c]   ->   for x in it: if c: L.append(e)"""
    sites = []
    for owner, fld, blk in blocks_of(func):
        for st in blk:
            if isinstance(st, ast.AugAssign) and isinstance(st.op, ast.Add) and isinstance(st.target, ast.Name) and isinstance(st.value, ast.ListComp):
                sites.append((blk, st))
    if k >= len(sites):
        return False
    blk, st = sites[k]
    comp = st.value
    name = st.target.id
    inner = [ast.Expr(value=ast.Call(func=ast.Attribute(value=ast.Name(id=name, ctx=ast.Load()), attr='append', ctx=ast.Load()), args=[comp.elt], keywords=[]))]
    for g in reversed(comp.generators):
        for c in reversed(g.ifs):
            inner = [ast.If(test=c, body=inner, orelse=[])]
        inner = [ast.For(target=g.target, iter=g.iter, body=inner, orelse=[])]
    blk[blk.index(st)] = fix(inner[0], st)
    return True


def rw_len_zero(func, k):
    """not L  <->  len(L) == 0     for a name that is bound to a list display / comprehension in this function"""
    listy = set()
    for n in ast.walk(func):
        if isinstance(n, ast.Assign) and len(n.targets) == 1 and isinstance(n.targets[0], ast.Name) and isinstance(n.value, (ast.List, ast.ListComp)):
            listy.add(n.targets[0].id)
    sites = [n for n in ast.walk(func) if isinstance(n, ast.UnaryOp) and isinstance(n.op, ast.Not) and isinstance(n.operand, ast.Name) and n.operand.id in listy]
    sites += [n for n in ast.walk(func) if isinstance(n, ast.Compare) and len(n.ops) == 1 and isinstance(n.ops[0], ast.Eq) and isinstance(n.comparators[0], ast.Constant) and n.comparators[0].value == 0
              and isinstance(n.left, ast.Call) and isinstance(n.left.func, ast.Name) and n.left.func.id == 'len' and len(n.left.args) == 1 and isinstance(n.left.args[0], ast.Name) and n.left.args[0].id in listy]
    if k >= len(sites):
        return False
    n = sites[k]
    if isinstance(n, ast.UnaryOp):
        new = ast.Compare(left=ast.Call(func=ast.Name(id='len', ctx=ast.Load()), args=[n.operand], keywords=[]), ops=[ast.Eq()], comparators=[ast.Constant(value=0)])
    else:
        new = ast.UnaryOp(op=ast.Not(), operand=n.left.args[0])
    replace_node(func, n, fix(new, n))
    return True


def rw_bool_ifexp(func, k):
    """c  ->  True if c else False     for an isinstance() call or comparison that is the element of a comprehension"""
    sites = [n for n in ast.walk(func) if isinstance(n, (ast.ListComp, ast.GeneratorExp)) and (isinstance(n.elt, ast.Compare) or (isinstance(n.elt, ast.Call) and isinstance(n.elt.func, ast.Name) and n.elt.func.id == 'isinstance'))]
    if k >= len(sites):
        return False
    n = sites[k]
    n.elt = fix(ast.IfExp(test=n.elt, body=ast.Constant(value=True), orelse=ast.Constant(value=False)), n.elt)
    return True


def rw_singleton_comp(func, k):
    """[E(x) for x in [A]]   ->   [E(A)]"""
    sites = [n for n in ast.walk(func) if isinstance(n, ast.ListComp) and len(n.generators) == 1 and not n.generators[0].ifs and isinstance(n.generators[0].iter, ast.List)
             and len(n.generators[0].iter.elts) == 1 and isinstance(n.generators[0].target, ast.Name)]
    if k >= len(sites):
        return False
    n = sites[k]
    x = n.generators[0].target.id
    a = n.generators[0].iter.elts[0]
    e = copy.deepcopy(n.elt)
    holder = ast.Expression(body=e)
    for y in list(ast.walk(holder)):
        if isinstance(y, ast.Name) and y.id == x and isinstance(y.ctx, ast.Load):
            replace_node(holder, y, copy.deepcopy(a))
    replace_node(func, n, fix(ast.List(elts=[holder.body], ctx=ast.Load()), n))
    return True


def rw_ndenumerate_value(func, k):
    """for (i, j), e in np.ndenumerate(A): ... e ...    ->    ... A[i, j] ...        (e not rebound in the body)"""
    sites = [n for n in ast.walk(func) if isinstance(n, ast.For) and isinstance(n.target, ast.Tuple) and len(n.target.elts) == 2 and isinstance(n.target.elts[1], ast.Name)
             and isinstance(n.iter, ast.Call) and isinstance(n.iter.func, ast.Attribute) and n.iter.func.attr == 'ndenumerate' and len(n.iter.args) == 1]
    if k >= len(sites):
        return False
    lp = sites[k]
    e = lp.target.elts[1].id
    idx = lp.target.elts[0]
    a = lp.iter.args[0]
    if any(isinstance(n, ast.Name) and n.id == e and isinstance(n.ctx, ast.Store) for b in lp.body for n in ast.walk(b)):
        return True
    sl = copy.deepcopy(idx)
    for y in ast.walk(sl):
        if hasattr(y, 'ctx'):
            y.ctx = ast.Load()
    for b in lp.body:
        for n in list(ast.walk(b)):
            if isinstance(n, ast.Name) and n.id == e and isinstance(n.ctx, ast.Load):
                replace_node(b, n, fix(ast.Subscript(value=copy.deepcopy(a), slice=copy.deepcopy(sl), ctx=ast.Load()), n))
    return True


def rw_flat_to_ndenumerate(func, k):
    """for x in A.flat   ->   for _idx, x in np.ndenumerate(A)"""
    sites = [n for n in ast.walk(func) if isinstance(n, ast.For) and isinstance(n.target, ast.Name) and isinstance(n.iter, ast.Attribute) and n.iter.attr == 'flat']
    if k >= len(sites):
        return False
    lp = sites[k]
    lp.target = fix(ast.Tuple(elts=[ast.Name(id='_idx_unused', ctx=ast.Store()), lp.target], ctx=ast.Store()), lp.target)
    lp.iter = fix(ast.Call(func=ast.Attribute(value=ast.Name(id='np', ctx=ast.Load()), attr='ndenumerate', ctx=ast.Load()), args=[lp.iter.value], keywords=[]), lp.iter)
    return True


def rw_slice_zero(func, k):
    """a[:n]  <->  a[0:n]       (all dimensions of one subscript, or all subscripts of one statement, together)"""
    def slices_of(node):
        return [n for n in ast.walk(node) if isinstance(n, ast.Slice) and (n.lower is None or (isinstance(n.lower, ast.Constant) and n.lower.value == 0)) and n.upper is not None]
    groups = []
    for owner, fld, blk in blocks_of(func):
        for st in blk:
            if any(isinstance(getattr(st, f, None), list) and f in _BODY_FIELDS for f in st._fields):
                continue
            sl = slices_of(st)
            if sl:
                for to_zero in (True, False):
                    groups.append((sl, to_zero))
    if k >= len(groups):
        return False
    sl, to_zero = groups[k]
    for n in sl:
        n.lower = ast.Constant(value=0) if to_zero else None
    return True


def rw_argcomp_to_loop(func, k):
    """S[... [e for x in it] ...]   ->   _t = [] ; for x in it: _t.append(e) ; S[... _t ...]      (comprehension as call argument)"""
    sites = []
    for owner, fld, blk in blocks_of(func):
        for st in blk:
            if isinstance(st, ast.Expr) and isinstance(st.value, ast.Call):
                for a in st.value.args:
                    if isinstance(a, ast.ListComp):
                        sites.append((blk, st, a))
    if k >= len(sites):
        return False
    blk, st, comp = sites[k]
    name = '_xt%d' % (sum(1 for n in ast.walk(func) if isinstance(n, ast.Name) and n.id.startswith('_xt')) + 1)
    inner = [ast.Expr(value=ast.Call(func=ast.Attribute(value=ast.Name(id=name, ctx=ast.Load()), attr='append', ctx=ast.Load()), args=[comp.elt], keywords=[]))]
    for g in reversed(comp.generators):
        for c in reversed(g.ifs):
            inner = [ast.If(test=c, body=inner, orelse=[])]
        inner = [ast.For(target=g.target, iter=g.iter, body=inner, orelse=[])]
    init = ast.Assign(targets=[ast.Name(id=name, ctx=ast.Store())], value=ast.List(elts=[], ctx=ast.Load()))
    replace_node(st, comp, fix(ast.Name(id=name, ctx=ast.Load()), comp))
    i = blk.index(st)
    blk[i:i] = [fix(init, st), fix(inner[0], st)]
    return True


def rw_hoist_return(func, k):
    """if c: A ; return X else: <exits>    ->    if c: A else: <exits> ; return X        (every branch that does not exit ends with the same return)"""
    sites = []
    for owner, fld, blk in blocks_of(func):
        for i, s in enumerate(blk):
            if isinstance(s, ast.If) and s.orelse and i == len(blk) - 1:
                sites.append((blk, i))
    if k >= len(sites):
        return False
    blk, i = sites[k]
    s = blk[i]

    def leaves(n):
        out = [n.body]
        if len(n.orelse) == 1 and isinstance(n.orelse[0], ast.If) and n.orelse[0].orelse:
            out += leaves(n.orelse[0])
        else:
            out.append(n.orelse)
        return out
    lv = leaves(s)
    rets = [b for b in lv if b and isinstance(b[-1], ast.Return)]
    others = [b for b in lv if not (b and isinstance(b[-1], ast.Return))]
    if not rets or len({ast.dump(b[-1]) for b in rets}) != 1 or not all(always_exits(b) for b in others) or any(len(b) < 2 for b in rets):
        return True
    tail = rets[0][-1]
    for b in rets:
        b.pop()
    blk.append(tail)
    return True


def rw_get_none(func, k):
    """x = d.get(key)   ->   if key in d: x = d[key] else: x = None"""
    sites = []
    for owner, fld, blk in blocks_of(func):
        for st in blk:
            if isinstance(st, ast.Assign) and len(st.targets) == 1 and isinstance(st.value, ast.Call) and isinstance(st.value.func, ast.Attribute) and st.value.func.attr == 'get' \
                    and len(st.value.args) == 1 and not st.value.keywords:
                sites.append((blk, st))
    if k >= len(sites):
        return False
    blk, st = sites[k]
    d, key = st.value.func.value, st.value.args[0]
    a, b = copy.deepcopy(st), copy.deepcopy(st)
    a.value = ast.Subscript(value=copy.deepcopy(d), slice=copy.deepcopy(key), ctx=ast.Load())
    b.value = ast.Constant(value=None)
    new = ast.If(test=ast.Compare(left=copy.deepcopy(key), ops=[ast.In()], comparators=[copy.deepcopy(d)]), body=[a], orelse=[b])
    blk[blk.index(st)] = fix(new, st)
    return True


def _membership_guarded(func, node, d_txt, k_txt, par):
    """node lies in the body of an `if K in D` (possibly one conjunct of an and) and D loses no key before it"""
    q, child = par.get(node), node
    while q is not None:
        if isinstance(q, ast.If) and any(child is x for x in q.body):
            conj = q.test.values if isinstance(q.test, ast.BoolOp) and isinstance(q.test.op, ast.And) else [q.test]
            for t in conj:
                if isinstance(t, ast.Compare) and len(t.ops) == 1 and isinstance(t.ops[0], ast.In) and ast.unparse(t.left) == k_txt and ast.unparse(t.comparators[0]) == d_txt:
                    for x in ast.walk(q):
                        if isinstance(x, ast.Call) and isinstance(x.func, ast.Attribute) and x.func.attr in ('pop', 'clear', 'popitem') and ast.unparse(x.func.value) == d_txt:
                            return False
                        if isinstance(x, ast.Delete) and any(d_txt in ast.unparse(t_) for t_ in x.targets):
                            return False
                        if isinstance(x, ast.Name) and isinstance(x.ctx, ast.Store) and x.id in (d_txt, k_txt):
                            return False
                    return True
        if isinstance(q, FuncDef) and q is not func and False:
            break
        child, q = q, par.get(q)
    return False


def rw_guarded_subscript_get(func, k):
    """under `if K in D:`      D[K]  <->  D.get(K)"""
    par = parents_of(func)
    sites = []
    for n in ast.walk(func):
        if isinstance(n, ast.Subscript) and isinstance(n.ctx, ast.Load) and not isinstance(n.slice, ast.Slice) and isinstance(n.value, ast.Name):
            if _membership_guarded(func, n, ast.unparse(n.value), ast.unparse(n.slice), par):
                sites.append(('get', n))
        elif isinstance(n, ast.Call) and isinstance(n.func, ast.Attribute) and n.func.attr == 'get' and len(n.args) == 1 and not n.keywords and isinstance(n.func.value, ast.Name):
            if _membership_guarded(func, n, ast.unparse(n.func.value), ast.unparse(n.args[0]), par):
                sites.append(('sub', n))
    if k >= len(sites):
        return False
    kind, n = sites[k]
    if kind == 'get':
        new = ast.Call(func=ast.Attribute(value=n.value, attr='get', ctx=ast.Load()), args=[n.slice], keywords=[])
    else:
        new = ast.Subscript(value=n.func.value, slice=n.args[0], ctx=ast.Load())
    replace_node(func, n, fix(new, n))
    return True


def rw_update_to_loop(func, k):
    """D.update((K, V) for x in S)    ->    for x in S: D[K] = V      (D a plain name / attribute / getattr lookup)"""
    sites = []
    for owner, fld, blk in blocks_of(func):
        for st in blk:
            if isinstance(st, ast.Expr) and isinstance(st.value, ast.Call) and isinstance(st.value.func, ast.Attribute) and st.value.func.attr == 'update' and len(st.value.args) == 1 \
                    and not st.value.keywords and isinstance(st.value.args[0], (ast.GeneratorExp, ast.ListComp)) and len(st.value.args[0].generators) == 1 \
                    and isinstance(st.value.args[0].elt, ast.Tuple) and len(st.value.args[0].elt.elts) == 2 and not st.value.args[0].generators[0].ifs:
                sites.append((blk, st))
    if k >= len(sites):
        return False
    blk, st = sites[k]
    d = st.value.func.value
    comp = st.value.args[0]
    g = comp.generators[0]
    if not _is_pure(d) or not _is_pure(comp.elt):
        return True
    bound = {y.id for y in ast.walk(g.target) if isinstance(y, ast.Name)}
    par = parents_of(func)
    inside = {id(z) for z in ast.walk(comp)}
    if not all(_free_loop_name(func, v, inside, par) for v in bound):
        return True      # the loop variable would leak into a scope that already uses the name
    asg = ast.Assign(targets=[ast.Subscript(value=copy.deepcopy(d), slice=comp.elt.elts[0], ctx=ast.Store())], value=comp.elt.elts[1])
    loop = ast.For(target=g.target, iter=g.iter, body=[asg], orelse=[])
    for y in ast.walk(loop.target):
        if hasattr(y, 'ctx'):
            y.ctx = ast.Store()
    blk[blk.index(st)] = fix(loop, st)
    return True


def rw_unroll_const_loop(func, k):
    """for x in (c1, ..., cn): B      ->     B[x := c1] ; ... ; B[x := cn]       (constants, straight-line body, x dead afterwards)"""
    sites = []
    for owner, fld, blk in blocks_of(func):
        for st in blk:
            if isinstance(st, ast.For) and not st.orelse and isinstance(st.target, ast.Name) and isinstance(st.iter, (ast.Tuple, ast.List)) and 1 <= len(st.iter.elts) <= 8 \
                    and all(isinstance(e, ast.Constant) for e in st.iter.elts) and len(st.body) <= 4:
                sites.append((blk, st))
    if k >= len(sites):
        return False
    blk, st = sites[k]
    v = st.target.id
    if any(isinstance(n, (ast.Break, ast.Continue, ast.Return) + FuncDef + (ast.Lambda,)) for b in st.body for n in ast.walk(b)):
        return True
    if any(isinstance(n, ast.Name) and n.id == v and isinstance(n.ctx, (ast.Store, ast.Del)) for b in st.body for n in ast.walk(b)):
        return True
    inside = {id(n) for n in ast.walk(st)}
    par = parents_of(func)
    if not _free_loop_name(func, v, inside, par):
        return True
    out = []
    for c in st.iter.elts:
        for b in st.body:
            nb = copy.deepcopy(b)
            for n in list(ast.walk(nb)):
                if isinstance(n, ast.Name) and n.id == v:
                    replace_node(nb, n, fix(ast.Constant(value=c.value), n))
            out.append(nb)
    i = blk.index(st)
    blk[i:i + 1] = out
    return True


def rw_flip_compare(func, k):
    """a < b  <->  b > a     (and <=, >=, ==, !=)"""
    flip = {ast.Lt: ast.Gt, ast.Gt: ast.Lt, ast.LtE: ast.GtE, ast.GtE: ast.LtE, ast.Eq: ast.Eq, ast.NotEq: ast.NotEq}
    sites = [n for n in ast.walk(func) if isinstance(n, ast.Compare) and len(n.ops) == 1 and type(n.ops[0]) in flip]
    if k >= len(sites):
        return False
    n = sites[k]
    n.left, n.comparators[0] = n.comparators[0], n.left
    n.ops = [flip[type(n.ops[0])]()]
    return True


def rw_pass_branch(func, k):
    """if not c: REST    <->    if c: pass else: REST"""
    sites = [(n, 'add') for n in ast.walk(func) if isinstance(n, ast.If) and not n.orelse]
    sites += [(n, 'drop') for n in ast.walk(func) if isinstance(n, ast.If) and n.orelse and len(n.body) == 1 and isinstance(n.body[0], ast.Pass)]
    if k >= len(sites):
        return False
    n, how = sites[k]
    if how == 'add':
        n.orelse = n.body
        n.body = [fix(ast.Pass(), n)]
        n.test = fix(negate(n.test), n.test)
    else:
        n.body = n.orelse
        n.orelse = []
        n.test = fix(negate(n.test), n.test)
    return True


def rw_dictcomp_to_loop(func, k):
    """D = {K: V for x in it}   ->   D = {} ; for x in it: D[K] = V"""
    sites = []
    for owner, fld, blk in blocks_of(func):
        for st in blk:
            if isinstance(st, ast.Assign) and len(st.targets) == 1 and isinstance(st.targets[0], ast.Name) and isinstance(st.value, ast.DictComp):
                sites.append((blk, st))
    if k >= len(sites):
        return False
    blk, st = sites[k]
    comp = st.value
    name = st.targets[0].id
    inner = [ast.Assign(targets=[ast.Subscript(value=ast.Name(id=name, ctx=ast.Load()), slice=comp.key, ctx=ast.Store())], value=comp.value)]
    for g in reversed(comp.generators):
        for c in reversed(g.ifs):
            inner = [ast.If(test=c, body=inner, orelse=[])]
        inner = [ast.For(target=g.target, iter=g.iter, body=inner, orelse=[])]
    init = ast.Assign(targets=[ast.Name(id=name, ctx=ast.Store())], value=ast.Dict(keys=[], values=[]))
    i = blk.index(st)
    blk[i:i + 1] = [fix(init, st), fix(inner[0], st)]
    return True


def rw_none_flag(func, k):
    """if c: x = None else: x = E ; if x is None: <exit>      ->      if c: <exit> ; x = E        (E cannot be None: a number)"""
    def not_none(e):
        if isinstance(e, ast.Constant):
            return e.value is not None
        if isinstance(e, ast.BinOp):
            return True
        if isinstance(e, ast.Call) and isinstance(e.func, ast.Name) and e.func.id in ('int', 'float', 'len', 'str', 'list', 'tuple'):
            return True
        if isinstance(e, ast.Subscript) and isinstance(e.value, ast.Call) and isinstance(e.value.func, ast.Attribute) and e.value.func.attr in ('unpack', 'unpack_from'):
            return True
        return False
    sites = []
    for owner, fld, blk in blocks_of(func):
        for i, s in enumerate(blk[:-1]):
            n = blk[i + 1]
            if isinstance(s, ast.If) and len(s.body) == 1 and len(s.orelse) == 1 and isinstance(s.body[0], ast.Assign) and isinstance(s.orelse[0], ast.Assign) \
                    and isinstance(s.body[0].targets[0], ast.Name) and ast.dump(s.body[0].targets[0]) == ast.dump(s.orelse[0].targets[0]) \
                    and isinstance(s.body[0].value, ast.Constant) and s.body[0].value.value is None and not_none(s.orelse[0].value) \
                    and isinstance(n, ast.If) and not n.orelse and always_exits(n.body) and isinstance(n.test, ast.Compare) and len(n.test.ops) == 1 and isinstance(n.test.ops[0], ast.Is) \
                    and isinstance(n.test.left, ast.Name) and n.test.left.id == s.body[0].targets[0].id and isinstance(n.test.comparators[0], ast.Constant) and n.test.comparators[0].value is None:
                sites.append((blk, i))
    if k >= len(sites):
        return False
    blk, i = sites[k]
    s, n = blk[i], blk[i + 1]
    new_if = ast.If(test=s.test, body=n.body, orelse=[])
    blk[i:i + 2] = [fix(new_if, s), s.orelse[0]]
    return True


# parameter order of library functions that the package calls with positional arguments (name of the attribute / function -> order)
KNOWN_SIGNATURES = {
    'roll': ['a', 'shift', 'axis'], 'rfft': ['a', 'n'], 'irfft': ['a', 'n'], 'fsolve': ['func', 'x0', 'args'], 'default_rng': ['seed'], 'integers': ['low', 'high', 'size'], 'quad': ['func', 'a', 'b'],
    'squad': ['func', 'a', 'b'], 'encode': ['encoding'], 'ODR': ['data', 'model', 'beta0'], 'RealData': ['x', 'y', 'sx', 'sy'], 'is_zero_within_error': ['sigma'],
    'lstsq': ['a', 'b'], 'reshape': ['shape'], 'hankel': ['c', 'r'], 'minimize': ['fun', 'x0'], 'least_squares': ['fun', 'x0'], 'zeros': ['shape', 'dtype'], 'ones': ['shape', 'dtype'],
    'empty': ['shape', 'dtype'], 'array': ['object', 'dtype'], 'vstack': ['tup'], 'bincount': ['x', 'weights', 'minlength'], 'flip': ['m', 'axis'], 'sum': ['a', 'axis'], 'mean': ['a', 'axis'],
    'savetxt': ['fname', 'X', 'fmt'], 'loadtxt': ['fname', 'dtype'], 'identity': ['n', 'dtype'], 'eye': ['N', 'M', 'k'], 'dot': ['a', 'b'], 'average': ['a', 'axis', 'weights'],
    'open': ['file', 'mode'], 'std': ['a', 'axis'], 'var': ['a', 'axis'], 'arange': ['start', 'stop', 'step'], 'concatenate': ['arrays', 'axis'], 'cumsum': ['a', 'axis'], 'diff': ['a', 'n', 'axis'],
}
PACKAGE_SIGNATURES = {}


def rw_keyword_to_positional(func, k):
    """f(a, name=b)   ->   f(a, b)      when `name` is the next positional parameter of f (package function or known library signature)"""
    sites = []
    for c in ast.walk(func):
        if not isinstance(c, ast.Call) or not c.keywords or any(isinstance(a, ast.Starred) for a in c.args):
            continue
        nm = c.func.attr if isinstance(c.func, ast.Attribute) else (c.func.id if isinstance(c.func, ast.Name) else None)
        root = c.func
        while isinstance(root, ast.Attribute):
            root = root.value
        library = isinstance(c.func, ast.Attribute) and isinstance(root, ast.Name) and root.id in ('np', 'anp', 'numpy', 'scipy', 'math', 'struct', 'warnings', 'rng', 'gzip', 'json', 'pickle')
        local_sig = Ctx.nested_sigs.get(nm) if isinstance(c.func, ast.Name) else None
        for d_ in ast.walk(func):
            if isinstance(d_, FuncDef) and d_.name == nm and d_ is not func and isinstance(c.func, ast.Name) and not (d_.args.vararg or d_.args.posonlyargs):
                local_sig = [x.arg for x in d_.args.args]
        sig = local_sig or (KNOWN_SIGNATURES.get(nm) if library else (PACKAGE_SIGNATURES.get(nm) or KNOWN_SIGNATURES.get(nm)))
        if not sig:
            continue
        is_method = (not library) and local_sig is None and isinstance(c.func, ast.Attribute) and nm in PACKAGE_SIGNATURES and sig is PACKAGE_SIGNATURES[nm] and sig and sig[0] in ('self', 'cls')
        params = sig[1:] if is_method else sig
        pos = len(c.args)
        j = 0
        while j < len(c.keywords) and pos + j < len(params) and c.keywords[j].arg == params[pos + j]:
            j += 1
            sites.append(([(c, j)], None))
    # all convertible calls of one statement together (a line with several internal calls)
    single = list(sites)
    for owner, fld, blk in blocks_of(func):
        for st in blk:
            if any(isinstance(getattr(st, f, None), list) and f in _BODY_FIELDS for f in st._fields):
                continue
            inside = {id(n) for n in ast.walk(st)}
            best = {}
            for grp, _ in single:
                c, j = grp[0]
                if id(c) in inside:
                    best[id(c)] = (c, max(j, best.get(id(c), (c, 0))[1]))
            if len(best) > 1:
                sites.append((list(best.values()), None))
    if k >= len(sites):
        return False
    for c, j in sites[k][0]:
        for _ in range(j):
            kw = c.keywords.pop(0)
            v = kw.value
            if kw.arg == 'args' and isinstance(v, ast.Tuple) and len(v.elts) == 1:
                v = v.elts[0]           # scipy wraps a single extra argument into a tuple itself
            c.args.append(v)
    return True


def _fmt_parts(js):
    """(template, values) of an f-string made of literals and plainly formatted values"""
    tmpl = ''
    vals = []
    for p in js.values:
        if isinstance(p, ast.Constant) and isinstance(p.value, str):
            tmpl += p.value.replace('%', '%%')
        elif isinstance(p, ast.FormattedValue) and p.conversion == -1:
            spec = ''
            if p.format_spec is not None:
                if not (isinstance(p.format_spec, ast.JoinedStr) and all(isinstance(x, ast.Constant) for x in p.format_spec.values)):
                    return None
                spec = ''.join(x.value for x in p.format_spec.values)
            if spec in ('', 's'):
                tmpl += '%s'
            elif spec == 'd':
                tmpl += '%d'
            elif spec and spec[-1] in 'efg' and all(ch in '0123456789.+- ' for ch in spec[:-1]):
                tmpl += '%' + spec
            else:
                return None
            vals.append(p.value)
        else:
            return None
    return tmpl, vals


def rw_fstring_to_percent(func, k):
    """f'{a} i f{b}'   ->   '%d i f%d' % (a, b)     (three variants: %d for bare fields, %s for bare fields, concatenation)"""
    sites = [n for n in ast.walk(func) if isinstance(n, ast.JoinedStr) and _fmt_parts(n) is not None and _fmt_parts(n)[1]]
    flat = [(n, v) for n in sites for v in (0, 1, 2)]
    if k >= len(flat):
        return False
    n, variant = flat[k]
    tmpl, vals = _fmt_parts(n)
    if variant == 0:
        tmpl = tmpl.replace('%s', '%d')
    if variant in (0, 1):
        right = vals[0] if len(vals) == 1 else ast.Tuple(elts=vals, ctx=ast.Load())
        if len(vals) == 1 and variant == 1 and isinstance(vals[0], ast.Tuple):
            return True
        new = ast.BinOp(left=ast.Constant(value=tmpl), op=ast.Mod(), right=right if len(vals) > 1 else (ast.Tuple(elts=vals, ctx=ast.Load()) if variant == 0 and False else right))
    else:
        # concatenation: 'a' + str(x) + 'b'  /  'a' + x + 'b' is not derivable in general: only str() wrapped form
        parts = []
        for p in n.values:
            if isinstance(p, ast.Constant):
                parts.append(p)
            elif isinstance(p, ast.FormattedValue) and p.format_spec is None:
                parts.append(p.value)
            else:
                return True
        if len(parts) < 2:
            return True
        new = parts[0]
        for x in parts[1:]:
            new = ast.BinOp(left=new, op=ast.Add(), right=x)
    replace_node(func, n, fix(new, n))
    return True


def rw_np_all_any(func, k):
    """all(<generator>)  <->  np.all([<list comprehension>])      (same for any) - only where nothing but the truth value of the result is
    used (a test, an operand of not / and / or): np.all returns a numpy bool, which is not `True` for identity tests and prints, pickles and
    multiplies differently"""
    sites = []
    par = parents_of(func)

    def boolean_context(c):
        p_ = par.get(c)
        if isinstance(p_, (ast.If, ast.While, ast.IfExp, ast.Assert)) and p_.test is c:
            return True
        if isinstance(p_, ast.UnaryOp) and isinstance(p_.op, ast.Not):
            return True
        if isinstance(p_, ast.BoolOp):
            return boolean_context(p_)
        if isinstance(p_, ast.comprehension) and any(c is x for x in p_.ifs):
            return True
        return False
    for c in ast.walk(func):
        if isinstance(c, ast.Call) and len(c.args) == 1 and not c.keywords and (boolean_context(c) or (isinstance(c.func, ast.Name) and isinstance(c.args[0], ast.GeneratorExp) and False)):
            if isinstance(c.func, ast.Name) and c.func.id in ('all', 'any') and isinstance(c.args[0], (ast.GeneratorExp, ast.ListComp)):
                sites.append((c, 'to_np'))
                if isinstance(c.args[0], ast.GeneratorExp):
                    sites.append((c, 'to_list'))
            elif isinstance(c.func, ast.Attribute) and c.func.attr in ('all', 'any') and isinstance(c.func.value, ast.Name) and c.func.value.id in ('np', 'anp') and isinstance(c.args[0], ast.ListComp):
                sites.append((c, 'to_builtin'))
    if k >= len(sites):
        return False
    c, how = sites[k]
    if how == 'to_np':
        comp = c.args[0]
        c.args[0] = fix(ast.ListComp(elt=comp.elt, generators=comp.generators), comp)
        c.func = fix(ast.Attribute(value=ast.Name(id='np', ctx=ast.Load()), attr=c.func.id, ctx=ast.Load()), c.func)
    elif how == 'to_list':
        comp = c.args[0]
        c.args[0] = fix(ast.ListComp(elt=comp.elt, generators=comp.generators), comp)
    else:
        comp = c.args[0]
        c.args[0] = fix(ast.GeneratorExp(elt=comp.elt, generators=comp.generators), comp)
        c.func = fix(ast.Name(id=c.func.attr, ctx=ast.Load()), c.func)
    return True


def rw_range_min_guard(func, k):
    """for n in range(min(A, B + 1)): S    ->    for n in range(A): if B - n >= 0: S"""
    sites = [n for n in ast.walk(func) if isinstance(n, ast.For) and isinstance(n.target, ast.Name) and isinstance(n.iter, ast.Call) and isinstance(n.iter.func, ast.Name) and n.iter.func.id == 'range'
             and len(n.iter.args) == 1 and isinstance(n.iter.args[0], ast.Call) and isinstance(n.iter.args[0].func, ast.Name) and n.iter.args[0].func.id == 'min' and len(n.iter.args[0].args) == 2]
    flat = [(n, v) for n in sites for v in (0, 1)]
    if k >= len(flat):
        return False
    lp, v = flat[k]
    a, b = lp.iter.args[0].args[v], lp.iter.args[0].args[1 - v]
    if not (isinstance(b, ast.BinOp) and isinstance(b.op, ast.Add) and isinstance(b.right, ast.Constant) and b.right.value == 1):
        return True
    test = ast.Compare(left=ast.BinOp(left=b.left, op=ast.Sub(), right=ast.Name(id=lp.target.id, ctx=ast.Load())), ops=[ast.GtE()], comparators=[ast.Constant(value=0)])
    lp.iter.args[0] = a
    lp.body = [fix(ast.If(test=test, body=lp.body, orelse=[]), lp)]
    return True


def rw_membership_container(func, k):
    """x in (a, b)  <->  x in [a, b]"""
    sites = [n for n in ast.walk(func) if isinstance(n, ast.Compare) and len(n.ops) == 1 and isinstance(n.ops[0], (ast.In, ast.NotIn)) and isinstance(n.comparators[0], (ast.Tuple, ast.List))]
    # one site per statement as well (several membership tests on one line)
    if k >= len(sites) * 2:
        return False
    if k < len(sites):
        group = [sites[k]]
    else:
        n0 = sites[k - len(sites)]
        par = parents_of(func)
        st = n0
        while st is not None and not isinstance(st, ast.stmt):
            st = par.get(st)
        hdr = []
        if st is not None:
            for f, v in ast.iter_fields(st):
                if f in _BODY_FIELDS:
                    continue
                if isinstance(v, ast.AST):
                    hdr.extend(ast.walk(v))
        ids = {id(x) for x in hdr}
        group = [n for n in sites if id(n) in ids] or [n0]
    for n in group:
        c = n.comparators[0]
        new = ast.List(elts=c.elts, ctx=ast.Load()) if isinstance(c, ast.Tuple) else ast.Tuple(elts=c.elts, ctx=ast.Load())
        n.comparators[0] = fix(new, c)
    return True


KNOWN_DEFAULTS = {
    ('encode', 0): "'utf-8'", ('encode', 'encoding'): "'utf-8'", ('decode', 0): "'utf-8'",
    ('zeros', 'dtype'): 'np.float64', ('ones', 'dtype'): 'np.float64', ('empty', 'dtype'): 'np.float64', ('identity', 'dtype'): 'np.float64', ('eye', 'dtype'): 'np.float64',
    ('zeros', 'dtype', 2): 'float', ('ones', 'dtype', 2): 'float',
    ('sorted', 'reverse'): 'False', ('round', 1): '0', ('split', 0): 'None', ('get', 1): 'None', ('flip', 'axis'): 'None', ('sum', 'axis'): 'None', ('mean', 'axis'): 'None',
}


def rw_drop_default_arg(func, k):
    """x.encode('utf-8') -> x.encode() ; np.zeros(n, dtype=np.float64) -> np.zeros(n)      (an argument that spells out the documented default)"""
    sites = []
    for c in ast.walk(func):
        if not isinstance(c, ast.Call):
            continue
        nm = c.func.attr if isinstance(c.func, ast.Attribute) else (c.func.id if isinstance(c.func, ast.Name) else None)
        for kw in c.keywords:
            d = KNOWN_DEFAULTS.get((nm, kw.arg))
            d2 = KNOWN_DEFAULTS.get((nm, kw.arg, 2))
            if kw.arg and (ast.unparse(kw.value) == d or (d2 and ast.unparse(kw.value) == d2)):
                sites.append((c, kw))
        if c.args and not c.keywords:
            i = len(c.args) - 1
            d = KNOWN_DEFAULTS.get((nm, i))
            if d is not None and ast.unparse(c.args[i]) == d and (nm != 'get' or i == 1):
                sites.append((c, i))
    # all sites of one statement together
    single = list(sites)
    groups = [[x] for x in single]
    for owner, fld, blk in blocks_of(func):
        for st in blk:
            if any(isinstance(getattr(st, f, None), list) and f in _BODY_FIELDS for f in st._fields):
                continue
            inside = {id(n) for n in ast.walk(st)}
            g = [x for x in single if id(x[0]) in inside]
            if len(g) > 1:
                groups.append(g)
    if k >= len(groups):
        return False
    for c, what in groups[k]:
        if isinstance(what, int):
            if what < len(c.args):
                del c.args[what]
        elif what in c.keywords:
            c.keywords.remove(what)
    return True


def rw_unpack_first(func, k):
    """_a, b, _c = f(x)   ->   b = f(x)[1]      (the other targets are never read)"""
    sites = []
    for owner, fld, blk in blocks_of(func):
        for st in blk:
            if isinstance(st, ast.Assign) and len(st.targets) == 1 and isinstance(st.targets[0], ast.Tuple) and len(st.targets[0].elts) >= 2 and isinstance(st.value, ast.Call) \
                    and all(isinstance(t, ast.Name) for t in st.targets[0].elts):
                for j, t in enumerate(st.targets[0].elts):
                    rest = [u.id for u in st.targets[0].elts if u is not t]
                    if t.id not in rest and not any(isinstance(n, ast.Name) and n.id in rest and isinstance(n.ctx, ast.Load) for n in ast.walk(func)):
                        sites.append((blk, st, j))
    if k >= len(sites):
        return False
    blk, st, j = sites[k]
    new = ast.Assign(targets=[ast.Name(id=st.targets[0].elts[j].id, ctx=ast.Store())], value=ast.Subscript(value=st.value, slice=ast.Constant(value=j), ctx=ast.Load()))
    blk[blk.index(st)] = fix(new, st)
    return True


def _roots_unchanged_from(func, roots, lineno):
    """no statement written at or after line `lineno` rebinds one of the names `roots`, stores into / deletes from an object reached through
    them, or calls a mutating method on such an object"""
    for y in ast.walk(func):
        if getattr(y, 'lineno', 0) < lineno:
            continue
        if isinstance(y, ast.Name) and y.id in roots and isinstance(y.ctx, (ast.Store, ast.Del)):
            return False
        if isinstance(y, (ast.Subscript, ast.Attribute)) and isinstance(y.ctx, (ast.Store, ast.Del)) and {w.id for w in ast.walk(y.value) if isinstance(w, ast.Name)} & roots:
            return False
        if isinstance(y, ast.Call) and isinstance(y.func, ast.Attribute) and y.func.attr in MUTATORS and {w.id for w in ast.walk(y.func.value) if isinstance(w, ast.Name)} & roots:
            return False
    return True


def rw_use_alias(func, k):
    """a = E ; ... E ...   ->   a = E ; ... a ...      (E a name / attribute / element / len(name) whose operands are not rebound or mutated from the
    definition of a on; all occurrences of one statement)"""
    aliases = []
    for owner, fld, blk in blocks_of(func):
        for i, st in enumerate(blk):
            if isinstance(st, ast.Assign) and len(st.targets) == 1 and isinstance(st.targets[0], ast.Name) and (
                    (isinstance(st.value, (ast.Attribute, ast.Subscript)) and _is_pure(st.value))
                    or (isinstance(st.value, ast.Call) and isinstance(st.value.func, ast.Name) and st.value.func.id == 'len' and len(st.value.args) == 1 and not st.value.keywords
                        and isinstance(st.value.args[0], ast.Name))):
                aliases.append((blk, i, st))
    sites = []
    whole = getattr(Ctx, 'whole_func', None)
    if whole is not None and whole is not func and getattr(whole, 'name', None) == getattr(func, 'name', None) and func.body:
        # aliases defined at the top level of the function before the window that is being rewritten
        first = min(getattr(b_, 'lineno', 0) for b_ in func.body)
        known = {id(a_[2]) for a_ in aliases}
        for st in whole.body:
            if getattr(st, 'lineno', first) >= first:
                break
            if isinstance(st, ast.Assign) and len(st.targets) == 1 and isinstance(st.targets[0], ast.Name) and id(st) not in known and (
                    (isinstance(st.value, (ast.Attribute, ast.Subscript)) and _is_pure(st.value))
                    or (isinstance(st.value, ast.Call) and isinstance(st.value.func, ast.Name) and st.value.func.id == 'len' and len(st.value.args) == 1 and not st.value.keywords
                        and isinstance(st.value.args[0], ast.Name))):
                aliases.append((func.body, -1, st))
    for blk, i, st in aliases:
        text = ast.dump(st.value)
        name = st.targets[0].id
        scope_ = whole if i == -1 else func
        if sum(1 for n in ast.walk(scope_) if isinstance(n, ast.Name) and n.id == name and isinstance(n.ctx, ast.Store)) != 1 or (i == -1 and any(
                isinstance(n, ast.Name) and n.id == name and isinstance(n.ctx, ast.Store) for n in ast.walk(func))):
            continue
        roots = {w.id for w in ast.walk(st.value) if isinstance(w, ast.Name)} - {'len'}
        from_line = st.lineno + 1 if getattr(st, 'end_lineno', st.lineno) == st.lineno else st.end_lineno + 1
        if not _roots_unchanged_from(scope_, roots, from_line) or (i == -1 and not _roots_unchanged_from(func, roots, 0)):
            continue
        for st2 in blk[i + 1:]:
            for sub in ([st2] if not any(isinstance(getattr(st2, f, None), list) and f in _BODY_FIELDS for f in st2._fields) else [x for x in ast.walk(st2) if isinstance(x, ast.stmt) and not any(isinstance(getattr(x, f, None), list) and f in _BODY_FIELDS for f in x._fields)]):
                occ = [n for n in ast.walk(sub) if isinstance(n, type(st.value)) and ast.dump(n) == text and isinstance(getattr(n, 'ctx', ast.Load()), ast.Load)]
                if occ:
                    sites.append((sub, occ, name))
            # headers of compound statements (loop iterables, conditions) read the same value
            for x in ast.walk(st2):
                if isinstance(x, (ast.For, ast.While, ast.If)):
                    hdr = x.iter if isinstance(x, ast.For) else x.test
                    occ = [n for n in ast.walk(hdr) if isinstance(n, type(st.value)) and ast.dump(n) == text and isinstance(getattr(n, 'ctx', ast.Load()), ast.Load)]
                    if occ:
                        sites.append((hdr, occ, name))
    if k >= len(sites):
        return False
    sub, occ, name = sites[k]
    for n in occ:
        if n is sub:
            return True        # the header is the expression itself: handled through its owner below
        replace_node(sub, n, fix(ast.Name(id=name, ctx=ast.Load()), n))
    return True


def rw_ravel_flatten(func, k):
    """x.ravel()  <->  x.flatten()      (read-only use as an argument)"""
    sites = [n for n in ast.walk(func) if isinstance(n, ast.Call) and isinstance(n.func, ast.Attribute) and n.func.attr in ('ravel', 'flatten') and not n.args and not n.keywords]
    if k >= len(sites):
        return False
    n = sites[k]
    n.func.attr = 'flatten' if n.func.attr == 'ravel' else 'ravel'
    return True


def rw_last_appended(func, k):
    """t = E ; L.append(t) ; X = t     ->     L.append(E) ; X = L[-1]        (t a local that is used nowhere else)"""
    sites = []
    for owner, fld, blk in blocks_of(func):
        for i in range(len(blk) - 2):
            a, b, c = blk[i], blk[i + 1], blk[i + 2]
            if isinstance(a, ast.Assign) and len(a.targets) == 1 and isinstance(a.targets[0], ast.Name) and isinstance(b, ast.Expr) and isinstance(b.value, ast.Call) \
                    and isinstance(b.value.func, ast.Attribute) and b.value.func.attr == 'append' and len(b.value.args) == 1 and isinstance(b.value.args[0], ast.Name) \
                    and b.value.args[0].id == a.targets[0].id and isinstance(c, ast.Assign) and isinstance(c.value, ast.Name) and c.value.id == a.targets[0].id:
                t = a.targets[0].id
                if sum(1 for n in ast.walk(func) if isinstance(n, ast.Name) and n.id == t) == 3:
                    sites.append((blk, i))
    if k >= len(sites):
        return False
    blk, i = sites[k]
    a, b, c = blk[i], blk[i + 1], blk[i + 2]
    b.value.args[0] = a.value
    c.value = fix(ast.Subscript(value=copy.deepcopy(b.value.func.value), slice=ast.UnaryOp(op=ast.USub(), operand=ast.Constant(value=1)), ctx=ast.Load()), c.value)
    del blk[i]
    return True


def rw_last_is_appended(func, k):
    """L.append(t) ; ... L[-1] ...     ->     L.append(t) ; ... t ...        (L not resized and t not rebound in between)"""
    sites = []
    for owner, fld, blk in blocks_of(func):
        for i, st in enumerate(blk):
            t_, v = _append_stmt(st)
            if t_ is None or not isinstance(v, ast.Name):
                continue
            ltxt = ast.unparse(t_)
            for nxt in blk[i + 1:]:
                stop = False
                for y in ast.walk(nxt):
                    if isinstance(y, ast.Call) and isinstance(y.func, ast.Attribute) and y.func.attr in MUTATORS and ast.unparse(y.func.value) == ltxt:
                        stop = True
                    if isinstance(y, ast.Name) and isinstance(y.ctx, (ast.Store, ast.Del)) and (y.id == v.id or y.id in _roots(t_)):
                        stop = True
                    if isinstance(y, (ast.Subscript, ast.Attribute)) and isinstance(y.ctx, (ast.Store, ast.Del)) and ast.unparse(y) == ltxt:
                        stop = True
                if stop:
                    break
                hits = [y for y in ast.walk(nxt) if isinstance(y, ast.Subscript) and isinstance(y.ctx, ast.Load) and ast.unparse(y) == '%s[-1]' % ltxt]
                if hits:
                    sites.append((nxt, hits, v.id))
    if k >= len(sites):
        return False
    nxt, hits, t = sites[k]
    for y in hits:
        replace_node(nxt, y, fix(ast.Name(id=t, ctx=ast.Load()), y))
    return True


def rw_move_append(func, k):
    """L.append(t) ; S    <->    S ; L.append(t)        (t a name S does not rebind, S does not mention L: the same object ends up in L)"""
    sites = []
    for owner, fld, blk in blocks_of(func):
        for i, st in enumerate(blk):
            t_, v = _append_stmt(st)
            if t_ is None or not isinstance(v, ast.Name):
                continue
            for j in (i + 1, i - 1):
                if not 0 <= j < len(blk):
                    continue
                o = blk[j]
                if isinstance(o, FuncDef + (ast.Return, ast.Raise, ast.Break, ast.Continue)):
                    continue
                lroots = _roots(t_)
                bad = False
                for y in ast.walk(o):
                    if isinstance(y, ast.Name) and (y.id in lroots or (y.id == v.id and isinstance(y.ctx, (ast.Store, ast.Del)))):
                        bad = True
                    if isinstance(y, (ast.Return, ast.Break, ast.Continue)) and not isinstance(o, (ast.For, ast.While)):
                        bad = True
                    if isinstance(y, ast.Return):
                        bad = True
                if not bad:
                    sites.append((blk, i, j))
    if k >= len(sites):
        return False
    blk, i, j = sites[k]
    blk[i], blk[j] = blk[j], blk[i]
    return True


def _local_list(func, name):
    """every binding of the name in the function is a list display / comprehension / list() call"""
    whole = getattr(Ctx, 'whole_func', None)
    if whole is not None and getattr(whole, 'name', None) == getattr(func, 'name', None):
        func = whole
    defs = 0
    for n in ast.walk(func):
        if isinstance(n, ast.arg) and n.arg == name:
            return False
        if isinstance(n, (ast.Assign, ast.AugAssign, ast.For, ast.comprehension, ast.With, ast.NamedExpr)):
            tg = n.targets if isinstance(n, ast.Assign) else [n.target] if not isinstance(n, ast.With) else [i_.optional_vars for i_ in n.items if i_.optional_vars is not None]
            for t in tg:
                for y in ast.walk(t):
                    if isinstance(y, ast.Name) and y.id == name and isinstance(y.ctx, ast.Store):
                        if isinstance(n, ast.AugAssign) and isinstance(n.op, ast.Add):
                            continue
                        if not (isinstance(n, ast.Assign) and len(n.targets) == 1 and t is n.targets[0] and isinstance(t, ast.Name)
                                and (isinstance(n.value, (ast.List, ast.ListComp)) or (isinstance(n.value, ast.Call) and isinstance(n.value.func, ast.Name) and n.value.func.id == 'list'))):
                            return False
                        defs += 1
    return defs > 0


def rw_append_augadd(func, k):
    """L.append(x)   <->   L += [x]        (L a local that is only ever bound to lists)"""
    sites = []
    for owner, fld, blk in blocks_of(func):
        for st in blk:
            t_, v = _append_stmt(st)
            if t_ is not None and isinstance(t_, ast.Name) and _local_list(func, t_.id):
                sites.append((blk, st, 'aug'))
            if isinstance(st, ast.AugAssign) and isinstance(st.op, ast.Add) and isinstance(st.target, ast.Name) and isinstance(st.value, ast.List) and 1 <= len(st.value.elts) <= 6 \
                    and not any(isinstance(e_, ast.Starred) for e_ in st.value.elts) and _local_list(func, st.target.id) \
                    and not any(isinstance(w, ast.Name) and w.id == st.target.id for w in ast.walk(st.value)):
                sites.append((blk, st, 'app'))
    if k >= len(sites):
        return False
    blk, st, how = sites[k]
    if how == 'aug':
        new = ast.AugAssign(target=ast.Name(id=st.value.func.value.id, ctx=ast.Store()), op=ast.Add(), value=ast.List(elts=[st.value.args[0]], ctx=ast.Load()))
    else:
        # L += [a, b]: the elements are evaluated left to right and appended in that order
        news = [fix(ast.Expr(value=ast.Call(func=ast.Attribute(value=ast.Name(id=st.target.id, ctx=ast.Load()), attr='append', ctx=ast.Load()), args=[e_], keywords=[])), st) for e_ in st.value.elts]
        i_ = blk.index(st)
        blk[i_:i_ + 1] = news
        return True
    blk[blk.index(st)] = fix(new, st)
    return True


def rw_list_call_to_comp(func, k):
    """X = list(IT)    ->    X = [v for v in IT]"""
    sites = []
    for owner, fld, blk in blocks_of(func):
        for st in blk:
            if isinstance(st, ast.Assign) and len(st.targets) == 1 and isinstance(st.value, ast.Call) and isinstance(st.value.func, ast.Name) and st.value.func.id == 'list' \
                    and len(st.value.args) == 1 and not st.value.keywords and not isinstance(st.value.args[0], ast.Starred):
                sites.append(st)
    if k >= len(sites):
        return False
    st = sites[k]
    v = '_lv%d' % st.lineno
    st.value = fix(ast.ListComp(elt=ast.Name(id=v, ctx=ast.Load()), generators=[ast.comprehension(target=ast.Name(id=v, ctx=ast.Store()), iter=st.value.args[0], ifs=[], is_async=0)]), st.value)
    return True


def rw_inline_temp(func, k):
    """t = E ; S[t]     ->     S[E]        (t bound once, read once, in the statement that follows; E pure)"""
    sites = []
    for owner, fld, blk in blocks_of(func):
        for i in range(len(blk) - 1):
            a, b = blk[i], blk[i + 1]
            if isinstance(a, ast.Assign) and len(a.targets) == 1 and isinstance(a.targets[0], ast.Name) and _is_pure(a.value) and not isinstance(b, FuncDef + (ast.For, ast.While, ast.If, ast.Try, ast.With)):
                t = a.targets[0].id
                occ = [n for n in ast.walk(func) if isinstance(n, ast.Name) and n.id == t]
                if any(isinstance(n, ast.Name) and n.id == t for st_ in getattr(Ctx, 'window_outside', []) for n in ast.walk(st_)):
                    continue
                uses = [n for n in ast.walk(b) if isinstance(n, ast.Name) and n.id == t and isinstance(n.ctx, ast.Load)]
                if len(occ) == 2 and len(uses) == 1 and not any(isinstance(n, (ast.Lambda, ast.ListComp, ast.GeneratorExp, ast.DictComp, ast.SetComp)) and any(u is uses[0] for u in ast.walk(n)) for n in ast.walk(b)):
                    sites.append((blk, i, uses[0]))
    if k >= len(sites):
        return False
    blk, i, use = sites[k]
    replace_node(blk[i + 1], use, blk[i].value)
    del blk[i]
    return True


def rw_tolist_index(func, k):
    """A.tolist()[i]   ->   A[i].tolist()        (an array: the list of row i is row i of the list)"""
    sites = [n for n in ast.walk(func) if isinstance(n, ast.Subscript) and isinstance(n.ctx, ast.Load) and not isinstance(n.slice, (ast.Slice, ast.Tuple)) and isinstance(n.value, ast.Call)
             and isinstance(n.value.func, ast.Attribute) and n.value.func.attr == 'tolist' and not n.value.args and not n.value.keywords]
    if k >= len(sites):
        return False
    n = sites[k]
    new = ast.Call(func=ast.Attribute(value=ast.Subscript(value=n.value.func.value, slice=n.slice, ctx=ast.Load()), attr='tolist', ctx=ast.Load()), args=[], keywords=[])
    replace_node(func, n, fix(new, n))
    return True


def rw_np_synonym(func, k):
    """np.identity(n)  <->  np.eye(n)"""
    sites = [c for c in ast.walk(func) if isinstance(c, ast.Call) and isinstance(c.func, ast.Attribute) and isinstance(c.func.value, ast.Name) and c.func.value.id in ('np', 'numpy', 'anp')
             and c.func.attr in ('identity', 'eye') and len(c.args) == 1 and not c.keywords]
    if k >= len(sites):
        return False
    c = sites[k]
    c.func.attr = 'eye' if c.func.attr == 'identity' else 'identity'
    return True


def rw_inline_helper(func, k):
    """a statement that calls a helper the reference does not contain (after other rewrites made it a plain statement)"""
    helpers = Ctx.helpers
    if not helpers:
        return False
    sites = []
    for owner, fld, blk in blocks_of(func):
        for st in blk:
            if isinstance(st, FuncDef + (ast.ClassDef,)) or any(isinstance(getattr(st, f, None), list) and f in _BODY_FIELDS for f in st._fields):
                continue
            calls = []
            for c in ast.walk(st):
                if isinstance(c, ast.Call):
                    h = kind = None
                    if isinstance(c.func, ast.Name) and ('mod', c.func.id) in helpers:
                        h, kind = helpers[('mod', c.func.id)], 'mod'
                    elif isinstance(c.func, ast.Attribute) and isinstance(c.func.value, ast.Name) and c.func.value.id == 'self' and ('meth', c.func.attr) in helpers:
                        h, kind = helpers[('meth', c.func.attr)], 'meth'
                    if h is not None:
                        calls.append((c, h, kind))
            if len(calls) == 1:
                par = parents_of(st)
                p = par.get(calls[0][0])
                bad = False
                while p is not None:
                    if isinstance(p, (ast.Lambda, ast.ListComp, ast.SetComp, ast.DictComp, ast.GeneratorExp)):
                        bad = True
                    p = par.get(p)
                if not bad:
                    sites.append((blk, st) + calls[0])
    if k >= len(sites):
        return False
    blk, st, c, h, kind = sites[k]
    new = _inline_site(st, c, h, kind)
    if new is None:
        return True
    i = blk.index(st)
    blk[i:i + 1] = new
    return True


GUIDED = [rw_zip_collected, rw_zip_mapped, rw_operator_call, rw_beta_lambda, rw_fold_literal_concat, rw_zip_to_index, rw_inline_helper, rw_extract_temp, rw_flatten_comp_filter, rw_first_of_concat, rw_split_tuple_assign, rw_augcomp_to_loop, rw_len_zero, rw_bool_ifexp, rw_singleton_comp, rw_ndenumerate_value, rw_flat_to_ndenumerate, rw_slice_zero, rw_flip_compare, rw_keyword_to_positional, rw_fstring_to_percent, rw_np_all_any, rw_range_min_guard, rw_membership_container, rw_drop_default_arg, rw_unpack_first, rw_use_alias, rw_ravel_flatten, rw_last_appended, rw_pass_branch, rw_dictcomp_to_loop, rw_none_flag, rw_argcomp_to_loop, rw_hoist_return, rw_get_none, rw_else_after_exit_wrap, rw_else_after_exit_unwrap, rw_comp_to_loop, rw_loop_to_comp, rw_not_compare, rw_demorgan, rw_swap_branches, rw_merge_nested_if, rw_split_and_if, rw_guard_to_swapped_else, rw_swapped_else_to_guard, rw_drop_tail_return, rw_add_tail_return, rw_element_to_index_loop, rw_fuse_loops, rw_late_publication, rw_drop_tail_continue, rw_items_loop, rw_filter_loop, rw_loop_to_update, rw_is_false, rw_hoist_common_tail, rw_sink_common_tail, rw_try_tail_out, rw_try_tail_in, rw_genexp_loop, rw_guarded_subscript_get, rw_update_to_loop, rw_star_list, rw_filter_none, rw_extend_literal, rw_unpack_name, rw_tolist_index, rw_fuse_nested_comp, rw_split_elif_after_exit, rw_join_elif_after_exit, rw_np_synonym, rw_append_augadd, rw_list_call_to_comp, rw_last_is_appended, rw_move_append, rw_append_comp_to_loop, rw_split_append_concat, rw_enumerate_to_index, rw_subscripted_literal, rw_extend_to_loop, rw_comp_over_collected, rw_tail_pass_to_continue, rw_split_or_exit, rw_merge_exit_ifs, rw_unroll_const_loop, rw_drop_noop_pass, rw_ifexp_to_if, rw_if_to_ifexp, rw_bool_to_if, rw_kwargs_default, rw_trailing_return, rw_enumerate, rw_return_temp]


def _clone(node):
    import pickle
    try:
        return pickle.loads(pickle.dumps(node, protocol=pickle.HIGHEST_PROTOCOL))
    except Exception:
        return copy.deepcopy(node)


ENABLERS = {rw_fold_literal_concat: [rw_membership_container], rw_subscripted_literal: [rw_extract_temp], rw_unpack_name: [rw_extend_literal, rw_inline_temp, rw_append_augadd], rw_extend_literal: [rw_unpack_name, rw_inline_temp], rw_loop_to_comp: [rw_inline_temp], rw_keyword_to_positional: [rw_extract_temp, rw_keyword_to_positional], rw_list_call_to_comp: [rw_comp_to_loop], rw_zip_to_index: [rw_extract_temp, rw_use_alias], rw_comp_to_loop: [rw_enumerate_to_index, rw_zip_to_index, rw_split_append_concat, rw_append_comp_to_loop]}
REMOVALS = (rw_drop_tail_return, rw_drop_tail_continue, rw_drop_noop_pass, rw_fuse_loops)


def _search(func, score, max_rounds, budget):
    applied = []
    direct = {}
    base = score(func)
    evals = 0
    cold = set()
    final = False
    for _ in range(max_rounds):
        progress = False
        for rw in GUIDED:
            if rw in cold and not final:
                continue
            hit = False
            for _rep in range(6):       # the same rewrite at its next best site, until it stops improving
                best = None
                k = 0
                while k <= 200 and evals < budget:
                    c = _clone(func)
                    try:
                        if not rw(c, k):
                            break
                        evals += 1
                        ast.fix_missing_locations(c)
                        s = score(c)
                    except Exception:
                        k += 1
                        continue
                    if s.better_than(base, removal=rw in REMOVALS) and (best is None or s.better_than(best[0], removal=rw in REMOVALS)):
                        best = (s, c)
                    elif rw in ENABLERS and s[0] == base[0]:
                        # a neutral step that may enable another rewrite: one step of lookahead
                        for rw2 in ENABLERS[rw]:
                            # what the follow-up achieves on its own (the pair must beat it, otherwise the first step is idle)
                            dkey = (rw2, id(base), len(applied))
                            if dkey not in direct:
                                d_best, k3 = base, 0
                                while k3 <= 80 and evals < budget:
                                    c3 = _clone(func)
                                    try:
                                        if not rw2(c3, k3):
                                            break
                                        evals += 1
                                        ast.fix_missing_locations(c3)
                                        s3 = score(c3)
                                    except Exception:
                                        k3 += 1
                                        continue
                                    if s3.better_than(d_best):
                                        d_best = s3
                                    k3 += 1
                                direct[dkey] = d_best
                            k2 = 0
                            while k2 <= 80 and evals < budget:
                                c2 = _clone(c)
                                try:
                                    if not rw2(c2, k2):
                                        break
                                    evals += 1
                                    ast.fix_missing_locations(c2)
                                    s2 = score(c2)
                                except Exception:
                                    k2 += 1
                                    continue
                                if s2.better_than(direct[dkey]) and (best is None or s2.better_than(best[0])):
                                    best = (s2, c2)
                                k2 += 1
                    k += 1
                if best is None:
                    break
                base, c = best
                func.body = c.body
                applied.append(rw.__name__[3:])
                progress = True
                hit = True
            if hit:
                cold.discard(rw)
            else:
                cold.add(rw)
        if evals >= budget:
            break
        if not progress:
            if final or not cold:
                break
            final = True        # one last sweep over the rewrites that had no improving site earlier
        else:
            final = False
    if os.environ.get('VERIF_RESTORE_DEBUG'):
        print('search %s: evals=%d applied=%s' % (getattr(func, 'name', '?'), evals, applied), file=sys.stderr)
    return applied


def guided(func, score, max_rounds=30, budget=2500, dirty=None):
    """hill climbing on the reference score, restricted to the top-level statements of the function that differ from the
    reference (plus their neighbours): per rewrite the best improving site is applied; bounded by a fixed number of candidate
    evaluations (deterministic); returns the names of the rewrites applied"""
    Ctx.window_outside = []
    if not isinstance(func, FuncDef) or dirty is None:
        return _search(func, score, max_rounds, budget)
    idx = sorted(dirty(func))
    if not idx:
        return []
    n = len(func.body)
    marks = set()
    for i in idx:
        marks.update(j for j in (i - 1, i, i + 1) if 0 <= j < n)
    ranges = []
    for i in sorted(marks):
        if ranges and ranges[-1][1] == i:
            ranges[-1][1] = i + 1
        else:
            ranges.append([i, i + 1])
    applied = []
    Ctx.whole_func = func
    # work from the end so that indices of earlier ranges stay valid
    for a, b in reversed(ranges):
        shell = ast.FunctionDef(name=func.name, args=func.args, body=func.body[a:b], decorator_list=[], returns=None, type_comment=None, lineno=func.lineno, col_offset=0,
                                end_lineno=getattr(func, 'end_lineno', func.lineno), end_col_offset=0)
        if hasattr(func, 'type_params'):
            shell.type_params = []
        shell._is_tail = b == n
        shell._names_extra = frozenset(Ctx.local_names(func)) if Ctx.local_names else frozenset()
        if Ctx.line_hash is not None:
            outside = Counter()
            nm_ = Ctx.local_names(func)
            for st_ in func.body[:a] + func.body[b:]:
                for x_ in ast.walk(st_):
                    if isinstance(x_, ast.Assign):
                        outside[Ctx.line_hash(x_, nm_, func)] += 1
            shell._outside_have = dict(outside)
        Ctx.window_outside = func.body[:a] + func.body[b:]
        try:
            sc = score.window(func, a, b) if hasattr(score, 'window') else score
        except Exception:
            sc = score
        ap = _search(shell, sc, max_rounds, budget)
        if ap:
            func.body[a:b] = shell.body
            applied.extend(ap)
    return applied


def drop_unused_new_nested(func, ref_locals):
    """a nested function the reference does not know and that is no longer referenced (all its calls were inlined) is removed"""
    dropped = []
    for owner, fld, blk in list(blocks_of(func)):
        for st in list(blk):
            if isinstance(st, FuncDef) and st is not func and st.name not in ref_locals:
                used = any(isinstance(n, ast.Name) and n.id == st.name for n in ast.walk(func))
                if not used and len(blk) > 1:
                    blk.remove(st)
                    dropped.append(st.name)
    return dropped


def renest_extracted(tree, outer, ref, differs, score_fn, note):
    """a module-level function that the reference does not contain and that is called from exactly one function which differs from
    its reference is tried as a nested function of that caller (a closure moved out to module level): kept if that brings the
    caller closer to the reference"""
    ref_funcs = set(ref.keys())
    new_mod = [n for n in tree.body if isinstance(n, FuncDef) and n.name not in ref_funcs]
    for h in new_mod:
        callers = [(q, f) for q, f in outer if f is not h and any(isinstance(n, ast.Name) and n.id == h.name for n in ast.walk(f))]
        if len(callers) != 1:
            continue
        q, f = callers[0]
        if not differs.get(q) or q not in ref:
            continue
        score = score_fn(ref[q])
        base = score(f)
        best = None
        start = 1 if (f.body and isinstance(f.body[0], ast.Expr) and isinstance(f.body[0].value, ast.Constant)) else 0
        for pos in range(start, len(f.body) + 1):
            c = copy.deepcopy(f)
            c.body.insert(pos, copy.deepcopy(h))
            s_ = score(c)
            if s_ > base and (best is None or s_ > best[0]):
                best = (s_, pos)
        if best is not None:
            f.body.insert(best[1], copy.deepcopy(h))
            note.append('%s: re-nested %s' % (q, h.name))


def monotone_lines(func):
    """after statements were moved or created: make line numbers non-decreasing in source order again (rules compare positions
    by line number; reports keep pointing into the neighbourhood of the original statement)"""
    state = {'cur': getattr(func, 'lineno', 1)}

    def bump(node, lo):
        for n in ast.walk(node):
            if hasattr(n, 'lineno') and n.lineno < lo:
                n.lineno = lo
            if hasattr(n, 'end_lineno') and n.end_lineno is not None and n.end_lineno < getattr(n, 'lineno', lo):
                n.end_lineno = n.lineno

    def rec(stmts):
        for s_ in stmts:
            ln_ = getattr(s_, 'lineno', state['cur'])
            lo = ln_ if ln_ >= state['cur'] else state['cur'] + 1
            compound = any(isinstance(getattr(s_, f, None), list) and f in _BODY_FIELDS for f in s_._fields)
            if not compound:
                bump(s_, lo)
                state['cur'] = max(state['cur'], max((getattr(n, 'lineno', lo) for n in ast.walk(s_)), default=lo))
                continue
            s_.lineno = lo
            for f, v in ast.iter_fields(s_):
                if f in _BODY_FIELDS:
                    continue
                if isinstance(v, ast.AST):
                    bump(v, lo)
                elif isinstance(v, list):
                    for x in v:
                        if isinstance(x, ast.AST):
                            bump(x, lo)
            state['cur'] = max(state['cur'], lo)
            for f in ('body', 'orelse', 'finalbody'):
                v = getattr(s_, f, None)
                if isinstance(v, list) and v and isinstance(v[0], ast.stmt):
                    rec(v)
            for hd in getattr(s_, 'handlers', []) or []:
                hd.lineno = max(getattr(hd, 'lineno', state['cur']), state['cur'])
                rec(hd.body)
            s_.end_lineno = max(getattr(s_, 'end_lineno', lo) or lo, state['cur'])
    rec(func.body)


def _lin(e):
    """(base_dump, base_node, offset) of  base, base + c, base - c"""
    if isinstance(e, ast.BinOp) and isinstance(e.op, (ast.Add, ast.Sub)) and isinstance(e.right, ast.Constant) and isinstance(e.right.value, int):
        c = e.right.value if isinstance(e.op, ast.Add) else -e.right.value
        return ast.dump(e.left), e.left, c
    if isinstance(e, ast.Constant) and isinstance(e.value, int):
        return 'const', None, e.value
    return ast.dump(e), e, 0


def split_slice_unpack(func):
    """a, b, c = X[i - 1:i + 2]   ->   a = X[i - 1] ; b = X[i] ; c = X[i + 1]      (the slice has exactly as many elements as targets)"""
    n = 0
    for owner, fld, blk in blocks_of(func):
        for st in list(blk):
            if isinstance(st, ast.Assign) and len(st.targets) == 1 and isinstance(st.targets[0], ast.Tuple) and all(isinstance(t, ast.Name) for t in st.targets[0].elts) \
                    and isinstance(st.value, ast.Subscript) and isinstance(st.value.slice, ast.Slice) and st.value.slice.step is None and st.value.slice.lower is not None and st.value.slice.upper is not None:
                d1, b1, c1 = _lin(st.value.slice.lower)
                d2, b2, c2 = _lin(st.value.slice.upper)
                if d1 != d2 or c2 - c1 != len(st.targets[0].elts):
                    continue
                new = []
                for k_, t in enumerate(st.targets[0].elts):
                    c = c1 + k_
                    if b1 is None:
                        idx = ast.Constant(value=c)
                    elif c == 0:
                        idx = copy.deepcopy(b1)
                    else:
                        idx = ast.BinOp(left=copy.deepcopy(b1), op=ast.Add() if c > 0 else ast.Sub(), right=ast.Constant(value=abs(c)))
                    new.append(fix(ast.Assign(targets=[ast.Name(id=t.id, ctx=ast.Store())], value=ast.Subscript(value=copy.deepcopy(st.value.value), slice=idx, ctx=ast.Load())), st))
                i = blk.index(st)
                blk[i:i + 1] = new
                n += 1
    return n


def split_tuple_assigns(func):
    n = 0
    while rw_split_tuple_assign_safe(func):
        n += 1
        if n > 50:
            break
    return n


def rw_split_tuple_assign_safe(func):
    for owner, fld, blk in blocks_of(func):
        for st in blk:
            if isinstance(st, ast.Assign) and len(st.targets) == 1 and isinstance(st.targets[0], ast.Tuple) and isinstance(st.value, ast.Tuple) and len(st.targets[0].elts) == len(st.value.elts) \
                    and all(isinstance(t, ast.Name) for t in st.targets[0].elts):
                tg = [t.id for t in st.targets[0].elts]
                if any(isinstance(n, ast.Name) and n.id in tg for v in st.value.elts for n in ast.walk(v)):
                    continue
                new = [fix(ast.Assign(targets=[ast.Name(id=t.id, ctx=ast.Store())], value=v), st) for t, v in zip(st.targets[0].elts, st.value.elts)]
                i = blk.index(st)
                blk[i:i + 1] = new
                return True
    return False


def coalesce_copies(func, ref_locals, local_names):
    """t = E ; ... ; x = t     (t a local the reference does not know, bound once, x neither read nor written in between, t not used
    after the copy)      ->      x = E ; ... with every t renamed to x"""
    done = []
    changed = True
    while changed:
        changed = False
        new = {x for x in local_names(func) - set(ref_locals)}
        for owner, fld, blk in blocks_of(func):
            for j, st in enumerate(blk):
                if not (isinstance(st, ast.Assign) and len(st.targets) == 1 and isinstance(st.targets[0], ast.Name) and isinstance(st.value, ast.Name) and st.value.id in new):
                    continue
                t, x = st.value.id, st.targets[0].id
                stores = [n for n in ast.walk(func) if isinstance(n, ast.Name) and n.id == t and isinstance(n.ctx, (ast.Store, ast.Del))]
                if not stores:
                    continue
                d = None
                for i in range(j):
                    if isinstance(blk[i], ast.Assign) and len(blk[i].targets) == 1 and isinstance(blk[i].targets[0], ast.Name) and blk[i].targets[0].id == t:
                        d = i
                        break
                if d is None:
                    continue
                if len(stores) != 1:
                    # several bindings (augmented updates, rebinding): every occurrence of t lies between its first binding and the copy,
                    # so the whole life of t is inside this block and renaming it is alpha conversion
                    inside = {id(n) for s2 in blk[d:j + 1] for n in ast.walk(s2)}
                    if any(isinstance(n, ast.Name) and n.id == t and id(n) not in inside for n in ast.walk(func)):
                        continue
                    if any(isinstance(n, ast.Name) and n.id == t for s2 in blk[:d] for n in ast.walk(s2)):
                        continue
                    if any(isinstance(n, FuncDef + (ast.Lambda,)) for s2 in blk[d:j] for n in ast.walk(s2)):
                        continue
                    if any(isinstance(n, ast.Try) for n in ast.walk(func)) and any(isinstance(n, ast.Name) and n.id == x and getattr(n, 'lineno', 0) < blk[d].lineno for n in ast.walk(func)):
                        continue
                # x may be read by the expression that defines t (it is evaluated before x is bound): t = f(x) ; x = t  ->  x = f(x)
                if any(isinstance(n, ast.Name) and n.id == x for s2 in blk[d + 1:j] for n in ast.walk(s2)):
                    continue
                if len(stores) != 1 and any(isinstance(n, ast.Name) and n.id == x for n in ast.walk(blk[d])):
                    continue
                if any(isinstance(n, (ast.Lambda,) + FuncDef) for n in ast.walk(blk[d])) and any(isinstance(n, ast.Name) and n.id == x for n in ast.walk(blk[d])):
                    continue
                if any(isinstance(n, ast.Name) and n.id == t for s2 in blk[j + 1:] for n in ast.walk(s2)):
                    continue
                for s2 in blk[d:j]:
                    for n in ast.walk(s2):
                        if isinstance(n, ast.Name) and n.id == t:
                            n.id = x
                del blk[j]
                done.append('%s->%s' % (t, x))
                changed = True
                break
            if changed:
                break
    return done


def split_multi_def_temps(func, ref_locals, local_names):
    """a new local that is bound in several places, each binding `t = E` being the first statement using t in its block and all uses
    of t lying in the rest of exactly one such block, is split into one name per binding (the bindings are independent)"""
    done = []
    new = {x for x in local_names(func) - set(ref_locals)}
    par = parents_of(func)
    for t in sorted(new):
        occ = [n for n in ast.walk(func) if isinstance(n, ast.Name) and n.id == t]
        stores = [n for n in occ if isinstance(n.ctx, ast.Store)]
        if len(stores) < 2:
            continue
        regions = []
        ok = True
        for st in stores:
            a = par.get(st)
            # plain assignment or tuple target of a plain assignment
            while a is not None and not isinstance(a, ast.stmt):
                a = par.get(a)
            if not isinstance(a, ast.Assign):
                ok = False
                break
            blk = None
            for _, _, b in blocks_of(func):
                if a in b:
                    blk = b
            if blk is None:
                ok = False
                break
            reg = {id(n) for s2 in blk[blk.index(a):] for n in ast.walk(s2)}
            regions.append(reg)
        if not ok:
            continue
        owner = {}
        for n in occ:
            hits = [i for i, reg in enumerate(regions) if id(n) in reg]
            if len(hits) != 1:
                ok = False
                break
            owner[id(n)] = hits[0]
        if not ok:
            continue
        for n in occ:
            n.id = '%s__%d' % (t, owner[id(n)] + 1)
        done.append(t)
    return done
