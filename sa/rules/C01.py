"""C01  Linear error propagation is exact and aligned by configuration number.

Decides only (see DESIGN.md section 4, C01):
  D1 every manual gradient in obs.py is the true derivative of its lambda (sympy diff)
  D2 functions differentiated by autograd use autograd.numpy only
  D3 the fifteen elementary-function methods exist and apply the function they are named after
  D4 CObs arithmetic returns (a+ib) o (c+id) in every dispatch branch
  D5 alignment by configuration number in derived_observable / _expand_deltas_for_merge
  D6 rescaling factors (union size / own size, ensemble size / own replicas)
  D7 value and chain-rule wiring of derived_observable
"""
import ast

import sympy as sp

from ..srcmodel import (Unrecognised, AnchorMissing, unparse, call_name, kwarg, walk, statements,
                        guards_of, const)
from ..symx import Translator, decide_equal, counterpoint
import re

from .. import hiddenstate

LEVEL = 'proof'
EXPLANATION = ('static proof obligations over the parsed source: manual gradients vs sympy derivatives, autograd discipline, '
               'CObs formulas, configuration-number alignment and rescaling formulas of derived_observable; numerical '
               'behaviour of autograd/numdifftools and floating point histories are not decided')

ELEMENTARY = ['sqrt', 'log', 'exp', 'sin', 'cos', 'tan', 'arcsin', 'arccos', 'arctan',
              'sinh', 'cosh', 'tanh', 'arcsinh', 'arccosh', 'arctanh']


# ------------------------------------------------------------------ D1

def mangrad_sites(mod):
    """All derived_observable calls of a module: (call, enclosing qualname)."""
    out = []
    for node in ast.walk(mod.tree):
        if isinstance(node, ast.Call) and call_name(node) == 'derived_observable':
            out.append((node, mod.enclosing_qualname(node)))
    out.sort(key=lambda t: (t[0].lineno, t[0].col_offset))
    return out


def lambda_and_data(call):
    if len(call.args) < 2:
        raise Unrecognised('derived_observable call with <2 positional args: %s' % unparse(call))
    return call.args[0], call.args[1]


def grad_obligations(ctx, mod, call, qual, rule='C01-D1'):
    fn, data = lambda_and_data(call)
    mg = kwarg(call, 'man_grad')
    key = '%s:%s#%s' % (mod.relpath.replace('pyerrors/', ''), qual, unparse(fn.body) if isinstance(fn, ast.Lambda) else unparse(fn))
    if not isinstance(fn, ast.Lambda):
        raise Unrecognised('function argument is not a lambda: %s' % unparse(fn))
    if not isinstance(data, ast.List):
        raise Unrecognised('data argument is not a list display: %s' % unparse(data))
    if not isinstance(mg, ast.List):
        raise Unrecognised('man_grad is not a list display: %s' % unparse(mg))
    if len(mg.elts) != len(data.elts):
        ctx.violated(rule, key, 'man_grad has %d entries for %d inputs' % (len(mg.elts), len(data.elts)), mod.loc(call))
        return
    if not fn.args.args:
        raise Unrecognised('lambda without positional argument')
    xname = fn.args.args[0].arg
    dtexts = [unparse(d) for d in data.elts]
    X = [sp.Symbol('x%d' % i, positive=True) for i in range(len(dtexts))]

    def atoms(node):
        # x[i]  and  <data_i>.value  are the same quantity
        if isinstance(node, ast.Subscript) and isinstance(node.value, ast.Name) and node.value.id == xname:
            i = const(node.slice)
            if isinstance(i, int) and 0 <= i < len(X):
                return X[i]
            raise Unrecognised('index %s' % unparse(node))
        if isinstance(node, ast.Attribute) and node.attr == 'value':
            t = unparse(node.value)
            if t in dtexts:
                return X[dtexts.index(t)]
        if isinstance(node, ast.Name) and unparse(node) in dtexts:
            raise Unrecognised('input object %s used as a number' % node.id)
        return None

    tr = Translator(mod, atoms=atoms)
    f = tr.tr(fn.body)
    for i, g in enumerate(mg.elts):
        gi = tr.tr(g)
        want = sp.diff(f, X[i])
        k = '%s#d/dx%d' % (key, i)
        r = decide_equal(want, gi, ctx.seed)
        if r is True:
            ctx.holds(rule, k, 'd/dx%d [%s] = %s == man_grad %s' % (i, unparse(fn.body), want, unparse(g)), mod.loc(call))
        elif r is False:
            ctx.violated(rule, k, 'man_grad[%d] = %s but d/dx%d [%s] = %s; counter-point %s' % (
                i, unparse(g), i, unparse(fn.body), want, counterpoint(want, gi)), mod.loc(call))
        else:
            ctx.unrec(rule, k, 'could not decide %s == %s' % (want, gi), mod.loc(call))


# ------------------------------------------------------------------ D2

_SHAPE_ATTRS = {'shape', 'ndim', 'size', 'dtype'}


def _np_value_calls(mod, fnode, params):
    """calls to plain numpy functions whose arguments depend on the *values* of params"""
    tainted = set(params)
    body = [fnode.body] if isinstance(fnode, ast.Lambda) else fnode.body
    # propagate taint through simple assignments (two passes are enough for the repo's shapes)
    def value_dep(e):
        if isinstance(e, ast.Call) and call_name(e) == 'len':
            return False
        if isinstance(e, ast.Attribute) and e.attr in _SHAPE_ATTRS:
            return False
        if isinstance(e, ast.Name):
            return e.id in tainted
        return any(value_dep(c) for c in ast.iter_child_nodes(e))
    for _ in range(3):
        for b in body:
            for n in walk(b):
                if isinstance(n, ast.Assign) and value_dep(n.value):
                    for t in n.targets:
                        for nm in ast.walk(t):
                            if isinstance(nm, ast.Name):
                                tainted.add(nm.id)
                elif isinstance(n, ast.For) and value_dep(n.iter):
                    for nm in ast.walk(n.target):
                        if isinstance(nm, ast.Name):
                            tainted.add(nm.id)
                elif isinstance(n, ast.Expr) and isinstance(n.value, ast.Call) and isinstance(n.value.func, ast.Attribute) \
                        and n.value.func.attr in ('append', 'extend') and any(value_dep(a) for a in n.value.args):
                    if isinstance(n.value.func.value, ast.Name):
                        tainted.add(n.value.func.value.id)
    bad = []
    for b in body:
        for n in walk(b):
            if isinstance(n, ast.Call):
                d = mod.dotted(n.func)
                if d and (d == 'numpy' or d.startswith('numpy.')) and any(value_dep(a) for a in list(n.args) + [k.value for k in n.keywords]):
                    bad.append(n)
    return bad


def resolve_function(mod, call, fexpr):
    """Resolve the function expression passed to derived_observable to a list of
    (kind, node) where kind in {'lambda','def','extern'}; follows local names and parameters."""
    encl = mod.enclosing_func(call)
    if isinstance(fexpr, ast.Lambda):
        return [('lambda', fexpr, encl)]
    if isinstance(fexpr, ast.Name):
        # nearest enclosing scope with a def of that name
        f = encl
        while f is not None:
            for n in walk(f, skip_nested_defs=False):
                if isinstance(n, ast.FunctionDef) and n.name == fexpr.id and mod.enclosing_func(n) is f:
                    # several defs with the same name in different branches are all candidates
                    cands = [m for m in walk(f) if isinstance(m, ast.FunctionDef) and m.name == fexpr.id and mod.enclosing_func(m) is f]
                    return [('def', c, f) for c in cands]
            f = mod.enclosing_func(f)
        if mod.has_func(fexpr.id):
            return [('def', mod.func(fexpr.id), None)]
        return [('extern', fexpr, encl)]
    return [('extern', fexpr, encl)]


def autograd_discipline(ctx, mod, call, qual, rule='C01-D2'):
    fexpr = call.args[0]
    key = '%s:%s#%s' % (mod.relpath.replace('pyerrors/', ''), qual, unparse(fexpr)[:80])
    seen = set()
    todo = resolve_function(mod, call, fexpr)
    n_checked = 0
    ok = True
    while todo:
        kind, node, scope = todo.pop()
        if id(node) in seen:
            continue
        seen.add(id(node))
        if kind == 'extern':
            d = mod.dotted(node)
            if d and (d == 'numpy' or d.startswith('numpy.')):
                ctx.violated(rule, key, 'plain numpy function %s is differentiated by autograd' % d, mod.loc(call))
                ok = False
            elif d and d.startswith('autograd.'):
                n_checked += 1
            else:
                raise Unrecognised('cannot resolve function %s' % unparse(node))
            continue
        params = [a.arg for a in node.args.args]
        if node.args.vararg:
            params.append(node.args.vararg.arg)
        # only the first parameter carries the differentiated values
        bad = _np_value_calls(mod, node, params[:1])
        n_checked += 1
        for b in bad:
            ctx.violated(rule, key + '#' + unparse(b.func), 'plain numpy call %s on differentiated values inside a function given to '
                         'derived_observable without man_grad (autograd cannot trace it)' % unparse(b), mod.loc(b))
            ok = False
        # follow calls: local defs, and parameters of the enclosing function (e.g. op)
        inner = [node.body] if isinstance(node, ast.Lambda) else node.body
        for b in inner:
            for n in walk(b):
                if isinstance(n, ast.Call) and isinstance(n.func, ast.Name):
                    nm = n.func.id
                    if nm in params or nm in ('len', 'range', 'int', 'zip', 'enumerate', 'float', 'list', 'print', 'isinstance', 'abs'):
                        continue
                    # a parameter of an enclosing function -> check what callers pass
                    enc = scope
                    resolved = False
                    while enc is not None and not resolved:
                        eparams = [a.arg for a in enc.args.args]
                        if nm in eparams:
                            pos = eparams.index(nm)
                            for c in ast.walk(mod.tree):
                                if isinstance(c, ast.Call) and isinstance(c.func, ast.Name) and c.func.id == enc.name and len(c.args) > pos:
                                    todo.append(('extern', c.args[pos], mod.enclosing_func(c)))
                            resolved = True
                        else:
                            for m in walk(enc):
                                if isinstance(m, ast.FunctionDef) and m.name == nm and mod.enclosing_func(m) is enc:
                                    todo.append(('def', m, enc))
                                    resolved = True
                        enc = mod.enclosing_func(enc)
                    if not resolved and mod.has_func(nm):
                        todo.append(('def', mod.func(nm), None))
    if ok:
        ctx.holds(rule, key, '%d function bodies / callee bindings use autograd.numpy only on differentiated values' % n_checked, mod.loc(call))


# ------------------------------------------------------------------ D3

def naming(ctx, mod):
    rule = 'C01-D3'
    meths = dict(mod.methods('Obs'))
    from ..symx import _FUNCS
    for name in ELEMENTARY:
        key = 'obs.py:Obs.%s' % name
        if name not in meths:
            ctx.violated(rule, key, 'elementary function method Obs.%s is missing' % name)
            continue
        m = meths[name]
        calls = [c for c in walk(m) if isinstance(c, ast.Call) and call_name(c) == 'derived_observable']
        if len(calls) != 1 or not isinstance(calls[0].args[0], ast.Lambda):
            ctx.unrec(rule, key, 'method does not consist of one derived_observable(lambda ...) call', mod.loc(m))
            continue
        lam = calls[0].args[0]
        x = sp.Symbol('x0', positive=True)
        xn = lam.args.args[0].arg

        def atoms(node):
            if isinstance(node, ast.Subscript) and isinstance(node.value, ast.Name) and node.value.id == xn and const(node.slice) == 0:
                return x
            return None
        try:
            got = Translator(mod, atoms=atoms, free='error').tr(lam.body)
        except Unrecognised as e:
            ctx.unrec(rule, key, str(e), mod.loc(m))
            continue
        want = _FUNCS[name](x)
        r = decide_equal(got, want, ctx.seed)
        if r is True and unparse(calls[0].args[1]) == 'self' or (r is True and isinstance(calls[0].args[1], ast.List) and [unparse(e) for e in calls[0].args[1].elts] == ['self']):
            ctx.holds(rule, key, 'Obs.%s applies %s to self' % (name, want), mod.loc(m))
        elif r is False:
            ctx.violated(rule, key, 'Obs.%s computes %s instead of %s' % (name, got, want), mod.loc(m))
        else:
            ctx.unrec(rule, key, 'undecided: %s vs %s on %s' % (got, want, unparse(calls[0].args[1])), mod.loc(m))


# ------------------------------------------------------------------ D4

def cobs_formulas(ctx, mod):
    rule = 'C01-D4'
    a, b, c, d = sp.symbols('a b c d', real=True)
    S, O = a + sp.I * b, c + sp.I * d
    table = {
        '__add__': S + O, '__radd__': O + S, '__sub__': S - O, '__rsub__': O - S,
        '__mul__': S * O, '__rmul__': O * S, '__truediv__': S / O, '__rtruediv__': O / S,
        '__neg__': -S, '__pos__': S, 'conjugate': sp.conjugate(S), '__abs__': sp.sqrt(a ** 2 + b ** 2),
    }
    meths = dict(mod.methods('CObs'))
    for name, want in table.items():
        if name not in meths:
            ctx.violated(rule, 'obs.py:CObs.%s' % name, 'method missing')
            continue
        m = meths[name]
        pnames = [p.arg for p in m.args.args]
        oname = pnames[1] if len(pnames) > 1 else None
        rets = [s for s in statements(m) if isinstance(s, ast.Return)]
        if not rets:
            ctx.unrec(rule, 'obs.py:CObs.%s' % name, 'no return statement')
        env_local = {}
        for s in statements(m):
            if isinstance(s, ast.Assign) and len(s.targets) == 1 and isinstance(s.targets[0], ast.Name):
                env_local[s.targets[0].id] = s.value
        for ri, ret in enumerate(rets):
            guards = guards_of(mod, ret, stop=m)
            gtxt = ' and '.join(('' if pol else 'not ') + '(' + unparse(t) + ')' for t, pol in guards) or 'always'
            key = 'obs.py:CObs.%s#return[%s]' % (name, gtxt)
            # branch assumptions
            other_complex = None
            d_zero = False
            for t, pol in guards:
                txt = unparse(t)
                if 'hasattr' in txt and "'real'" in txt and "'imag'" in txt:
                    other_complex = pol
                if 'getattr' in txt and "'imag'" in txt and '!= 0' in txt and not pol:
                    d_zero = True
                if 'isinstance' in txt and 'ndarray' in txt and pol:
                    other_complex = 'elementwise'
            # A method whose only dispatch is the hasattr test (e.g. __rtruediv__): returns outside any guard see 'other' generally
            subs_other = O
            if other_complex is False:
                subs_other = c

            def atoms(node, _so=subs_other):
                if isinstance(node, ast.Attribute) and isinstance(node.value, ast.Name):
                    if node.value.id == 'self' and node.attr in ('real', '_real'):
                        return a
                    if node.value.id == 'self' and node.attr in ('imag', '_imag'):
                        return b
                    if oname and node.value.id == oname and node.attr == 'real':
                        return c
                    if oname and node.value.id == oname and node.attr == 'imag':
                        return d if _so is O else sp.Integer(0)
                if isinstance(node, ast.Attribute) and node.attr == 'value':
                    return tr.tr(node.value)      # x.value of an Obs symbol is the symbol itself
                if isinstance(node, ast.Name):
                    if node.id == 'self':
                        return S
                    if oname and node.id == oname:
                        return _so
                    if node.id in env_local:
                        return tr.tr(env_local[node.id])
                if isinstance(node, ast.Call) and call_name(node) == 'CObs':
                    re_ = tr.tr(node.args[0])
                    im_ = tr.tr(node.args[1]) if len(node.args) > 1 else sp.Integer(0)
                    return re_ + sp.I * im_
                if isinstance(node, ast.Call) and call_name(node) == 'derived_observable':
                    return inline_derived(tr, node)
                return None
            tr = Translator(mod, atoms=atoms, free='error', positive=False)
            try:
                got = tr.tr(ret.value)
            except Unrecognised as e:
                ctx.unrec(rule, key, str(e), mod.loc(ret))
                continue
            w = want
            if subs_other is c or d_zero:
                w = w.subs(d, 0)
                got = got.subs(d, 0)
            diff = sp.simplify(sp.expand(got - w))
            if diff == 0:
                ctx.holds(rule, key, 'returns %s' % sp.simplify(w), mod.loc(ret))
            else:
                r = decide_equal(got, w, ctx.seed)
                if r is True:
                    ctx.holds(rule, key, 'returns %s' % w, mod.loc(ret))
                elif r is False:
                    ctx.violated(rule, key, 'CObs.%s returns %s, expected %s' % (name, sp.simplify(got), sp.simplify(w)), mod.loc(ret))
                else:
                    ctx.unrec(rule, key, 'undecided %s vs %s' % (got, w), mod.loc(ret))


def inline_derived(tr, call):
    """sympy value of derived_observable(lambda x: body, [d0, d1, ...]) = body[x[i] := d_i]"""
    fn, data = call.args[0], call.args[1]
    if not isinstance(fn, ast.Lambda) or not isinstance(data, ast.List):
        raise Unrecognised('derived_observable call not inlinable: %s' % unparse(call))
    vals = [tr.tr(e) for e in data.elts]
    xn = fn.args.args[0].arg
    outer = tr.atoms

    def atoms(node):
        if isinstance(node, ast.Subscript) and isinstance(node.value, ast.Name) and node.value.id == xn:
            i = const(node.slice)
            if isinstance(i, int) and 0 <= i < len(vals):
                return vals[i]
            raise Unrecognised('index %s' % unparse(node))
        return outer(node)
    tr.atoms = atoms
    try:
        return tr.tr(fn.body)
    finally:
        tr.atoms = outer


# ------------------------------------------------------------------ D5 / D6

def expand_for_merge(ctx, mod):
    f = mod.func('_expand_deltas_for_merge')
    params = [a.arg for a in f.args.args]
    if len(params) != 5:
        raise Unrecognised('_expand_deltas_for_merge has %d parameters' % len(params))
    deltas, idx, shape, new_idx, scale = params
    rule5, rule6 = 'C01-D5', 'C01-D6'
    A, Ln, Lo, s, D = sp.symbols('A Ln Lo s D', positive=True)
    rets = [st for st in statements(f) if isinstance(st, ast.Return)]
    locals_ = {}
    for st in statements(f):
        if isinstance(st, ast.Assign) and len(st.targets) == 1 and isinstance(st.targets[0], ast.Name):
            locals_.setdefault(st.targets[0].id, []).append(st)

    # ---- block fast paths: buf = zeros(len(new_idx)); buf[a:b] = deltas  under 'both lists are ranges with the same step'.
    # position j of the result belongs to configuration new_idx.start + j*step, position i of deltas to idx.start + i*step: the block
    # must start at a = (idx.start - new_idx.start) / step and have `shape` entries.
    block_buffers = {}
    st_, o_, n_ = sp.symbols('step idx_start new_start', integer=True, positive=True)
    for stt in statements(f):
        if isinstance(stt, ast.Assign) and isinstance(stt.targets[0], ast.Subscript) and isinstance(stt.targets[0].slice, ast.Slice) and isinstance(stt.targets[0].value, ast.Name) \
                and unparse(stt.value) == deltas and guards_of(mod, stt, stop=f):
            buf = stt.targets[0].value.id
            key = 'obs.py:_expand_deltas_for_merge#block-copy[%s]' % unparse(stt.targets[0])
            gtxt = [unparse(t) for t, pol in guards_of(mod, stt, stop=f) if pol]
            ranges_ok = any('type(%s) is range' % idx in g_ and 'type(%s) is range' % new_idx in g_ for g_ in gtxt) or (any('type(%s) is range' % idx in g_ for g_ in gtxt) and any('type(%s) is range' % new_idx in g_ for g_ in gtxt))
            step_ok = any(('%s.step == %s.step' % (idx, new_idx)) in g_ or ('%s.step == %s.step' % (new_idx, idx)) in g_ for g_ in gtxt)
            bdef = [d for d in locals_.get(buf, []) if guards_of(mod, d, stop=f)]
            single = dict((k, v[0].value) for k, v in locals_.items() if len(v) == 1)

            def batoms(node):
                if isinstance(node, ast.Attribute) and isinstance(node.value, ast.Name):
                    if node.attr == 'step' and node.value.id in (idx, new_idx):
                        return st_
                    if node.attr == 'start' and node.value.id == idx:
                        return o_
                    if node.attr == 'start' and node.value.id == new_idx:
                        return n_
                if isinstance(node, ast.Subscript) and isinstance(node.value, ast.Name) and const(node.slice) == 0:
                    if node.value.id == idx:
                        return o_
                    if node.value.id == new_idx:
                        return n_
                if isinstance(node, ast.Call) and call_name(node) == 'len' and len(node.args) == 1 and unparse(node.args[0]) in (idx, new_idx):
                    return Lo if unparse(node.args[0]) == idx else Ln
                if isinstance(node, ast.Name) and node.id == shape:
                    return Lo
                if isinstance(node, ast.Name) and node.id in single and node.id not in (deltas, idx, new_idx, shape, scale):
                    return Translator(mod, atoms=batoms, free='error', positive=False).tr(single[node.id])
                if isinstance(node, ast.BinOp) and isinstance(node.op, ast.FloorDiv):
                    # exact by the precondition that idx is a subset of new_idx with the same step
                    tr_ = Translator(mod, atoms=batoms, free='error', positive=False)
                    return tr_.tr(node.left) / tr_.tr(node.right)
                return None
            try:
                tr_ = Translator(mod, atoms=batoms, free='error', positive=False)
                lo_ = tr_.tr(stt.targets[0].slice.lower) if stt.targets[0].slice.lower is not None else sp.Integer(0)
                hi_ = tr_.tr(stt.targets[0].slice.upper) if stt.targets[0].slice.upper is not None else Ln
                blen = tr_.tr(bdef[0].value.args[0]) if len(bdef) == 1 and isinstance(bdef[0].value, ast.Call) and call_name(bdef[0].value) == 'zeros' and bdef[0].value.args else None
            except Unrecognised as e:
                ctx.unrec(rule5, key, str(e), mod.loc(stt))
                continue
            if blen is None or not ranges_ok:
                ctx.unrec(rule5, key, 'block copy outside the range/range case or buffer definition not understood', mod.loc(stt))
                continue
            ok_len = sp.simplify(blen - Ln) == 0
            ok_n = sp.simplify(hi_ - lo_ - Lo) == 0
            ok_pos = step_ok and sp.simplify(lo_ * st_ - (o_ - n_)) == 0
            ctx.check(rule5, key, ok_len and ok_n and ok_pos,
                      'block of %s entries placed at position (idx.start - new_idx.start)/step of a buffer of len(new_idx)' % Lo,
                      'block copy misplaces the fluctuations: buffer length %s (must be len(new_idx)), block length %s (must be len(idx)), first position %s but configuration idx.start sits at position (idx.start - new_idx.start)/step%s' % (
                          blen, sp.simplify(hi_ - lo_), lo_, '' if step_ok else ' (and equal steps are not guaranteed on this path)'), mod.loc(stt))
            block_buffers[buf] = stt

    # ---- D6 formula of every return
    general_seen = 0
    for ret in rets:
        guards = guards_of(mod, ret, stop=f)
        gt = [unparse(t) if pol else 'not (%s)' % unparse(t) for t, pol in guards]
        key = 'obs.py:_expand_deltas_for_merge#return[%s]' % (' and '.join(gt) or 'always')
        same_idx = any(pol and isinstance(t, ast.Compare) and len(t.ops) == 1 and isinstance(t.ops[0], ast.Eq)
                       and {unparse(t.left), unparse(t.comparators[0])} == {idx, new_idx} for t, pol in guards)
        s_one = any(pol and isinstance(t, ast.Compare) and isinstance(t.ops[0], ast.Eq) and
                    {unparse(t.left), unparse(t.comparators[0])} == {scale, '1'} for t, pol in guards)

        def atoms(node):
            if isinstance(node, ast.Call) and call_name(node) == 'len' and len(node.args) == 1:
                t = unparse(node.args[0])
                if t == new_idx:
                    return Ln
                if t == idx:
                    return Lo
            if isinstance(node, ast.Name):
                if node.id == deltas:
                    return D
                if node.id == scale:
                    return s
                if node.id in locals_ and len(locals_[node.id]) == 1 and not isinstance(locals_[node.id][0].value, ast.Call):
                    return None
            if isinstance(node, ast.Call) and (mod.dotted(node.func) or '') in ('numpy.array', 'numpy.asarray') and node.args and isinstance(node.args[0], ast.ListComp):
                return A
            if isinstance(node, ast.Name) and node.id in block_buffers:
                return A
            return None
        try:
            got = Translator(mod, atoms=atoms, free='error').tr(ret.value)
        except Unrecognised as e:
            ctx.unrec(rule6, key, str(e), mod.loc(ret))
            continue
        if same_idx:
            want = D * s
            if s_one:
                want = want.subs(s, 1)
                got = got.subs(s, 1)
            ok = sp.simplify(got - want) == 0
            ctx.check(rule6, key, ok, 'fast path (identical lists) returns deltas*scalefactor = general formula at len(new)=len(old)',
                      'fast path returns %s, general formula specialised at identical lists is %s' % (got, want), mod.loc(ret))
        else:
            general_seen += 1
            want = A * Ln / Lo * s
            ok = sp.simplify(got - want) == 0
            ctx.check(rule6, key, ok, 'general return = A * len(new_idx)/len(idx) * scalefactor',
                      'general return is %s, expected A*len(new_idx)/len(idx)*scalefactor = %s' % (got, want), mod.loc(ret))
    if general_seen == 0:
        ctx.unrec(rule6, 'obs.py:_expand_deltas_for_merge#general', 'no general return found')

    # ---- D5 alignment by configuration number inside the helper
    cfg, base = sp.symbols('cfg base', integer=True)
    stores = []
    for st in statements(f):
        if isinstance(st, ast.Assign) and isinstance(st.targets[0], ast.Subscript) and isinstance(st.targets[0].value, ast.Name) and st not in block_buffers.values():
            stores.append(st)
    key = 'obs.py:_expand_deltas_for_merge#scatter-gather'
    loads = []
    for ret in rets:
        for n in walk(ret):
            if isinstance(n, ast.ListComp) and isinstance(n.elt, ast.Subscript):
                loads.append(n)
    if len(stores) != 1 or len(loads) != 1:
        ctx.unrec(rule5, key, 'expected one scatter store and one gather comprehension, found %d/%d' % (len(stores), len(loads)))
        return
    st, ld = stores[0], loads[0]
    buf = st.targets[0].value.id
    loop = mod.parents.get(st)
    if not isinstance(loop, ast.For) or not isinstance(loop.target, ast.Name):
        ctx.unrec(rule5, key, 'scatter store is not directly inside a for loop')
        return
    ivar = loop.target.id
    gvar = ld.generators[0].target.id if isinstance(ld.generators[0].target, ast.Name) else None

    def mk_atoms(listname, var):
        def atoms(node):
            if isinstance(node, ast.Subscript) and isinstance(node.value, ast.Name):
                if node.value.id == listname and unparse(node.slice) == var:
                    return cfg
                if node.value.id == new_idx and const(node.slice) == 0:
                    return base
                if isinstance(const(node.slice), int):
                    return sp.Symbol('%s_at_%d' % (node.value.id, const(node.slice)), integer=True)
            return None
        return atoms
    try:
        spos = Translator(mod, atoms=mk_atoms(idx, ivar), free='error', positive=False).tr(st.targets[0].slice)
        lpos = Translator(mod, atoms=mk_atoms(new_idx, gvar), free='error', positive=False).tr(ld.elt.slice)
    except Unrecognised as e:
        ctx.unrec(rule5, key, str(e), mod.loc(st))
        return
    ok = sp.simplify(spos - lpos) == 0 and ld.elt.value.id == buf if isinstance(ld.elt.value, ast.Name) else False
    ctx.check(rule5, key, ok,
              'scatter position(cfg)=%s equals gather position(cfg)=%s: a delta is read back for the configuration number it was stored for' % (spos, lpos),
              'scatter writes configuration cfg to position %s but the gather reads position %s for configuration cfg' % (spos, lpos), mod.loc(st))
    # stored value is the i-th delta, loop over range(shape), gather over range(len(new_idx))
    ok2 = unparse(st.value) == '%s[%s]' % (deltas, ivar) and unparse(loop.iter) == 'range(%s)' % shape
    ctx.check(rule5, 'obs.py:_expand_deltas_for_merge#scatter-source', ok2,
              'position i of deltas is paired with idx[i] for i in range(shape)',
              'scatter pairs %s with %s over %s' % (unparse(st.value), unparse(st.targets[0].slice), unparse(loop.iter)), mod.loc(st))
    ok3 = unparse(ld.generators[0].iter) == 'range(len(%s))' % new_idx and not ld.generators[0].ifs
    ctx.check(rule5, 'obs.py:_expand_deltas_for_merge#gather-range', ok3,
              'gather runs over every entry of new_idx',
              'gather runs over %s' % unparse(ld.generators[0].iter), mod.loc(ld))
    # buffer length covers the span of new_idx
    bufdef = [d for d in locals_.get(buf, []) if not guards_of(mod, d, stop=f)]
    if len(bufdef) == 1 and isinstance(bufdef[0].value, ast.Call) and bufdef[0].value.args:
        last = sp.Symbol('last', integer=True)

        def atoms_len(node):
            if isinstance(node, ast.Subscript) and isinstance(node.value, ast.Name) and node.value.id == new_idx:
                i = const(node.slice)
                if i == 0:
                    return base
                if i == -1:
                    return last
            return None
        try:
            n = Translator(mod, atoms=atoms_len, free='error', positive=False).tr(bufdef[0].value.args[0])
            ok4 = sp.simplify(n - (last - base + 1)) == 0
            ctx.check(rule5, 'obs.py:_expand_deltas_for_merge#buffer-length', ok4,
                      'scratch buffer has one slot per configuration number in [new_idx[0], new_idx[-1]]',
                      'scratch buffer length %s does not cover new_idx[-1]-new_idx[0]+1' % n, mod.loc(bufdef[0]))
        except Unrecognised as e:
            ctx.unrec(rule5, 'obs.py:_expand_deltas_for_merge#buffer-length', str(e))
    else:
        ctx.unrec(rule5, 'obs.py:_expand_deltas_for_merge#buffer-length', 'buffer definition not found')


def _sub_key(node):
    """X.attr[k] or X.attr.get(k, default) -> (X text, attr, k text, default node)"""
    if isinstance(node, ast.Subscript) and isinstance(node.value, ast.Attribute):
        return unparse(node.value.value), node.value.attr, unparse(node.slice), None
    if isinstance(node, ast.Call) and isinstance(node.func, ast.Attribute) and node.func.attr == 'get' \
            and isinstance(node.func.value, ast.Attribute) and node.args:
        return unparse(node.func.value.value), node.func.value.attr, unparse(node.args[0]), (node.args[1] if len(node.args) > 1 else None)
    return None


def derived_alignment(ctx, mod, rule='C01-D5'):
    # no representative element: nothing about a matrix operand is decided from one of its entries (entries of one matrix may live
    # on different replicas, ensembles and covariance inputs)
    f0 = mod.func('derived_observable')
    rep = []
    for n_ in walk(f0):
        if isinstance(n_, ast.Subscript) and isinstance(n_.slice, ast.Constant) and n_.slice.value == 0:
            b_ = n_.value
            if (isinstance(b_, ast.Attribute) and b_.attr == 'flat') or (isinstance(b_, ast.Call) and isinstance(b_.func, ast.Attribute) and b_.func.attr in ('ravel', 'flatten', 'reshape')):
                rep.append(n_)
    ctx.check(rule, 'obs.py:derived_observable#no-representative-element', not rep, 'every entry of an operand is treated on its own',
              'the first entry of an operand (`%s`) stands in for all its entries: chains / covariance inputs present only in other entries are handled wrongly' % (unparse(rep[0]) if rep else ''),
              mod.loc(rep[0]) if rep else mod.loc(f0))
    f = mod.func('derived_observable')
    calls = [c for c in walk(f) if isinstance(c, ast.Call) and call_name(c) == '_expand_deltas_for_merge']
    ctx.floor('_expand_deltas_for_merge call sites in derived_observable', len(calls), 2)
    merged = None
    # the merged list: <M>[name] = _merge_idx(<list>)
    for st in statements(f):
        if isinstance(st, ast.Assign) and isinstance(st.value, ast.Call) and call_name(st.value) == '_merge_idx' \
                and isinstance(st.targets[0], ast.Subscript) and isinstance(st.targets[0].value, ast.Name):
            merged = st
    if merged is None:
        ctx.unrec(rule, 'obs.py:derived_observable#merged-idl', 'no <dict>[name] = _merge_idx(...) statement found')
        return
    M = merged.targets[0].value.id
    mkey = unparse(merged.targets[0].slice)
    # what is merged: list collected from item.idl.get(name) for every input
    src = merged.value.args[0]
    ok_src = False
    detail = unparse(merged.value)
    if isinstance(src, ast.Name):
        apps = [c for c in walk(f) if isinstance(c, ast.Call) and isinstance(c.func, ast.Attribute) and c.func.attr == 'append'
                and isinstance(c.func.value, ast.Name) and c.func.value.id == src.id]
        for ap in apps:
            v = ap.args[0]
            # follow one local
            if isinstance(v, ast.Name):
                vd = [st for st in statements(f) if isinstance(st, ast.Assign) and isinstance(st.targets[0], ast.Name) and st.targets[0].id == v.id]
                if len(vd) == 1:
                    v = vd[0].value
            k = _sub_key(v)
            if k and k[1] == 'idl' and k[2] == mkey:
                loop = mod.parents.get(ap)
                while loop is not None and not isinstance(loop, ast.For):
                    loop = mod.parents.get(loop)
                if loop is not None and 'raveled_data' in unparse(loop.iter):
                    ok_src = True
                    detail = 'union of item.idl[%s] over all inputs' % mkey
    ctx.check(rule, 'obs.py:derived_observable#merged-idl', ok_src, detail,
              'the merged configuration list is not the union of the inputs\' lists for the same name: ' + detail, mod.loc(merged))

    for c in calls:
        if len(c.args) != 5:
            ctx.unrec(rule, 'obs.py:derived_observable#expand-call', 'call with %d args' % len(c.args), mod.loc(c))
            continue
        k0, k1, k2 = _sub_key(c.args[0]), _sub_key(c.args[1]), _sub_key(c.args[2])
        tgt = c.args[3]
        mode = 'array_mode' if any(k and k[3] is not None for k in (k0, k1, k2)) else 'scalar'
        key = 'obs.py:derived_observable#expand-call[%s]' % mode
        if not (k0 and k1 and k2):
            ctx.unrec(rule, key, 'arguments not of the form X.deltas[k], X.idl[k], X.shape[k]: %s' % unparse(c), mod.loc(c))
            continue
        same_obj = k0[0] == k1[0] == k2[0]
        same_key = k0[2] == k1[2] == k2[2]
        slots = (k0[1], k1[1], k2[1]) == ('deltas', 'idl', 'shape')
        tgt_ok = isinstance(tgt, ast.Subscript) and isinstance(tgt.value, ast.Name) and tgt.value.id == M and unparse(tgt.slice) == k0[2]
        ctx.check(rule, key, same_obj and same_key and slots and tgt_ok,
                  'deltas, idl and shape of one object %s and one chain %s are expanded onto %s[%s]' % (k0[0], k0[2], M, k0[2]),
                  'mismatched expansion arguments %s' % unparse(c), mod.loc(c))
        # accumulation target carries the same key
        stmt = c
        while stmt is not None and not isinstance(stmt, ast.stmt):
            stmt = mod.parents.get(stmt)
        if mode == 'scalar':
            if isinstance(stmt, ast.Assign) and isinstance(stmt.targets[0], ast.Subscript):
                tk = unparse(stmt.targets[0].slice)
                ctx.check(rule, 'obs.py:derived_observable#accumulate[scalar]', tk == k0[2],
                          'accumulated into new_deltas[%s]' % tk, 'fluctuations of chain %s accumulated under key %s' % (k0[2], tk), mod.loc(stmt))
                # scalefactor keyed by the ensemble of the same name
                sf = c.args[4]
                okf = k0[2] + ".split('|')[0]" in unparse(sf)
                ctx.check(rule, 'obs.py:derived_observable#scalefactor-key[scalar]', okf,
                          'scale factor looked up for the ensemble of %s' % k0[2], 'scale factor looked up with %s' % unparse(sf), mod.loc(c))
            else:
                ctx.unrec(rule, 'obs.py:derived_observable#accumulate[scalar]', 'unexpected statement %s' % unparse(stmt)[:80])
        else:
            # defaults for an input that lacks the chain: zeros of the merged length on the merged list
            d0, d1, d2 = k0[3], k1[3], k2[3]
            ens_len = None
            for st in statements(f):
                if isinstance(st, ast.Assign) and isinstance(st.targets[0], ast.Name) and unparse(st.value) == 'len(%s[%s])' % (M, k0[2]):
                    ens_len = st.targets[0].id
            okd = d0 is not None and d1 is not None and d2 is not None and ens_len is not None and \
                unparse(d1) == '%s[%s]' % (M, k0[2]) and unparse(d2) == ens_len and \
                isinstance(d0, ast.Call) and (mod.dotted(d0.func) or '') == 'numpy.zeros' and unparse(d0.args[0]) == ens_len
            ctx.check(rule, 'obs.py:derived_observable#defaults[array_mode]', bool(okd),
                      'an input without the chain contributes zeros(len(merged)) defined on the merged list',
                      'defaults for a missing chain are inconsistent: %s / %s / %s' % (unparse(d0), unparse(d1), unparse(d2)), mod.loc(c))
            sf = c.args[4]
            # (the helper may have been hoisted to module level and then takes the merged lists as a second argument)
            okf = k0[2] + ".split('|')[0]" in unparse(sf) and ('_compute_scalefactor_missing_rep(%s)' % k0[0] in unparse(sf) or '_compute_scalefactor_missing_rep(%s, %s)' % (k0[0], M) in unparse(sf))
            ctx.check(rule, 'obs.py:derived_observable#scalefactor-key[array_mode]', okf,
                      'scale factor of the same object and ensemble', 'scale factor looked up with %s' % unparse(sf), mod.loc(c))

    # parallel lists given to Obs(...)
    obs_calls = [c for c in walk(f) if isinstance(c, ast.Call) and call_name(c) == 'Obs' and kwarg(c, 'means') is not None]
    for oc in obs_calls:
        names = [unparse(oc.args[0]), unparse(oc.args[1]), unparse(kwarg(oc, 'means')), unparse(kwarg(oc, 'idl'))]
        apps = {}
        for cc in walk(f):
            if isinstance(cc, ast.Call) and isinstance(cc.func, ast.Attribute) and cc.func.attr == 'append' and unparse(cc.func.value) in names:
                apps.setdefault(unparse(cc.func.value), []).append(cc)
        key = 'obs.py:derived_observable#Obs-parallel-lists'
        if set(apps) != set(names) or any(len(v) != 1 for v in apps.values()):
            ctx.unrec(rule, key, 'parallel lists %s not each appended exactly once' % names, mod.loc(oc))
            continue
        parents = {id(mod.parents.get(mod.parents.get(v[0]))) for v in apps.values()}
        a_s, a_n, a_m, a_i = [apps[n][0].args[0] for n in names]
        ks = _sub_key(ast.Subscript(value=ast.Attribute(value=ast.Name(id='_'), attr='d'), slice=a_s.slice)) if isinstance(a_s, ast.Subscript) else None
        kk = unparse(a_n)
        ok = len(parents) == 1 and isinstance(a_s, ast.Subscript) and unparse(a_s.slice) == kk and \
            isinstance(a_i, ast.Subscript) and unparse(a_i) == '%s[%s]' % (M, kk) and \
            isinstance(a_m, ast.Subscript) and unparse(a_m).startswith('new_r_values[%s]' % kk)
        ctx.check(rule, key, ok, 'samples, names, means and idl of the result are appended in one block with one key (%s)' % kk,
                  'result lists are built with different keys: %s' % [unparse(x) for x in (a_s, a_n, a_m, a_i)], mod.loc(oc))


def scalefactor(ctx, mod):
    rule = 'C01-D6'
    f = mod.func('derived_observable._compute_scalefactor_missing_rep')
    key = 'obs.py:derived_observable._compute_scalefactor_missing_rep#ratio'
    # find the assigned ratio
    ratio = None
    for st in statements(f):
        if isinstance(st, ast.Assign) and isinstance(st.value, ast.BinOp) and isinstance(st.value.op, ast.Div):
            ratio = st
    if ratio is None:
        ctx.unrec(rule, key, 'no ratio assignment found', mod.loc(f))
        return
    own_obj = f.args.args[0].arg

    def classify(sumcall):
        """sum([len(L[name]) for name in V]) -> (L, source-of-V) """
        if not (isinstance(sumcall, ast.Call) and call_name(sumcall) in ('sum',) and sumcall.args):
            raise Unrecognised('not a sum(...): %s' % unparse(sumcall))
        comp = sumcall.args[0]
        if not isinstance(comp, (ast.ListComp, ast.GeneratorExp)) or len(comp.generators) != 1 or comp.generators[0].ifs:
            raise Unrecognised('not a plain comprehension: %s' % unparse(comp))
        g = comp.generators[0]
        elt = comp.elt
        if isinstance(elt, ast.Call) and call_name(elt) == 'len' and isinstance(elt.args[0], ast.Subscript) and unparse(elt.args[0].slice) == unparse(g.target):
            L = unparse(elt.args[0].value)
        elif isinstance(elt, ast.Subscript) and unparse(elt.slice) == unparse(g.target) and isinstance(elt.value, ast.Attribute) and elt.value.attr == 'shape':
            L = unparse(elt.value)        # number of configurations the input itself has on that replica
        else:
            raise Unrecognised('summand is not len(L[name]): %s' % unparse(elt))
        V = g.iter
        if isinstance(V, ast.Name):
            defs = [s for s in statements(f) if isinstance(s, ast.Assign) and isinstance(s.targets[0], ast.Name) and s.targets[0].id == V.id]
            if len(defs) != 1:
                raise Unrecognised('%s not single-assigned' % V.id)
            V = defs[0].value
        if not isinstance(V, ast.ListComp) or len(V.generators) != 1:
            raise Unrecognised('name set is not a comprehension: %s' % unparse(V))
        gg = V.generators[0]
        filt = ' and '.join(unparse(i) for i in gg.ifs)
        return L, unparse(gg.iter), filt
    try:
        Ln, srcn, fn_ = classify(ratio.value.left)
        Ld, srcd, fd_ = classify(ratio.value.right)
    except Unrecognised as e:
        ctx.unrec(rule, key, str(e), mod.loc(ratio))
        return
    ok = (Ln == Ld == 'new_idl_d' and srcn == 'new_idl_d' and srcd == own_obj + '.idl' and fn_ == fd_ and "startswith(mc_name + '|')" in fn_)
    ctx.check(rule, key, ok,
              'scale factor = sum over all replicas of the ensemble in the result of len(merged) / sum over the input\'s own replicas of len(merged)',
              'scale factor is sum(len(%s[n]) for n in %s if %s) / sum(len(%s[n]) for n in %s if %s)' % (Ln, srcn, fn_, Ld, srcd, fd_), mod.loc(ratio))
    # applied exactly when the input lacks replicas of the ensemble: 0 < own < all (own == all gives factor 1, own == 0 must not divide)
    gs = guards_of(mod, ratio, stop=f)
    if len(gs) == 1 and gs[0][1]:
        t = gs[0][0]
        env_names = {}
        for st in statements(f):
            if isinstance(st, ast.Assign) and isinstance(st.targets[0], ast.Name) and isinstance(st.value, ast.ListComp):
                src = unparse(st.value.generators[0].iter)
                env_names[st.targets[0].id] = 'own' if src == own_obj + '.idl' else ('all' if src == 'new_idl_d' else None)

        def ev(e, own, all_):
            if isinstance(e, ast.BoolOp):
                vals = [ev(v, own, all_) for v in e.values]
                return all(vals) if isinstance(e.op, ast.And) else any(vals)
            if isinstance(e, ast.Compare) and len(e.ops) == 1:
                def val(x):
                    if isinstance(x, ast.Call) and call_name(x) == 'len' and isinstance(x.args[0], ast.Name) and env_names.get(x.args[0].id):
                        return own if env_names[x.args[0].id] == 'own' else all_
                    if const(x) is not None:
                        return const(x)
                    raise Unrecognised(unparse(x))
                a, b = val(e.left), val(e.comparators[0])
                return {ast.Lt: a < b, ast.LtE: a <= b, ast.Gt: a > b, ast.GtE: a >= b, ast.Eq: a == b, ast.NotEq: a != b}[type(e.ops[0])]
            raise Unrecognised(unparse(e))
        try:
            bad = [(o_, a_) for a_ in range(0, 5) for o_ in range(0, a_ + 1)
                   if (0 < o_ < a_ and not ev(t, o_, a_)) or (o_ == 0 and ev(t, o_, a_))]
            ctx.check(rule, key + '-condition', not bad, 'the factor is applied whenever the input has some but not all replicas of the ensemble, never for zero replicas',
                      'condition `%s` is wrong for (own replicas, all replicas) = %s' % (unparse(t), bad[:4]), mod.loc(ratio))
        except Unrecognised as e:
            ctx.unrec(rule, key + '-condition', str(e), mod.loc(ratio))
    else:
        ctx.unrec(rule, key + '-condition', 'expected one enclosing condition', mod.loc(ratio))
    # stored under the ensemble name and only when replicas are missing
    tgt = ratio.targets[0]
    ok2 = isinstance(tgt, ast.Subscript) and unparse(tgt.slice) == 'mc_name'
    ctx.check(rule, key + '-key', ok2, 'stored per ensemble', 'stored under %s' % unparse(tgt), mod.loc(ratio))


# ------------------------------------------------------------------ D7

def _loop_of(mod, node):
    p = mod.parents.get(node)
    while p is not None and not isinstance(p, ast.For):
        p = mod.parents.get(p)
    return p


def _name_defs(f, name):
    return [s for s in statements(f) if isinstance(s, ast.Assign) and any(isinstance(t, ast.Name) and t.id == name for t in s.targets)]


def wiring(ctx, mod):
    """Role based: parameters are identified by position, locals by data flow."""
    rule = 'C01-D7'
    f = mod.func('derived_observable')
    params = [a.arg for a in f.args.args]
    if len(params) < 2:
        raise Unrecognised('derived_observable has fewer than two positional parameters')
    pfunc, pdata = params[0], params[1]
    sts = statements(f)

    # ---- result value: X._value = v  with (i, v) from ndenumerate(NV), NV = func(VALS)
    key = 'obs.py:derived_observable#result-value'
    st_val = [s for s in sts if isinstance(s, ast.Assign) and isinstance(s.targets[0], ast.Attribute) and s.targets[0].attr == '_value']
    if len(st_val) != 1:
        ctx.unrec(rule, key, 'expected exactly one store to ._value, found %d' % len(st_val))
    else:
        s = st_val[0]
        loop = _loop_of(mod, s)
        NV = None
        if loop is not None and isinstance(loop.target, ast.Tuple) and len(loop.target.elts) == 2 and isinstance(loop.iter, ast.Call) \
                and (mod.dotted(loop.iter.func) or '') == 'numpy.ndenumerate' and isinstance(loop.iter.args[0], ast.Name):
            NV = loop.iter.args[0].id
            ivar, vvar = unparse(loop.target.elts[0]), unparse(loop.target.elts[1])
        if NV is None:
            ctx.unrec(rule, key, 'store to ._value is not inside `for i, v in np.ndenumerate(<name>)`', mod.loc(s))
        else:
            defs = _name_defs(f, NV)
            if len(defs) != 1 or not (isinstance(defs[0].value, ast.Call) and isinstance(defs[0].value.func, ast.Name)):
                ctx.unrec(rule, key, '%s is not single-assigned from a call' % NV, mod.loc(s))
            else:
                callee = defs[0].value.func.id
                direct = unparse(s.value) == vvar and isinstance(s.targets[0].value, ast.Subscript) and unparse(s.targets[0].value.slice) == ivar
                ctx.check(rule, key, direct and callee == pfunc,
                          'result[i]._value = %s(values)[i]' % pfunc,
                          'central value of result element %s is set to %s with %s = %s' % (unparse(s.targets[0].value), unparse(s.value), NV, unparse(defs[0].value)), mod.loc(s))
                # argument: central values of the inputs
                arg = defs[0].value.args[0] if defs[0].value.args else None
                key2 = 'obs.py:derived_observable#values'
                if not isinstance(arg, ast.Name):
                    ctx.unrec(rule, key2, 'argument of %s(...) is not a local name' % pfunc, mod.loc(defs[0]))
                else:
                    vdefs = _name_defs(f, arg.id)
                    if not vdefs:
                        ctx.unrec(rule, key2, 'no definition of %s' % arg.id)
                    else:
                        attrs = set()
                        for vd in vdefs:
                            for n in ast.walk(vd.value):
                                if isinstance(n, ast.Attribute) and isinstance(n.value, ast.Name) and not (mod.dotted(n) or '').startswith('numpy'):
                                    attrs.add(n.attr)
                        ctx.check(rule, key2, attrs == {'value'}, 'function is evaluated at the central values (.value) of the inputs',
                                  'function is evaluated at %s of the inputs' % sorted(attrs), mod.loc(vdefs[0]))

    # ---- Jacobian: the same entry multiplies fluctuations and covobs gradients of one input
    dname = None
    for s in sts:
        if isinstance(s, ast.Assign) and isinstance(s.targets[0], ast.Name) and 'man_grad' in unparse(s.value):
            dname = s.targets[0].id
    if dname is None:
        ctx.unrec(rule, 'obs.py:derived_observable#deriv', 'no local assigned from man_grad')
        return
    jac = [s for s in _name_defs(f, dname) if 'jacobian' in unparse(s.value)]
    if len(jac) == 1:
        v = jac[0].value
        ok = isinstance(v, ast.Call) and isinstance(v.func, ast.Call) and (mod.dotted(v.func.func) or '') == 'autograd.jacobian' and \
            unparse(v.func.args[0]) == pfunc and v.args and isinstance(v.args[0], ast.Name)
        ctx.check(rule, 'obs.py:derived_observable#jacobian', ok, 'default derivative = autograd.jacobian(func)(values)',
                  'default derivative is %s' % unparse(v), mod.loc(jac[0]))
    else:
        ctx.unrec(rule, 'obs.py:derived_observable#jacobian', 'no unique jacobian(...) assignment')

    uses = {}
    for n in walk(f):
        if isinstance(n, ast.Subscript) and isinstance(n.value, ast.Name) and n.value.id == dname:
            stmt = n
            while not isinstance(stmt, ast.stmt):
                stmt = mod.parents[stmt]
            mode = 'array_mode' if any(pol and 'array_mode' in unparse(t) for t, pol in guards_of(mod, stmt, stop=f)) else 'scalar'
            uses.setdefault(mode, []).append((n, stmt))
    for mode in ('scalar', 'array_mode'):
        us = uses.get(mode, [])
        key = 'obs.py:derived_observable#deriv-index[%s]' % mode
        if len(us) != 2:
            ctx.unrec(rule, key, 'expected two uses of the Jacobian (fluctuations, covobs gradient), found %d' % len(us))
            continue
        idx_txt = {unparse(n.slice) for n, _ in us}
        outer = None
        good = True
        why = []
        for n, stmt in us:
            loop = _loop_of(mod, stmt)
            while loop is not None and not (isinstance(loop.target, ast.Tuple) and len(loop.target.elts) == 2 and 'enumerate' in unparse(loop.iter)):
                loop = _loop_of(mod, loop)
            # inner loop variable pair
            if loop is None:
                good = False
                why.append('no enclosing enumerate loop')
                continue
            if not (isinstance(loop.target, ast.Tuple) and len(loop.target.elts) == 2):
                good = False
                why.append('inner loop target %s' % unparse(loop.target))
                continue
            ji, jo = unparse(loop.target.elts[0]), unparse(loop.target.elts[1])
            sl = n.slice
            if not (isinstance(sl, ast.BinOp) and isinstance(sl.op, ast.Add)):
                good = False
                why.append('index %s is not <result index> + <input index>' % unparse(sl))
                continue
            right = unparse(sl.right)
            if right not in (ji, '(%s,)' % ji):
                good = False
                why.append('Jacobian column %s is not the index %s of the enclosing input loop' % (right, ji))
            # the factor multiplied is the loop's own object
            txt = unparse(stmt)
            other_objs = set(re.findall(r'\b(\w+)\.(?:deltas|covobs|idl|shape)\b', txt)) | ({jo} if mode == 'array_mode' else set())
            if mode == 'scalar' and other_objs != {jo}:
                good = False
                why.append('Jacobian column of input %s multiplies data of %s' % (jo, sorted(other_objs)))
            if mode == 'array_mode' and not re.search(r'tensordot\(%s\[[^\]]*\], %s\)' % (dname, jo), txt):
                good = False
                why.append('tensordot does not pair the Jacobian block with its own input block: %s' % txt)
            oloop = _loop_of(mod, loop)
            while oloop is not None and not (isinstance(oloop.iter, ast.Call) and 'ndenumerate' in unparse(oloop.iter.func)):
                oloop = _loop_of(mod, oloop)
            if oloop is None or unparse(sl.left) != unparse(oloop.target.elts[0]):
                good = False
                why.append('Jacobian row %s is not the index of the result loop' % unparse(sl.left))
        ctx.check(rule, key, good and len(idx_txt) == 1,
                  'fluctuations and covobs gradients of input j are both multiplied by %s[%s]' % (dname, sorted(idx_txt)[0]),
                  '; '.join(why) or 'different Jacobian entries %s' % sorted(idx_txt), mod.loc(us[0][1]))

    # ---- replica means through the same function, default = central value
    key = 'obs.py:derived_observable#replica-means'
    rv = [s for s in sts if isinstance(s, ast.Assign) and isinstance(s.value, ast.Call) and isinstance(s.value.func, ast.Name)
          and s.value.func.id == pfunc and isinstance(s.targets[0], ast.Subscript)]
    if len(rv) != 1 or not isinstance(rv[0].value.args[0], ast.Name):
        ctx.unrec(rule, key, 'no unique <dict>[name] = func(<local>) statement')
    else:
        tmpn = rv[0].value.args[0].id
        tv = [s for s in sts if isinstance(s, ast.Assign) and isinstance(s.targets[0], ast.Subscript) and unparse(s.targets[0].value) == tmpn]
        if len(tv) != 1:
            ctx.unrec(rule, key, 'no unique element store into %s' % tmpn)
        else:
            v = tv[0].value
            if isinstance(v, ast.ListComp) and len(v.generators) == 1 and not v.generators[0].ifs and isinstance(tv[0].targets[0].slice, ast.Slice):
                v = v.elt        # all elements stored at once: tmp[:] = [<element> for o in inputs]
            k = _sub_key(v)
            ok = bool(k) and k[1] == 'r_values' and k[3] is not None and unparse(k[3]) == k[0] + '.value' and k[2] == unparse(rv[0].targets[0].slice)
            ctx.check(rule, key, ok, 'replica mean of the result = func(replica means), an input lacking the replica enters with its central value',
                      'replica means are built from %s' % unparse(v), mod.loc(tv[0]))

    # ---- covobs of the result
    key = 'obs.py:derived_observable#covobs'
    cv = [c for c in walk(f) if isinstance(c, ast.Call) and call_name(c) == 'Covobs']
    if len(cv) != 1:
        ctx.unrec(rule, key, 'expected one Covobs(...) construction, found %d' % len(cv))
    else:
        c = cv[0]
        g = kwarg(c, 'grad')
        ok = len(c.args) >= 3 and isinstance(c.args[1], ast.Subscript) and isinstance(g, ast.Subscript) and \
            unparse(c.args[1].slice) == unparse(c.args[2]) == unparse(g.slice)
        ctx.check(rule, key, ok, 'result covobs(name) = (covariance[name], name, accumulated gradient[name])',
                  'Covobs built with mismatching keys: %s' % unparse(c), mod.loc(c))


def complex_branches(ctx, mod, rule='C01-D4'):
    """Obs <op> complex: every return of an arithmetic method of Obs that is reached for a complex partner is folded symbolically (self a
    real symbol s, y = a + i b, CObs(r, i) = r + i i) and compared with s <op> y resp. y <op> s."""
    import sympy as sp
    s_, a_, b_ = sp.symbols('s a b', real=True, nonzero=True)
    yv = a_ + sp.I * b_
    want = {'__add__': s_ + yv, '__radd__': yv + s_, '__sub__': s_ - yv, '__rsub__': yv - s_, '__mul__': s_ * yv, '__rmul__': yv * s_, '__truediv__': s_ / yv, '__rtruediv__': yv / s_}
    n = 0
    for name, w in want.items():
        try:
            f = mod.func('Obs.' + name)
        except Exception:
            continue
        yname = f.args.args[1].arg if len(f.args.args) > 1 else 'y'

        def tr(e):
            if isinstance(e, ast.Name):
                if e.id == 'self':
                    return s_
                if e.id == yname:
                    return yv
                raise Unrecognised('name %s' % e.id)
            if isinstance(e, ast.Attribute) and isinstance(e.value, ast.Name) and e.value.id == yname and e.attr in ('real', 'imag'):
                return a_ if e.attr == 'real' else b_
            if isinstance(e, ast.Constant) and isinstance(e.value, (int, float)) and not isinstance(e.value, bool):
                return sp.nsimplify(e.value, rational=True)
            if isinstance(e, ast.UnaryOp) and isinstance(e.op, ast.USub):
                return -tr(e.operand)
            if isinstance(e, ast.BinOp) and isinstance(e.op, (ast.Add, ast.Sub, ast.Mult, ast.Div)):
                x, y_ = tr(e.left), tr(e.right)
                return {ast.Add: lambda: x + y_, ast.Sub: lambda: x - y_, ast.Mult: lambda: x * y_, ast.Div: lambda: x / y_}[type(e.op)]()
            if isinstance(e, ast.Call) and call_name(e) == 'CObs' and len(e.args) == 2:
                return tr(e.args[0]) + sp.I * tr(e.args[1])
            # the complex partner's own methods / the functions of a complex number
            if isinstance(e, ast.Call) and isinstance(e.func, ast.Attribute) and e.func.attr in ('conjugate', 'conj') and not e.args:
                return sp.conjugate(tr(e.func.value))
            if isinstance(e, ast.Call) and call_name(e) in ('abs', 'absolute') and len(e.args) == 1 and (isinstance(e.func, ast.Name) or unparse(e.func) in ('np.abs', 'np.absolute')):
                return sp.Abs(tr(e.args[0]))
            if isinstance(e, ast.Call) and unparse(e.func) in ('np.conj', 'np.conjugate') and len(e.args) == 1:
                return sp.conjugate(tr(e.args[0]))
            if isinstance(e, ast.BinOp) and isinstance(e.op, ast.Pow) and isinstance(e.right, ast.Constant) and isinstance(e.right.value, int):
                return tr(e.left) ** e.right.value
            raise Unrecognised(unparse(e))
        for r in [x for x in statements(f) if isinstance(x, ast.Return) and x.value is not None]:
            g = [(unparse(t), pol) for t, pol in guards_of(mod, r, stop=f)]
            if not any(pol and 'complex' in t and 'isinstance' in t for t, pol in g):
                continue
            n += 1
            key = 'obs.py:Obs.%s#complex-partner' % name
            try:
                got = tr(r.value)
            except Unrecognised as ex:
                ctx.unrec(rule, key, 'cannot fold %s (%s)' % (unparse(r.value), ex), mod.loc(r))
                continue
            ok = sp.simplify(sp.expand(got - w)) == 0
            ctx.check(rule, key, ok, '%s = %s' % (unparse(r.value), w), 'for a complex partner y = a + i b the method returns %s = %s, the operation is %s' % (unparse(r.value), sp.simplify(got), sp.simplify(w)), mod.loc(r))
    ctx.floor('complex-partner branches of Obs arithmetic', n, 5)


def scalefactor_unconditional(ctx, mod, rule):
    """the missing-replica scale factors of an input are computed for every input: a shortcut that skips them for inputs that "have all
    names" compares counts of different things (names include covariance names) and drops the up-weighting"""
    f = mod.func('derived_observable')
    calls = [c for c in walk(f) if isinstance(c, ast.Call) and call_name(c) == '_compute_scalefactor_missing_rep']
    key = 'obs.py:derived_observable#scalefactor-unconditional'
    if not calls:
        ctx.unrec(rule, key, 'no call of _compute_scalefactor_missing_rep', mod.loc(f))
        return
    bad = []
    for c in calls:
        g = [(unparse(t_), pol) for t_, pol in guards_of(mod, c, stop=f) if 'array_mode' not in unparse(t_) and 'isinstance' not in unparse(t_)]
        st = c
        while not isinstance(st, ast.stmt):
            st = mod.parents[st]
        # alternatives: another binding of the same target that is not this call
        if isinstance(st, ast.Assign) and isinstance(st.targets[0], ast.Name):
            alts = [s_ for s_ in statements(f) if isinstance(s_, ast.Assign) and isinstance(s_.targets[0], ast.Name) and s_.targets[0].id == st.targets[0].id and s_ is not st
                    and not any(isinstance(y, ast.Call) and call_name(y) == '_compute_scalefactor_missing_rep' for y in walk(s_.value))]
        else:
            alts = []
        if g or alts:
            bad.append((c, g, [unparse(a_) for a_ in alts]))
    ctx.check(rule, key, not bad, 'every input gets its missing-replica scale factors (%d call sites, none conditional)' % len(calls),
              'the scale factors are computed only under %s (otherwise %s): inputs that lack whole replicas but carry covariance names are not up-weighted' % (bad[0][1], bad[0][2]) if bad else '',
              mod.loc(bad[0][0]) if bad else None)


# ------------------------------------------------------------------ run

def run(ctx):
    ctx.rule('C01-D1', 'manual gradients equal sympy derivatives')
    ctx.rule('C01-D2', 'autograd-differentiated functions use autograd.numpy only')
    ctx.rule('C01-D3', 'elementary-function methods apply the function they are named after')
    ctx.rule('C01-D4', 'CObs arithmetic formulas per dispatch branch')
    ctx.rule('C01-D5', 'alignment by configuration number (scatter/gather, expansion arguments, parallel lists)')
    ctx.rule('C01-D6', 'rescaling factors')
    ctx.rule('C01-D7', 'value and chain-rule wiring')
    ctx.not_decided += ['correctness of autograd / numdifftools derivatives', 'independence of floating-point results from expression splitting',
                        'num_grad accuracy']
    obs = ctx.repo.mod('obs')
    n_mg = 0
    n_ag = 0
    for call, qual in mangrad_sites(obs):
        if kwarg(call, 'man_grad') is not None:
            n_mg += 1
            ctx.guarded('C01-D1', 'obs.py:%s@man_grad' % qual, grad_obligations, ctx, obs, call, qual)
        else:
            n_ag += 1
            ctx.guarded('C01-D2', 'obs.py:%s@autograd' % qual, autograd_discipline, ctx, obs, call, qual)
    lin = ctx.repo.mod('linalg')
    n_lin = 0
    for call, qual in mangrad_sites(lin):
        if kwarg(call, 'man_grad') is None:
            n_lin += 1
            ctx.guarded('C01-D2', 'linalg.py:%s@autograd' % qual, autograd_discipline, ctx, lin, call, qual)
    ctx.floor('derived_observable sites with man_grad in obs.py', n_mg, 20)
    ctx.floor('derived_observable sites without man_grad in obs.py', n_ag, 5)
    ctx.floor('derived_observable sites without man_grad in linalg.py', n_lin, 10)
    ctx.info['man_grad_sites'] = n_mg
    ctx.info['autograd_sites'] = n_ag + n_lin
    ctx.rule('C01-D8', 'no hidden state shared between calls in the propagation code')
    for mn_ in ('obs', 'linalg', 'covobs'):
        mm_ = ctx.repo.mod(mn_)
        ctx.guarded('C01-D8', mn_ + '@hidden-state', hiddenstate.check, ctx, 'C01-D8', mm_, [q for q, _ in mm_.functions() if q.count('.') <= 1], 'the derived observable')
    ctx.guarded('C01-D3', 'obs.py:Obs@naming', naming, ctx, obs)
    ctx.guarded('C01-D4', 'obs.py:CObs@formulas', cobs_formulas, ctx, obs)
    ctx.guarded('C01-D5', 'obs.py:_expand_deltas_for_merge', expand_for_merge, ctx, obs)
    ctx.guarded('C01-D5', 'obs.py:derived_observable@alignment', derived_alignment, ctx, obs)
    from .. import aliasloop
    n_acc = ctx.guarded('C01-D5', 'obs.py@loop-accumulators', aliasloop.stale_accumulator, ctx, 'C01-D5', obs, [q for q, _ in obs.functions() if q.count('.') <= 1]) or 0
    ctx.floor('C01-D5 per-iteration accumulators (dicts summed up and consumed in one loop)', n_acc, 1)
    ctx.guarded('C01-D6', 'obs.py:_compute_scalefactor_missing_rep', scalefactor, ctx, obs)
    from . import C04
    ctx.guarded('C01-D5', 'obs.py:_merge_idx', C04.merge_idx_rules, ctx, obs, 'C01-D5', (('_merge_idx', 'union'),))
    ctx.guarded('C01-D5', 'obs.py:_check_lists_equal', C04.check_lists_equal_eval, ctx, obs, 'C01-D5')
    ctx.guarded('C01-D5', 'obs.py:derived_observable#scalefactor-unconditional', scalefactor_unconditional, ctx, obs, 'C01-D5')
    ctx.guarded('C01-D4', 'obs.py@complex-partner', complex_branches, ctx, obs)
    ctx.guarded('C01-D7', 'obs.py:derived_observable@wiring', wiring, ctx, obs)
    from .. import unusedparams, leakedloop
    ctx.rule('C01-D9', 'every accepted option is read (no silently ignored parameter); no loop variable read after its loop')
    for mn_ in ('obs', 'covobs'):
        ctx.guarded('C01-D9', mn_ + '@parameters', unusedparams.check, ctx, 'C01-D9', ctx.repo.mod(mn_))
        ctx.guarded('C01-D9', mn_ + '@loop-variables', leakedloop.check, ctx, 'C01-D9', ctx.repo.mod(mn_))



SELFTEST = [
    ('benign-block-fast-path', 'pyerrors/obs.py', "    ret = np.zeros(new_idx[-1] - new_idx[0] + 1)\n    for i in range(shape):\n        ret[idx[i] - new_idx[0]] = deltas[i]", "    if type(idx) is range and type(new_idx) is range and idx.step == new_idx.step:\n        blk = np.zeros(len(new_idx))\n        first = (idx.start - new_idx.start) // idx.step\n        blk[first:first + shape] = deltas\n        return blk * len(new_idx) / len(idx) * scalefactor\n    ret = np.zeros(new_idx[-1] - new_idx[0] + 1)\n    for i in range(shape):\n        ret[idx[i] - new_idx[0]] = deltas[i]", 'BENIGN'),
    ('block-fast-path-no-step-division', 'pyerrors/obs.py', "    ret = np.zeros(new_idx[-1] - new_idx[0] + 1)\n    for i in range(shape):\n        ret[idx[i] - new_idx[0]] = deltas[i]", "    if type(idx) is range and type(new_idx) is range and idx.step == new_idx.step:\n        blk = np.zeros(len(new_idx))\n        first = idx.start - new_idx.start\n        blk[first:first + shape] = deltas\n        return blk * len(new_idx) / len(idx) * scalefactor\n    ret = np.zeros(new_idx[-1] - new_idx[0] + 1)\n    for i in range(shape):\n        ret[idx[i] - new_idx[0]] = deltas[i]", 'C01-D5'),
    ('grad-tanh', 'pyerrors/obs.py', "man_grad=[1 / np.cosh(self.value) ** 2]", "man_grad=[1 / np.cosh(self.value)]", 'C01-D1'),
    ('grad-truediv', 'pyerrors/obs.py', "man_grad=[1 / y.value, - self.value / y.value ** 2]", "man_grad=[1 / y.value, self.value / y.value ** 2]", 'C01-D1'),
    ('grad-cobs-mul', 'pyerrors/obs.py', "man_grad=[other.imag.value, self.imag.value, other.real.value, self.real.value]", "man_grad=[other.imag.value, self.imag.value, other.real.value, self.imag.value]", 'C01-D1'),
    ('grad-rpow', 'pyerrors/obs.py', "man_grad=[y ** self.value * np.log(y)]", "man_grad=[y ** self.value * np.log(self.value)]", 'C01-D1'),
    ('np-in-autograd-lambda', 'pyerrors/obs.py', "lambda x: anp.arcsinh(x[0])", "lambda x: np.arcsinh(x[0])", 'C01-D2'),
    ('np-linalg-op', 'pyerrors/linalg.py', "return _scalar_mat_op(anp.linalg.det, x)", "return _scalar_mat_op(np.linalg.det, x)", 'C01-D2'),
    ('wrong-named-function', 'pyerrors/obs.py', "lambda x: anp.arccos(x[0])", "lambda x: anp.arcsin(x[0])", 'C01-D3'),
    ('cobs-sub-sign', 'pyerrors/obs.py', "return CObs(self.real - other.real, self.imag - other.imag)", "return CObs(self.real - other.real, self.imag + other.imag)", 'C01-D4'),
    ('cobs-rtruediv', 'pyerrors/obs.py', "(self.real * other.imag - self.imag * other.real) / r)", "(self.imag * other.real - self.real * other.imag) / r)", 'C01-D4'),
    ('cobs-mul-mixed', 'pyerrors/obs.py', "self.imag * other.real + self.real * other.imag)", "self.imag * other.real - self.real * other.imag)", 'C01-D4'),
    ('expand-scale-inverted', 'pyerrors/obs.py', "* len(new_idx) / len(idx) * scalefactor", "* len(idx) / len(new_idx) * scalefactor", 'C01-D6'),
    ('expand-scale-dropped', 'pyerrors/obs.py', "for i in range(len(new_idx))]) * len(new_idx) / len(idx) * scalefactor", "for i in range(len(new_idx))]) * len(new_idx) / len(idx)", 'C01-D6'),
    ('expand-fastpath-drops-scale', 'pyerrors/obs.py', "                return deltas * scalefactor", "                return deltas", 'C01-D6'),
    ('expand-scatter-by-position', 'pyerrors/obs.py', "ret[idx[i] - new_idx[0]] = deltas[i]", "ret[idx[i] - idx[0]] = deltas[i]", 'C01-D5'),
    ('expand-wrong-object', 'pyerrors/obs.py', "_expand_deltas_for_merge(obs.deltas[name], obs.idl[name], obs.shape[name], new_idl_d[name]", "_expand_deltas_for_merge(obs.deltas[name], data.ravel()[0].idl[name], obs.shape[name], new_idl_d[name]", 'C01-D5'),
    ('scalefactor-own-lengths', 'pyerrors/obs.py', "/ sum([len(new_idl_d[name]) for name in mc_idl_d])", "/ sum([len(obs.idl[name]) for name in mc_idl_d])", 'C01-D6'),
    ('scalefactor-condition', 'pyerrors/obs.py', "if len(mc_idl_d) > 0 and len(mc_idl_d) < len(new_mc_idl_d):", "if len(mc_idl_d) > 1 and len(mc_idl_d) < len(new_mc_idl_d):", 'C01-D6'),
    ('merge-idx-weak-range-test', 'pyerrors/obs.py', "    idtest = [list(idrange), idunion]\n    if _check_lists_equal(idtest):\n        return idrange\n\n    return idunion", "    if idrange[-1] == idunion[-1] and len(idrange) == len(idunion):\n        return idrange\n\n    return idunion", 'C01-D5'),
    ('deriv-index-swapped', 'pyerrors/obs.py', "new_grad[name] = new_grad.get(name, 0) + deriv[i_val + j_obs] * obs.covobs[name].grad", "new_grad[name] = new_grad.get(name, 0) + deriv[j_obs + i_val] * obs.covobs[name].grad", 'C01-D7'),
    ('value-from-rvalues', 'pyerrors/obs.py', "tmp_values[i] = item.r_values.get(name, item.value)", "tmp_values[i] = item.r_values.get(name, 0.0)", 'C01-D7'),
    # behaviour preserving edits: must stay silent
    ('benign-grad-rewrite', 'pyerrors/obs.py', "man_grad=[1 / np.cosh(self.value) ** 2]", "man_grad=[1 - np.tanh(self.value) ** 2]", 'BENIGN'),
    ('benign-scale-reorder', 'pyerrors/obs.py', "* len(new_idx) / len(idx) * scalefactor", "* (scalefactor * len(new_idx) / len(idx))", 'BENIGN'),
    ('benign-cobs-rewrite', 'pyerrors/obs.py', "return CObs(self.real - other.real, self.imag - other.imag)", "return CObs(-other.real + self.real, -(other.imag - self.imag))", 'BENIGN'),
]

LEVEL_TEXT = ('decides only: (D1) all manual gradients in obs.py equal the sympy derivative of their lambda; (D2) functions differentiated by autograd '
              'use autograd.numpy only; (D3) the 15 elementary methods apply the function they are named after; (D4) CObs arithmetic formulas per '
              'dispatch branch; (D5) scatter/gather by configuration number and argument pairing in derived_observable; (D6) the two rescaling '
              'factors; (D7) value / Jacobian / replica-mean wiring. A proof of these obligations for every input, not of floating point results.')
TECHNIQUE = 'AST extraction of lambdas/gradients + sympy differentiation and equality; dataflow/role-based structural rules on derived_observable'
