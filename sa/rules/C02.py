"""C02  Gamma-method error estimate equals Wolff's estimator.

Decides only: that every formula in Obs.gamma_method / Obs._calc_gamma / Covobs.errsq is, modulo algebra,
the formula of Wolff (hep-lat/0306017) eqs. 35, 41, 42, 49, 52 and of Schaefer et al. for the tail; that
vector quantities of the window search are evaluated at the same lag W they are used for; that data and
pair-count autocorrelations use the same estimator; that the FFT padding is sufficient.  The numbers
produced by FFT / summation are not decided.
"""
import ast

import sympy as sp

from ..srcmodel import Unrecognised, unparse, call_name, kwarg, walk, statements, guards_of, const
from ..symx import decide_equal, counterpoint, _FUNCS

LEVEL = 'proof'
EXPLANATION = ('formula obligations: each assignment of Obs.gamma_method, located by (slot, guard context), is translated to a sympy term over '
               'opaque slot functions (rho(W), tau_W(W), Gamma(W), N, S, tau_exp, N_sigma) with single-assignment locals inlined and vector '
               'expressions evaluated at a symbolic element index, and compared with the reference formula of the paper')

W = sp.Symbol('W', positive=True, integer=True)
N = sp.Symbol('N', positive=True)
S_ = sp.Symbol('S', positive=True)
TEXP = sp.Symbol('tau_exp', positive=True)
NSIG = sp.Symbol('N_sigma', positive=True)
WMAX = sp.Symbol('w_max', positive=True, integer=True)
Fg = sp.Function('Gamma', positive=True)
Frho = sp.Function('rho', real=True)
Fdrho = sp.Function('drho', positive=True)
Fnt = sp.Function('tauW', positive=True)
Fndt = sp.Function('dtauW', positive=True)
T_INT = sp.Symbol('tau_int', positive=True)
SIG = sp.Symbol('sigma_e', positive=True)
DSIG = sp.Symbol('dsigma_e', positive=True)
ERRSQ = sp.Symbol('errsq', positive=True)
K = sp.Symbol('k', integer=True, positive=True)

VEC_SLOTS = {'e_rho': Frho, 'e_drho': Fdrho, 'e_n_tauint': Fnt, 'e_n_dtauint': Fndt, 'e_gamma': Fg}
SCALAR_SLOTS = {'e_tauint': T_INT, 'e_dvalue': SIG, 'e_ddvalue': DSIG, 'S': S_, 'tau_exp': TEXP, 'N_sigma': NSIG}


class GM:
    """Translator for the body of gamma_method."""

    def __init__(self, mod, func):
        self.mod = mod
        self.f = func
        self.sts = statements(func)
        # loop variables that are dictionary keys (ensemble / replica names)
        self.keyvars = set()
        self.lagvars = set()
        for s in self.sts:
            if isinstance(s, ast.For):
                it = unparse(s.iter)
                names = [n.id for n in ast.walk(s.target) if isinstance(n, ast.Name)]
                if 'names' in it or 'e_content' in it:
                    self.keyvars.update(names)
                elif isinstance(s.iter, ast.Call) and call_name(s.iter) == 'range':
                    self.lagvars.update(names)
        self.locals = {}
        for s in self.sts:
            if isinstance(s, ast.Assign) and len(s.targets) == 1 and isinstance(s.targets[0], ast.Name):
                self.locals.setdefault(s.targets[0].id, []).append(s)

    # -- slot recognition: self.<slot>[key] or <local dict>[key]
    def slot_of(self, node):
        if isinstance(node, ast.Subscript) and isinstance(node.slice, ast.Name) and node.slice.id in self.keyvars:
            b = node.value
            if isinstance(b, ast.Attribute) and isinstance(b.value, ast.Name) and b.value.id == 'self':
                return b.attr
            if isinstance(b, ast.Name):
                return b.id
        return None

    def is_N(self, node):
        # np.sum([self.shape[r] for r in ...])  = number of measurements of the ensemble
        if isinstance(node, ast.Call) and (self.mod.dotted(node.func) or '') in ('numpy.sum', 'sum') and node.args:
            a = node.args[0]
            if isinstance(a, (ast.ListComp, ast.GeneratorExp)) and isinstance(a.elt, ast.Subscript) and unparse(a.elt.value) == 'self.shape':
                return True
        return False

    def T(self, node, j=None):
        """sympy value of `node`; j = symbolic element index when a vector is evaluated elementwise."""
        if self.is_N(node):
            return N
        slot = self.slot_of(node)
        if slot is not None:
            if slot in VEC_SLOTS:
                if j is None:
                    raise Unrecognised('array slot %s used as a scalar' % unparse(node))
                return VEC_SLOTS[slot](j)
            if slot in SCALAR_SLOTS:
                return SCALAR_SLOTS[slot]
            raise Unrecognised('unknown slot %s' % unparse(node))
        if isinstance(node, ast.Subscript):
            base = node.value
            sl = node.slice
            if isinstance(sl, ast.Slice):
                if j is None:
                    raise Unrecognised('slice in scalar context: %s' % unparse(node))
                if sl.step is not None:
                    raise Unrecognised('strided slice %s' % unparse(node))
                lo = self.T(sl.lower) if sl.lower is not None else sp.Integer(0)
                return self.T(base, j + lo)
            # scalar index into a vector
            return self.T(base, self.T(sl))
        if isinstance(node, ast.Name):
            if node.id in self.lagvars:
                return W
            if node.id == 'w_max':
                return WMAX
            defs = self.locals.get(node.id, [])
            if len(defs) == 1:
                return self.T(defs[0].value, j)
            raise Unrecognised('name %s is not a single-assignment local' % node.id)
        if isinstance(node, ast.Constant):
            v = node.value
            if isinstance(v, bool) or not isinstance(v, (int, float)):
                raise Unrecognised('constant %r' % (v,))
            return sp.nsimplify(v, rational=True)
        if isinstance(node, ast.UnaryOp) and isinstance(node.op, ast.USub):
            return -self.T(node.operand, j)
        if isinstance(node, ast.BinOp):
            a, b = self.T(node.left, j), self.T(node.right, j)
            op = node.op
            if isinstance(op, ast.Add):
                return a + b
            if isinstance(op, ast.Sub):
                return a - b
            if isinstance(op, ast.Mult):
                return a * b
            if isinstance(op, ast.Div):
                return a / b
            if isinstance(op, ast.Pow):
                return a ** b
            if isinstance(op, ast.FloorDiv):
                return sp.floor(a / b)
            raise Unrecognised('operator in %s' % unparse(node))
        if isinstance(node, ast.Call):
            d = self.mod.dotted(node.func) or ''
            last = d.rpartition('.')[2]
            if d.startswith('numpy.') or d in ('abs', 'len'):
                if last == 'arange':
                    if j is None:
                        raise Unrecognised('arange in scalar context')
                    if len(node.args) == 1:
                        return j
                    return j + self.T(node.args[0])
                if last == 'cumsum' and node.args and isinstance(node.args[0], ast.Call) and call_name(node.args[0]) == 'concatenate':
                    if j is None:
                        raise Unrecognised('cumsum in scalar context')
                    parts = node.args[0].args[0]
                    if isinstance(parts, (ast.Tuple, ast.List)) and len(parts.elts) == 2 and isinstance(parts.elts[0], ast.List) and len(parts.elts[0].elts) == 1:
                        c0 = self.T(parts.elts[0].elts[0])
                        # element k>=1 of the concatenation is element k-1 of the second part
                        return c0 + sp.Sum(self.T(parts.elts[1], K - 1), (K, 1, j))
                    raise Unrecognised('cumsum/concatenate shape %s' % unparse(node))
                if last == 'len':
                    if len(node.args) == 1 and unparse(node.args[0]) in ('e_content[e_name]', 'self.e_content[e_name]'):
                        return sp.Symbol('n_replica', integer=True, positive=True)      # number of replicas of the ensemble
                    raise Unrecognised('len in formula')
                if last in _FUNCS and not node.keywords:
                    return _FUNCS[last](*[self.T(a, j) for a in node.args])
            if isinstance(node.func, ast.Attribute) and node.func.attr == 'errsq' and not node.args:
                return ERRSQ
            if (d in ('max', 'min') or last in ('maximum', 'minimum', 'fmax', 'fmin')) and len(node.args) == 2 and not node.keywords:
                a_, b_ = self.T(node.args[0], j), self.T(node.args[1], j)
                return sp.Max(a_, b_) if (d == 'max' or last in ('maximum', 'fmax')) else sp.Min(a_, b_)
            raise Unrecognised('call %s' % unparse(node))
        raise Unrecognised('cannot translate %s' % unparse(node))

    # -- guard context of a statement
    def context(self, stmt):
        labels = []
        for t, pol in guards_of(self.mod, stmt, stop=self.f):
            txt = unparse(t)
            if 'tiny' in txt:
                labels.append(('zerovar', pol))
            elif 'tau_exp' in txt and '>' in txt:
                labels.append(('texp', pol))
            elif isinstance(t, ast.Compare) and self.slot_of(t.left) == 'S' and isinstance(t.ops[0], ast.Eq) and const(t.comparators[0]) == 0:
                labels.append(('S0', pol))
            elif 'texp' in txt or 'tau_exp' in txt:
                labels.append(('texp', pol))
            elif 'g_w' in txt or 'N_sigma' in txt or ('w_max' in txt and '>=' in txt):
                labels.append(('window', pol))
            elif '_dvalue' in txt:
                labels.append(('dvalue0', pol))
            else:
                labels.append((txt, pol))
        return tuple(labels)


def ctx_name(c):
    if ('zerovar', True) in c:
        return 'zero-variance'
    if ('texp', True) in c and ('window', True) in c:
        return 'tail'
    if ('texp', False) in c and ('S0', True) in c:
        return 'S=0'
    if ('texp', False) in c and ('S0', False) in c and ('window', True) in c:
        return 'standard'
    if ('dvalue0', True) in c:
        return 'total-zero'
    if ('dvalue0', False) in c:
        return 'total'
    if not c:
        return 'common'
    return 'other:' + repr(c)


def reference():
    half = sp.Rational(1, 2)
    bias = (1 + (2 * W + 1) / N) / (1 + 1 / N)
    sig = sp.sqrt(2 * T_INT * Fg(0) * (1 + 1 / N) / N)
    return {
        ('e_tauint', 'standard'): Fnt(W) * bias,
        ('e_dtauint', 'standard'): Fndt(W),
        ('e_dvalue', 'standard'): sig,
        ('e_ddvalue', 'standard'): SIG * sp.sqrt((W + half) / N),
        ('e_windowsize', 'standard'): W,
        ('e_tauint', 'tail'): Fnt(W) * bias + TEXP * sp.Abs(Frho(W + 1)),
        ('e_dtauint', 'tail'): sp.sqrt(Fndt(W) ** 2 + TEXP ** 2 * Fdrho(W + 1) ** 2),
        ('e_dvalue', 'tail'): sig,
        ('e_ddvalue', 'tail'): SIG * sp.sqrt((W + half) / N),
        ('e_windowsize', 'tail'): W,
        ('e_tauint', 'S=0'): half,
        ('e_dtauint', 'S=0'): sp.Integer(0),
        ('e_dvalue', 'S=0'): sp.sqrt(Fg(0) / (N - 1)),
        ('e_ddvalue', 'S=0'): SIG * sp.sqrt(half / N),
        ('e_windowsize', 'S=0'): sp.Integer(0),
        ('e_tauint', 'zero-variance'): half,
        ('e_dtauint', 'zero-variance'): sp.Integer(0),
        ('e_dvalue', 'zero-variance'): sp.Integer(0),
        ('e_ddvalue', 'zero-variance'): sp.Integer(0),
        ('e_windowsize', 'zero-variance'): sp.Integer(0),
    }


def formulas(ctx, mod):
    rule = 'C02-D1'
    f = mod.func('Obs.gamma_method')
    g = GM(mod, f)
    ref = reference()
    found = {}
    j = sp.Symbol('j', integer=True, positive=True)
    for s in g.sts:
        if not isinstance(s, ast.Assign) or len(s.targets) != 1:
            continue
        t = s.targets[0]
        slot = g.slot_of(t)
        if slot is None:
            continue
        cn = ctx_name(g.context(s))
        found.setdefault((slot, cn), []).append(s)
    # scalar slots per branch
    for (slot, cn), want in ref.items():
        key = 'obs.py:Obs.gamma_method#%s[%s]' % (slot, cn)
        sts = found.get((slot, cn), [])
        if len(sts) != 1:
            ctx.unrec(rule, key, 'expected exactly one assignment of self.%s in the %s branch, found %d' % (slot, cn, len(sts)))
            continue
        s = sts[0]
        try:
            got = g.T(s.value)
        except Unrecognised as e:
            ctx.unrec(rule, key, str(e), mod.loc(s))
            continue
        r = decide_equal(got, want, ctx.seed)
        if r is True:
            ctx.holds(rule, key, '%s == %s' % (unparse(s.value), want), mod.loc(s))
        elif r is False:
            ctx.violated(rule, key, 'self.%s in the %s branch is %s, the Gamma method prescribes %s (counter-point %s)' % (
                slot, cn, got, want, counterpoint(got, want)), mod.loc(s))
        else:
            ctx.unrec(rule, key, 'undecided: %s vs %s' % (got, want), mod.loc(s))
    # any assignment of these slots in a context the table does not know
    for (slot, cn), sts in found.items():
        if slot in ('e_tauint', 'e_dtauint', 'e_dvalue', 'e_ddvalue', 'e_windowsize') and (slot, cn) not in ref and cn not in ('cov',):
            if cn == 'common' and slot in ('e_dvalue', 'e_ddvalue'):
                continue   # covobs loop, handled below
            ctx.unrec(rule, 'obs.py:Obs.gamma_method#%s[%s]' % (slot, cn), 'assignment in a branch the rule table does not know', mod.loc(sts[0]))

    # vector quantities (elementwise at symbolic index j)
    vec_ref = {
        'e_rho': Fg(j) / Fg(0),
        'e_n_tauint': sp.Rational(1, 2) + sp.Sum(Frho(K), (K, 1, j)),
        'e_n_dtauint': 2 * Fnt(j) * sp.sqrt(sp.Abs(j + sp.Rational(1, 2) - Fnt(j)) / N),
    }
    for slot, want in vec_ref.items():
        key = 'obs.py:Obs.gamma_method#%s[vector]' % slot
        sts = [s for s in found.get((slot, 'common'), []) if not (isinstance(s.value, ast.Call) and call_name(s.value) == 'zeros') and not isinstance(s.value, ast.Dict)]
        if len(sts) != 1:
            ctx.unrec(rule, key, 'expected one defining assignment of self.%s, found %d' % (slot, len(sts)))
            continue
        s = sts[0]
        try:
            got = g.T(s.value, j)
        except Unrecognised as e:
            ctx.unrec(rule, key, str(e), mod.loc(s))
            continue
        r = True if sp.simplify(got - want) == 0 else decide_equal(got, want, ctx.seed)
        if r is True:
            ctx.holds(rule, key, 'element j of %s == %s' % (unparse(s.value), want), mod.loc(s))
        elif r is False:
            ctx.violated(rule, key, 'self.%s[j] is %s, the Gamma method prescribes %s' % (slot, got, want), mod.loc(s))
        else:
            ctx.unrec(rule, key, 'undecided: %s vs %s' % (got, want), mod.loc(s))

    # ---- D2: window criteria evaluated at the lag they are used for
    rule2 = 'C02-D2'
    tauW = S_ / sp.log((2 * Fnt(W) + 1) / (2 * Fnt(W) - 1))
    gref = sp.exp(-W / tauW) - tauW / sp.sqrt(W * N)
    tests = {}
    for s in g.sts:
        if isinstance(s, ast.If):
            cn = g.context(s)
            sub = [x for x in s.body if isinstance(x, ast.Break)] or [x for x in statements(ast.Module(body=s.body, type_ignores=[])) if isinstance(x, ast.Break)]
            if sub and isinstance(mod.parents.get(s), ast.For):
                tests['tail' if ('texp', True) in cn else 'standard'] = s
    fallback_lims = {}
    for branch, want in (('standard', gref), ('tail', Frho(W) - NSIG * Fdrho(W))):
        key = 'obs.py:Obs.gamma_method#window-criterion[%s]' % branch
        s = tests.get(branch)
        if s is None:
            ctx.unrec(rule2, key, 'window loop test not found')
            continue
        t = s.test
        first = t.values[0] if isinstance(t, ast.BoolOp) and isinstance(t.op, ast.Or) else t
        if not (isinstance(first, ast.Compare) and len(first.ops) == 1 and isinstance(first.ops[0], ast.Lt) and const(first.comparators[0]) == 0):
            ctx.unrec(rule2, key, 'criterion is not of the form <expr> < 0: %s' % unparse(first), mod.loc(s))
            continue
        try:
            got = g.T(first.left)
        except Unrecognised as e:
            ctx.unrec(rule2, key, str(e), mod.loc(s))
            continue
        r = decide_equal(got, want, ctx.seed)
        if r is True:
            ctx.holds(rule2, key, 'criterion tested in iteration W is the criterion at lag W: %s' % want, mod.loc(s))
        elif r is False:
            ctx.violated(rule2, key, 'in iteration W=n the loop tests %s, the criterion at lag W is %s (index offset or formula differs)' % (got, want), mod.loc(s))
        else:
            ctx.unrec(rule2, key, 'undecided %s vs %s' % (got, want), mod.loc(s))
        # loop range starts at 1
        loop = mod.parents.get(s)
        ok = isinstance(loop.iter, ast.Call) and call_name(loop.iter) == 'range' and len(loop.iter.args) == 2 and const(loop.iter.args[0]) == 1
        ctx.check(rule2, key + '-range', ok, 'window search starts at W=1', 'window search runs over %s' % unparse(loop.iter), mod.loc(loop))
        # the largest admissible lag terminates the search
        if isinstance(t, ast.BoolOp) and len(t.values) == 2:
            second = t.values[1]
            try:
                hi = g.T(loop.iter.args[1])
                if isinstance(second, ast.Compare) and isinstance(second.ops[0], (ast.GtE, ast.Gt, ast.Eq)):
                    lim = g.T(second.comparators[0]) + (1 if isinstance(second.ops[0], ast.Gt) else 0)
                    # the loop must reach `lim` before it ends: lim <= hi - 1
                    ok = sp.simplify(hi - 1 - lim) in (0, 1) or sp.simplify(hi - 1 - lim).is_nonnegative
                    ctx.check(rule2, key + '-fallback', bool(ok), 'fallback lag %s is reached by the loop (last W = %s)' % (lim, hi - 1),
                              'fallback lag %s is never reached by range(1, %s): the window would stay undefined' % (lim, hi), mod.loc(s))
                    fallback_lims[branch] = lim
            except Unrecognised as e:
                ctx.unrec(rule2, key + '-fallback', str(e))
    # definitional constants: the largest admissible lag is w_max - 1 for the standard search and w_max // 2 - 2 for the search
    # with exponential tail (it needs rho and drho one lag further and only half of the lags are used); compared as values, not text
    for branch in ('standard', 'tail'):
        key = 'obs.py:Obs.gamma_method#largest-admissible-lag[%s]' % branch
        if branch not in fallback_lims:
            ctx.unrec(rule2, key, 'fallback disjunct  n >= <lag>  not found')
            continue
        try:
            wm = g.T(ast.parse('w_max', mode='eval').body)
        except Unrecognised as e:
            ctx.unrec(rule2, key, str(e))
            continue
        want_lim = wm - 1 if branch == 'standard' else sp.floor(wm / 2) - 2
        d_ = sp.simplify(fallback_lims[branch] - want_lim)
        if d_ != 0:
            # exact evaluation on a grid of w_max values decides floor expressions that simplify() leaves alone
            syms = sorted(d_.free_symbols, key=str)
            vals = set()
            if len(syms) == 1:
                vals = {sp.simplify(d_.subs(syms[0], k)) for k in range(8, 80)}
            d_ = 0 if vals == {0} else d_
        ctx.check(rule2, key, d_ == 0, 'search stops at the latest at lag %s' % want_lim,
                  'the search falls back at lag %s, the largest admissible lag of this branch is %s' % (fallback_lims[branch], want_lim), mod.loc(tests[branch]))
    # drho is computed before it is used (tail branch)
    key = 'obs.py:Obs.gamma_method#drho-before-use[tail]'
    s = tests.get('tail')
    if s is not None:
        loop = mod.parents.get(s)
        pre = [x for x in loop.body[:loop.body.index(s)] if isinstance(x, ast.Expr) and isinstance(x.value, ast.Call) and call_name(x.value) == '_compute_drho']
        holder = mod.parents.get(loop)
        body = holder.body if loop in holder.body else holder.orelse
        before = [x for x in body[:body.index(loop)] if isinstance(x, ast.Expr) and isinstance(x.value, ast.Call) and call_name(x.value) == '_compute_drho']
        try:
            ok = len(pre) == 1 and sp.simplify(g.T(pre[0].value.args[0]) - (W + 1)) == 0 and len(before) == 1 and const(before[0].value.args[0]) == 1
        except Unrecognised:
            ok = False
        ctx.check(rule2, key, ok, 'drho(1) before the loop and drho(W+1) at the top of iteration W: drho(W), drho(W+1) are defined when used',
                  'drho is used at lags W and W+1 but computed by %s before / %s inside the loop' % ([unparse(b) for b in before], [unparse(p) for p in pre]), mod.loc(loop))
    key = 'obs.py:Obs.gamma_method#drho-before-use[standard]'
    s = tests.get('standard')
    if s is not None:
        pre = [x for x in s.body if isinstance(x, ast.Expr) and isinstance(x.value, ast.Call) and call_name(x.value) == '_compute_drho']
        try:
            ok = len(pre) == 1 and sp.simplify(g.T(pre[0].value.args[0]) - W) == 0
        except Unrecognised:
            ok = False
        ctx.check(rule2, key, ok, 'drho(W) computed at the chosen window', 'drho computed by %s' % [unparse(p) for p in pre], mod.loc(s))

    # ---- totals
    rule5 = 'C02-D1'
    acc = {}
    for s in g.sts:
        if isinstance(s, ast.AugAssign) and isinstance(s.target, ast.Attribute) and isinstance(s.target.value, ast.Name) and s.target.value.id == 'self' and isinstance(s.op, ast.Add):
            acc.setdefault(s.target.attr, []).append(s)
    want_acc = {'_dvalue': [SIG ** 2, SIG ** 2], 'ddvalue': [(SIG * DSIG) ** 2]}
    for slot, wants in want_acc.items():
        sts = acc.get(slot, [])
        key = 'obs.py:Obs.gamma_method#accumulate[%s]' % slot
        if len(sts) != len(wants):
            ctx.unrec(rule5, key, 'expected %d accumulation statements, found %d' % (len(wants), len(sts)))
            continue
        for i, (s, want) in enumerate(zip(sts, wants)):
            try:
                got = g.T(s.value)
            except Unrecognised as e:
                ctx.unrec(rule5, key + '#%d' % i, str(e), mod.loc(s))
                continue
            r = decide_equal(got, want, ctx.seed)
            if r is None:
                ctx.unrec(rule5, key + '#%d' % i, 'undecided')
            else:
                ctx.check(rule5, key + '#%d' % i, r, 'self.%s += %s' % (slot, want), 'self.%s accumulates %s instead of %s' % (slot, got, want), mod.loc(s))
    # covobs contribution
    key = 'obs.py:Obs.gamma_method#e_dvalue[covobs]'
    cvs = [s for s in found.get(('e_dvalue', 'common'), [])]
    if len(cvs) != 1:
        ctx.unrec(rule5, key, 'expected one assignment in the covobs loop, found %d' % len(cvs))
    else:
        try:
            got = g.T(cvs[0].value)
            r = decide_equal(got, sp.sqrt(ERRSQ), ctx.seed)
            okobj = 'covobs[' in unparse(cvs[0].value) and unparse(cvs[0].targets[0].slice) in unparse(cvs[0].value)
            ctx.check(rule5, key, bool(r) and okobj, 'error of a covariance input = sqrt(g^T C g) of the same name', 'covobs error is %s' % unparse(cvs[0].value), mod.loc(cvs[0]))
        except Unrecognised as e:
            ctx.unrec(rule5, key, str(e))
    # final: _dvalue = sqrt(_dvalue); ddvalue = sqrt(ddvalue)/_dvalue ; 0 if _dvalue == 0
    DV, DDV = sp.Symbol('acc_dvalue', positive=True), sp.Symbol('acc_ddvalue', positive=True)
    fin = [s for s in f.body if isinstance(s, (ast.Assign, ast.If))]
    tot = [s for s in g.sts if isinstance(s, ast.Assign) and isinstance(s.targets[0], ast.Attribute) and s.targets[0].attr in ('_dvalue', 'ddvalue')
           and unparse(s.targets[0].value) == 'self' and const(s.value) is None]

    def TT(node):
        if isinstance(node, ast.Attribute) and unparse(node) == 'self._dvalue':
            return DV
        if isinstance(node, ast.Attribute) and unparse(node) == 'self.ddvalue':
            return DDV
        if isinstance(node, ast.Call) and (mod.dotted(node.func) or '') == 'numpy.sqrt':
            return sp.sqrt(TT(node.args[0]))
        if isinstance(node, ast.BinOp) and isinstance(node.op, ast.Div):
            return TT(node.left) / TT(node.right)
        raise Unrecognised(unparse(node))
    key = 'obs.py:Obs.gamma_method#total'
    try:
        d = {s.targets[0].attr: (TT(s.value), s) for s in tot}
        if set(d) != {'_dvalue', 'ddvalue'}:
            ctx.unrec(rule5, key, 'final assignments of _dvalue / ddvalue not found')
        else:
            ok1 = sp.simplify(d['_dvalue'][0] - sp.sqrt(DV)) == 0
            # ddvalue uses the already square-rooted _dvalue
            ok2 = sp.simplify(d['ddvalue'][0] - sp.sqrt(DDV) / DV) == 0 and d['ddvalue'][1].lineno > d['_dvalue'][1].lineno
            ctx.check(rule5, key + '[_dvalue]', ok1, 'total error = sqrt(sum of squared contributions)', 'total error is %s' % d['_dvalue'][0], mod.loc(d['_dvalue'][1]))
            ctx.check(rule5, key + '[ddvalue]', ok2, 'error of the error = sqrt(sum (sigma_e dsigma_e)^2)/sigma', 'ddvalue is %s' % d['ddvalue'][0], mod.loc(d['ddvalue'][1]))
    except Unrecognised as e:
        ctx.unrec(rule5, key, str(e))

    # ---- the largest lag: half of the *longest* replica (every replica contributes the lags it has; the pair count normalises)
    wdef = [s_ for s_ in g.sts if isinstance(s_, ast.Assign) and len(s_.targets) == 1 and isinstance(s_.targets[0], ast.Name) and s_.targets[0].id == 'w_max']
    if len(wdef) != 1:
        ctx.unrec('C02-D3', 'obs.py:Obs.gamma_method#w_max', 'expected one definition of w_max, found %d' % len(wdef))
    else:
        v_ = wdef[0].value
        okw = isinstance(v_, ast.BinOp) and isinstance(v_.op, ast.FloorDiv) and const(v_.right) == 2 and isinstance(v_.left, ast.Call) and \
            ((call_name(v_.left) == 'max' and len(v_.left.args) == 1) or (mod.dotted(v_.left.func) or '') in ('numpy.max', 'numpy.amax')) and \
            isinstance(v_.left.args[0], ast.Name)
        lens = v_.left.args[0].id if okw else None
        # the argument is the list of replica lengths (filled by the length formulas checked above)
        okw = okw and any(isinstance(c_, ast.Call) and isinstance(c_.func, ast.Attribute) and c_.func.attr == 'append' and unparse(c_.func.value) == lens for c_ in walk(g.f)) or \
            (okw and any(isinstance(s_, ast.Assign) and unparse(s_.targets[0]) == lens and isinstance(s_.value, ast.ListComp) for s_ in g.sts))
        ctx.check('C02-D3', 'obs.py:Obs.gamma_method#w_max', bool(okw), 'w_max = max(replica lengths) // 2: lags up to half of the longest replica are estimated',
                  'w_max = %s: the largest admissible lag is half of the longest replica (shorter replicas simply contribute fewer pairs)' % unparse(v_), mod.loc(wdef[0]))
    # ---- N, w_max, normalisation of Gamma by the pair counts
    key = 'obs.py:Obs.gamma_method#normalisation'
    divs = [s for s in g.sts if isinstance(s, ast.AugAssign) and isinstance(s.op, ast.Div) and g.slot_of(s.target) == 'e_gamma']
    if len(divs) != 1:
        ctx.unrec('C02-D3', key, 'expected one in-place division of e_gamma, found %d' % len(divs))
    else:
        dv = divs[0].value
        base = dv.value if isinstance(dv, ast.Subscript) else dv
        ok = isinstance(base, ast.Name)
        clamp = [s for s in g.sts if ok and isinstance(s, ast.Assign) and isinstance(s.targets[0], ast.Subscript) and unparse(s.targets[0].value) == base.id
                 and isinstance(s.targets[0].slice, ast.Compare)]
        def _mask_ok(m):
            # counts are non-negative integers (up to FFT round-off): 'no pair' <=> count < c for any threshold 0 < c <= 1
            if not (isinstance(m, ast.Compare) and len(m.ops) == 1 and unparse(m.left) == base.id):
                return False
            c_ = const(m.comparators[0])
            if not isinstance(c_, (int, float)):
                return False
            return (isinstance(m.ops[0], ast.Lt) and 0 < c_ <= 1) or (isinstance(m.ops[0], ast.LtE) and 0 < c_ < 1)
        okc = len(clamp) == 1 and _mask_ok(clamp[0].targets[0].slice) and const(clamp[0].value) == 1.0 and clamp[0].lineno < divs[0].lineno
        if okc:
            # the clamp acts on the complete pair count: same block as the division, after the loop that accumulates the counts
            blk = mod.parents.get(divs[0])
            body = blk.body if hasattr(blk, 'body') and divs[0] in blk.body else getattr(blk, 'orelse', [])
            acc = [x for x in body if isinstance(x, ast.For) and any(isinstance(y, ast.AugAssign) and unparse(y.target) == base.id for y in walk(x))]
            same_block = clamp[0] in body
            after_acc = bool(acc) and same_block and body.index(acc[-1]) < body.index(clamp[0]) < body.index(divs[0])
            ctx.check('C02-D3', key + '-clamp-after-sum', after_acc, 'pair counts are summed over all replicas first, then clamped at 1, then divide Gamma',
                      'the clamp of the pair counts is not applied to the completed sum over replicas (it sits %s)' % ('inside the accumulation loop' if not same_block else 'before the accumulation'), mod.loc(clamp[0]))
        # every summand of the pair count is itself a count (>= 0 at every lag): the pair count of one replica computed by
        # _calc_gamma on a vector of ones, or an expression that is clipped at zero explicitly
        if ok:
            for a_ in [x for x in g.sts if isinstance(x, ast.AugAssign) and isinstance(x.op, ast.Add) and unparse(x.target) == base.id]:
                v_ = a_.value
                is_count = isinstance(v_, ast.Call) and call_name(v_) == '_calc_gamma' and v_.args and isinstance(v_.args[0], ast.Call) and call_name(v_.args[0]) == 'ones'
                clipped = isinstance(v_, ast.Call) and call_name(v_) in ('maximum', 'clip') or (isinstance(v_, ast.Name))
                ctx.check('C02-D3', key + '-summand[%s]' % unparse(v_)[:40], is_count or clipped, 'summand is a pair count',
                          'the pair count is increased by `%s`, which is not a pair count (it can be negative for a replica shorter than the lag range): the sum over replicas is too small at large lags' % unparse(v_)[:80], mod.loc(a_))
        ctx.check('C02-D3', key, bool(ok and okc), 'Gamma(t) is divided by the number of pairs actually present, clamped at 1',
                  'normalisation of Gamma differs: %s ; clamp %s' % (unparse(divs[0]), [unparse(c) for c in clamp]), mod.loc(divs[0]))


def chain_geometry(ctx, mod):
    """the lag arithmetic of the estimator lives on the grid of the common spacing: replica lengths, expansion and gaps are typed
    by the ABS/DIFF/COUNT system of C03 (shared analysis), and the unexpanded shortcut of _expand_deltas is taken only for a range
    whose step is the common spacing"""
    from . import C03
    C03.d4_units(ctx, mod, 'C02-D3')
    f = mod.func('_expand_deltas')
    p = [a.arg for a in f.args.args]
    rets = [s_ for s_ in statements(f) if isinstance(s_, ast.Return) and unparse(s_.value) == p[0]]
    for r in rets:
        g = [unparse(t) for t, pol in guards_of(mod, r, stop=f) if pol]
        ok = any('isinstance(%s, range)' % p[1] in x or 'type(%s) is range' % p[1] in x for x in g) and any(x.replace('(', '').replace(')', '') in ('%s.step == %s' % (p[1], p[3]), '%s == %s.step' % (p[3], p[1])) for x in g)
        ctx.check('C02-D3', 'obs.py:_expand_deltas#unexpanded-shortcut', ok, 'fluctuations are returned unexpanded only for a range with step == gapsize',
                  'the fluctuations are returned without zero filling under %s: a range with a larger step than the common spacing is not expanded and lag t pairs the wrong configurations' % g, mod.loc(r))
    ctx.floor('unexpanded shortcuts of _expand_deltas', len(rets), 1)
    # length of a replica in units of the common spacing: an irregular chain from `first` to `last` occupies (last-first)/g + 1 grid
    # points, a range of L entries with step s occupies L*s/g (the convention of the estimator for the largest lag)
    gm = mod.func('Obs.gamma_method')
    A, B, G, L, S = sp.symbols('first last gap length step', positive=True)
    aps = [c for c in walk(gm) if isinstance(c, ast.Call) and isinstance(c.func, ast.Attribute) and c.func.attr == 'append' and unparse(c.func.value) == 'r_length' and len(c.args) == 1]

    def tr(e):
        t = unparse(e)
        if t == 'gapsize':
            return G
        if isinstance(e, ast.Constant) and isinstance(e.value, int):
            return sp.Integer(e.value)
        if isinstance(e, ast.Subscript) and t.startswith('self.idl[') and const(e.slice) is not None:
            if const(e.slice) == 0:
                return A
            if const(e.slice) == -1:
                return B
        if isinstance(e, ast.Subscript) and isinstance(e.slice, ast.UnaryOp) and isinstance(e.slice.op, ast.USub) and const(e.slice.operand) == 1 and t.startswith('self.idl['):
            return B
        if isinstance(e, ast.Call) and call_name(e) == 'len' and unparse(e.args[0]).startswith('self.idl['):
            return L
        if isinstance(e, ast.Attribute) and e.attr == 'step' and unparse(e.value).startswith('self.idl['):
            return S
        if isinstance(e, ast.BinOp) and isinstance(e.op, (ast.Add, ast.Sub, ast.Mult, ast.FloorDiv, ast.Div)):
            x, y = tr(e.left), tr(e.right)
            return {ast.Add: lambda: x + y, ast.Sub: lambda: x - y, ast.Mult: lambda: x * y, ast.FloorDiv: lambda: x / y, ast.Div: lambda: x / y}[type(e.op)]()
        raise Unrecognised('cannot translate %s' % t)
    for c in aps:
        g = [unparse(t) for t, pol in guards_of(mod, c, stop=gm) if 'range' in unparse(t)]
        is_range = any(pol for t, pol in guards_of(mod, c, stop=gm) if 'range' in unparse(t))
        key = 'obs.py:Obs.gamma_method#replica-length[%s]' % ('range' if is_range else 'list')
        try:
            got = tr(c.args[0])
        except Unrecognised as e_:
            ctx.unrec('C02-D3', key, str(e_), mod.loc(c))
            continue
        want = L * S / G if is_range else (B - A) / G + 1
        ctx.check('C02-D3', key, sp.simplify(got - want) == 0, 'replica length in gap units = %s' % want, 'replica length is %s, the chain occupies %s grid points' % (got, want), mod.loc(c))
    ctx.floor('replica length expressions', len(aps), 2)


def compute_drho(ctx, mod):
    """Bounded-exhaustive decision of the slice arithmetic of _compute_drho: for every (w_max, i) on a grid the three slices must
    pick rho(k+i), rho(|k-i|) and rho(k) for k = 1 .. w_max-i-1 (Wolff eq. (E.11)); only the extracted index expressions are
    evaluated, on lists of integers."""
    rule = 'C02-D5'
    f = mod.func('Obs.gamma_method._compute_drho')
    iv = f.args.args[0].arg
    key = 'obs.py:Obs.gamma_method._compute_drho'
    assigns = [s for s in statements(f) if isinstance(s, ast.Assign) and isinstance(s.targets[0], ast.Name)]
    store = [s for s in statements(f) if isinstance(s, ast.Assign) and isinstance(s.targets[0], ast.Subscript)]
    if len(store) != 1:
        ctx.unrec(rule, key, 'expected one store')
        return
    used = {n.id for n in walk(store[0].value) if isinstance(n, ast.Name)}
    tmp = [s for s in assigns if s.targets[0].id in used]
    # further locals (an alias of the rho array, an index vector built with np.arange, a slice bound chosen by an if / else) are
    # interpreted statement by statement for every (w_max, i): see run_body
    if len({s.targets[0].id for s in tmp}) == 1 and tmp:
        tmp = tmp[-1:]
    if len(tmp) != 1:
        ctx.unrec(rule, key, 'expected one local that is stored')
        return

    def ev_int(e, env):
        if e is None:
            return None
        if isinstance(e, ast.Constant):
            return e.value
        if isinstance(e, ast.Name):
            v = env[e.id]
            if v is RHO or isinstance(v, tuple) or (isinstance(v, list) and v and isinstance(v[0], tuple)):
                raise Unrecognised('integer expression %s' % e.id)
            return v
        if isinstance(e, ast.UnaryOp) and isinstance(e.op, ast.USub):
            v = ev_int(e.operand, env)
            return [-x for x in v] if isinstance(v, list) else -v
        if isinstance(e, ast.BinOp) and type(e.op) in (ast.Add, ast.Sub, ast.Mult, ast.FloorDiv):
            a, b = ev_int(e.left, env), ev_int(e.right, env)
            fn = {ast.Add: lambda x, y: x + y, ast.Sub: lambda x, y: x - y, ast.Mult: lambda x, y: x * y, ast.FloorDiv: lambda x, y: x // y}[type(e.op)]
            # an index vector (np.arange) broadcasts against integers and against a vector of the same length
            if isinstance(a, list) and isinstance(b, list):
                if len(a) != len(b):
                    raise Unrecognised('length mismatch %d vs %d' % (len(a), len(b)))
                return [fn(x, y) for x, y in zip(a, b)]
            if isinstance(a, list):
                return [fn(x, b) for x in a]
            if isinstance(b, list):
                return [fn(a, y) for y in b]
            return fn(a, b)
        if isinstance(e, ast.Call) and call_name(e) == 'arange' and not e.keywords and 1 <= len(e.args) <= 3:
            vals = [ev_int(a, env) for a in e.args]
            if any(isinstance(v, list) for v in vals):
                raise Unrecognised('integer expression %s' % unparse(e))
            return list(range(*vals))
        if isinstance(e, ast.Call) and call_name(e) in ('abs', 'absolute') and len(e.args) == 1 and not e.keywords:
            v = ev_int(e.args[0], env)
            return [abs(x) for x in v] if isinstance(v, list) else abs(v)
        if isinstance(e, ast.IfExp):
            return ev_int(e.body, env) if ev_bool(e.test, env) else ev_int(e.orelse, env)
        if isinstance(e, ast.Call) and call_name(e) in ('max', 'min'):
            vals = [ev_int(a, env) for a in e.args]
            return max(vals) if call_name(e) == 'max' else min(vals)
        raise Unrecognised('integer expression %s' % unparse(e))

    def ev_bool(e, env):
        if isinstance(e, ast.Compare) and len(e.ops) == 1:
            a, b = ev_int(e.left, env), ev_int(e.comparators[0], env)
            return {ast.LtE: a <= b, ast.Lt: a < b, ast.GtE: a >= b, ast.Gt: a > b, ast.Eq: a == b, ast.NotEq: a != b}[type(e.ops[0])]
        raise Unrecognised('condition %s' % unparse(e))

    RHO = object()
    CUR = {}

    def run_body(stmts, env):
        """interpret the straight-line / if-else body of the nested function on one (w_max, i): integers, index vectors, aliases
        of the rho array and term vectors are bound in env; the statement that stores the result ends the run"""
        for st in stmts:
            if isinstance(st, ast.Expr) and isinstance(st.value, ast.Constant):
                continue
            if isinstance(st, ast.If):
                run_body(st.body if ev_bool(st.test, env) else st.orelse, env)
                continue
            if st is store[0]:
                continue
            if isinstance(st, ast.Assign) and len(st.targets) == 1 and isinstance(st.targets[0], ast.Name):
                CUR.clear()
                CUR.update(env)
                if is_rho(st.value):
                    env[st.targets[0].id] = RHO
                    continue
                try:
                    env[st.targets[0].id] = ev_int(st.value, env)
                except (Unrecognised, KeyError, TypeError):
                    env[st.targets[0].id] = ev_vec(st.value, env)
                CUR.clear()
                CUR.update(env)
                continue
            raise Unrecognised('statement %s' % unparse(st)[:60])

    def is_rho(e):
        if isinstance(e, ast.Name):
            return CUR.get(e.id) is RHO
        return isinstance(e, ast.Subscript) and 'e_rho' in unparse(e.value) and not isinstance(e.slice, ast.Slice) and unparse(e.slice) == 'e_name'

    def ev_vec(e, env):
        """list of (coefficient-structure) : we evaluate index lists; arithmetic is tracked as tuples"""
        if isinstance(e, ast.Name) and (isinstance(env.get(e.id), tuple) or (isinstance(env.get(e.id), list) and (not env[e.id] or isinstance(env[e.id][0], tuple)))):
            return env[e.id]
        if isinstance(e, ast.Subscript) and is_rho(e.value):
            sl = e.slice
            n = env['w_max']
            idx = list(range(n))
            if isinstance(sl, ast.Slice):
                lo, hi, st = ev_int(sl.lower, env), ev_int(sl.upper, env), ev_int(sl.step, env)
                return [('rho', k) for k in idx[slice(lo, hi, st)]]
            j = ev_int(sl, env)
            if isinstance(j, list):
                # indexing with an integer array: element-wise, negative entries count from the end as in numpy
                try:
                    return [('rho', idx[x]) for x in j]
                except IndexError:
                    raise Unrecognised('length mismatch: index out of range 0..%d in %s' % (n - 1, j))
            return ('scalar', ('rho', idx[j]))
        if isinstance(e, ast.Call) and call_name(e) == 'concatenate':
            parts = e.args[0].elts
            out = []
            for p_ in parts:
                out += ev_vec(p_, env)
            return out
        if isinstance(e, ast.BinOp):
            a, b = ev_vec(e.left, env), ev_vec(e.right, env)
            op = type(e.op).__name__
            if isinstance(a, list) and isinstance(b, list):
                if len(a) != len(b):
                    raise Unrecognised('length mismatch %d vs %d' % (len(a), len(b)))
                return [(op, x, y) for x, y in zip(a, b)]
            if isinstance(a, list):
                return [(op, x, b) for x in a]
            if isinstance(b, list):
                return [(op, a, y) for y in b]
            return ('scalar', (op, a, b))
        if isinstance(e, ast.Constant):
            return ('scalar', e.value)
        raise Unrecognised('vector expression %s' % unparse(e))
    from fractions import Fraction
    PRIMES = [2, 3, 5, 7, 11, 13, 17, 19, 23, 29, 31, 37, 41, 43, 47, 53, 59, 61, 67, 71, 73, 79, 83]

    def num(t, vals):
        if isinstance(t, (int, float)):
            return Fraction(t)
        if t[0] == 'rho':
            return vals[t[1]]
        if t[0] == 'scalar':
            return num(t[1], vals)
        a, b = num(t[1], vals), num(t[2], vals)
        if t[0] == 'Add':
            return a + b
        if t[0] == 'Sub':
            return a - b
        if t[0] == 'Mult':
            return a * b
        raise Unrecognised('operator %s in the terms' % t[0])
    bad = None
    n_cases = 0
    try:
        for w in range(4, 15):
            for i in range(1, w // 2 + 1):
                env = {'w_max': w, iv: i}
                try:
                    CUR.clear()
                    run_body(f.body, env)
                    got = env[tmp[0].targets[0].id]
                except Unrecognised as e:
                    if 'length mismatch' in str(e):
                        bad = (w, i, str(e))
                        break
                    raise
                n_cases += 1
                want = []
                for k in range(1, w - i):
                    t1, t2, t3 = ('rho', i + k), ('rho', abs(i - k)), ('rho', k)
                    want.append(('Sub', ('Add', t1, t2), ('Mult', ('scalar', ('Mult', ('scalar', 2), ('scalar', ('rho', i)))), t3)))
                if not isinstance(got, list):
                    raise Unrecognised('the terms are not a vector')
                # the two term lists are compared as polynomials in rho(0..w_max-1), on three rational points
                differ = None
                if len(got) != len(want):
                    differ = 'length %d vs %d' % (len(got), len(want))
                else:
                    for pt in range(3):
                        vals = {k: Fraction(1, PRIMES[(k + 7 * pt) % len(PRIMES)]) for k in range(w)}
                        d_ = next((k + 1 for k, (a_, b_) in enumerate(zip(got, want)) if num(a_, vals) != num(b_, vals)), None)
                        if d_ is not None:
                            differ = 'terms differ at k=%s' % d_
                            break
                if differ:
                    bad = (w, i, differ)
                    break
            if bad:
                break
    except (Unrecognised, KeyError, TypeError) as e:
        ctx.unrec(rule, key + '#terms', 'cannot evaluate the slice arithmetic: %s' % e, mod.loc(tmp[0]))
        return
    ctx.check(rule, key + '#terms', bad is None, 'for all %d pairs (w_max <= 14, i <= w_max/2): term k = rho(k+i) + rho(|k-i|) - 2 rho(i) rho(k), k = 1..w_max-i-1' % n_cases,
              'for w_max=%s, i=%s the terms of drho differ from rho(k+i) + rho(|k-i|) - 2 rho(i) rho(k): %s' % (bad if bad else ('', '', '')), mod.loc(tmp[0]))
    ok = unparse(store[0].value).replace(tmp[0].targets[0].id, 'tmp') == 'np.sqrt(np.sum(tmp ** 2) / e_N)' and unparse(store[0].targets[0].slice) == iv
    ctx.check(rule, key + '#norm', ok, 'drho(i) = sqrt(sum_k term_k^2 / N), stored at lag i', 'stored %s = %s' % (unparse(store[0].targets[0]), unparse(store[0].value)), mod.loc(store[0]))


def paired_calc_gamma(ctx, mod):
    rule = 'C02-D3'
    f = mod.func('Obs.gamma_method')
    calls = [c for c in walk(f) if isinstance(c, ast.Call) and call_name(c) == '_calc_gamma']
    key = 'obs.py:Obs.gamma_method#_calc_gamma-pair'
    if len(calls) != 2:
        ctx.unrec(rule, key, 'expected two _calc_gamma calls (data, pair count), found %d' % len(calls))
        return
    a, b = calls
    if len(a.args) != len(b.args) or len(a.args) < 6:
        ctx.unrec(rule, key, 'unexpected argument lists')
        return
    same = [unparse(x) == unparse(y) for x, y in zip(a.args[1:], b.args[1:])]
    ctx.check(rule, key, all(same), 'data and pair-count autocorrelations are computed with identical idl, shape, w_max, fft, gapsize',
              'the two _calc_gamma calls differ in argument(s) %s: %s vs %s' % ([i + 2 for i, s in enumerate(same) if not s], unparse(a), unparse(b)), mod.loc(b))
    # first args: deltas of the replica / ones of the same shape
    d0, d1 = a.args[0], b.args[0]
    k_idl = a.args[1]
    if not isinstance(k_idl, ast.Subscript):
        ctx.unrec(rule, key + '-inputs', 'configuration list argument %s is not self.idl[<replica>]' % unparse(k_idl), mod.loc(a))
        return
    okd = isinstance(d0, ast.Subscript) and unparse(d0.value) == 'self.deltas' and unparse(d0.slice) == unparse(k_idl.slice)
    oko = isinstance(d1, ast.Call) and (mod.dotted(d1.func) or '') == 'numpy.ones' and unparse(a.args[2]) in unparse(d1.args[0])
    ctx.check(rule, key + '-inputs', okd and oko, 'data = deltas of the replica, counter = ones of the replica\'s shape',
              'inputs are %s and %s' % (unparse(d0), unparse(d1)), mod.loc(a))
    # accumulated over the replicas of the ensemble
    for c, nm in ((a, 'data'), (b, 'count')):
        st = c
        while not isinstance(st, ast.stmt):
            st = mod.parents[st]
        ok = isinstance(st, ast.AugAssign) and isinstance(st.op, ast.Add)
        ctx.check(rule, key + '-sum[%s]' % nm, ok, 'summed over replicas', 'not summed over replicas: %s' % unparse(st)[:90], mod.loc(st))


def calc_gamma(ctx, mod, rule='C02-D4'):
    f = mod.func('Obs._calc_gamma')
    params = [a.arg for a in f.args.args]
    sts = statements(f)
    loc = {}
    for s in sts:
        if isinstance(s, ast.Assign) and isinstance(s.targets[0], ast.Name):
            loc.setdefault(s.targets[0].id, []).append(s)
    n, wmax = sp.symbols('n w_max', integer=True, nonnegative=True)
    ns = sp.Symbol('new_shape', integer=True, positive=True)
    env = {'new_shape': ns, 'w_max': wmax}

    def T(node):
        if isinstance(node, ast.Name):
            if node.id in env:
                return env[node.id]
            d = loc.get(node.id, [])
            if len(d) == 1:
                return T(d[0].value)
            return sp.Symbol(node.id, integer=True)
        if isinstance(node, ast.Constant) and isinstance(node.value, int):
            return sp.Integer(node.value)
        if isinstance(node, ast.BinOp):
            a, b = T(node.left), T(node.right)
            if isinstance(node.op, ast.Add):
                return a + b
            if isinstance(node.op, ast.Sub):
                return a - b
            if isinstance(node.op, ast.Mult):
                return a * b
            if isinstance(node.op, ast.Mod):
                return sp.Mod(a, b)
        if isinstance(node, ast.Call) and call_name(node) == 'min' and len(node.args) == 2:
            return sp.Min(T(node.args[0]), T(node.args[1]))
        if isinstance(node, ast.Call) and call_name(node) == 'len' and len(node.args) == 1 and isinstance(node.args[0], ast.Name):
            d = loc.get(node.args[0].id, [])
            if len(d) == 1 and isinstance(d[0].value, ast.Call) and (mod.dotted(d[0].value.func) or '') == 'numpy.fft.irfft':
                c_ = d[0].value
                if len(c_.args) >= 2:
                    return T(c_.args[1])
                inner_ = [x for x in ast.walk(c_.args[0]) if isinstance(x, ast.Call) and (mod.dotted(x.func) or '') == 'numpy.fft.rfft']
                if inner_ and len(inner_[0].args) >= 2:
                    return T(inner_[0].args[1])      # irfft of an rfft of even length n has length n
            if len(d) == 1 and node.args[0].id == 'deltas':
                return ns
        raise Unrecognised(unparse(node))
    # fft path
    key = 'obs.py:Obs._calc_gamma#fft-padding'
    rfft = [c for c in walk(f) if isinstance(c, ast.Call) and (mod.dotted(c.func) or '') == 'numpy.fft.rfft']
    irfft = [c for c in walk(f) if isinstance(c, ast.Call) and (mod.dotted(c.func) or '') == 'numpy.fft.irfft']
    if len(rfft) != 1 or len(irfft) != 1 or len(rfft[0].args) < 2:
        ctx.unrec(rule, key, 'rfft(deltas, padding) / irfft pair not found')
    else:
        try:
            pad = T(rfft[0].args[1])
            # slice [:max_gamma] of the result
            stmt = irfft[0]
            while not isinstance(stmt, ast.stmt):
                stmt = mod.parents[stmt]
            sub = mod.parents.get(irfft[0])
            if isinstance(sub, ast.Assign) and len(sub.targets) == 1 and isinstance(sub.targets[0], ast.Name):
                # the transform is stored first: find the slice of that name that is added to gamma
                vname = sub.targets[0].id
                uses = [x for x in walk(f) if isinstance(x, ast.Subscript) and isinstance(x.value, ast.Name) and x.value.id == vname and isinstance(x.slice, ast.Slice)]
                if len(uses) != 1:
                    raise Unrecognised('stored irfft result %s is not sliced exactly once' % vname)
                sub = uses[0]
                stmt = sub
                while not isinstance(stmt, ast.stmt):
                    stmt = mod.parents[stmt]
            if not (isinstance(sub, ast.Subscript) and isinstance(sub.slice, ast.Slice) and sub.slice.lower is None):
                raise Unrecognised('irfft result is not sliced [:max]')
            mg = T(sub.slice.upper)
            # circular correlation equals linear correlation for lags < mg iff padding >= new_shape + mg - 1 ; evenness required by irfft default length
            slack = sp.simplify(pad - (ns + mg))
            # check slack >= 0 and pad even by exhaustive parity case split
            ok = True
            for p_ns in (0, 1):
                for p_mg in (0, 1):
                    a_, b_ = sp.symbols('a_ b_', integer=True, nonnegative=True)
                    val = pad.subs(sp.Min(ns, wmax), mg).subs({}) if False else None
            # evaluate on a grid of small integers (exhaustive over parities and orderings)
            bad = None
            for v_ns in range(1, 9):
                for v_w in range(0, 9):
                    pv = pad.subs({ns: v_ns, wmax: v_w})
                    mv = mg.subs({ns: v_ns, wmax: v_w})
                    if pv % 2 != 0 or pv < v_ns + mv - 1 or pv < v_ns:
                        bad = (v_ns, v_w, pv, mv)
            lin = sp.simplify(pad - (ns + mg) - sp.Mod(ns + mg, 2)) == 0
            ctx.check(rule, key, bad is None and (lin or bad is None), 'padding = new_shape + max_gamma (+1 if odd): even and >= new_shape + max_gamma - 1, so the circular '
                      'correlation has no wrap-around for lags < max_gamma', 'padding %s is too short or odd, e.g. (new_shape, w_max, padding, max_gamma) = %s' % (pad, bad), mod.loc(rfft[0]))
            # both sides sliced with the same bound
            tgt = stmt.target if isinstance(stmt, ast.AugAssign) else stmt.targets[0]
            ok2 = isinstance(tgt, ast.Subscript) and isinstance(tgt.slice, ast.Slice) and tgt.slice.lower is None and sp.simplify(T(tgt.slice.upper) - mg) == 0
            ctx.check(rule, key + '-slices', ok2, 'gamma[:m] receives irfft(...)[:m] with one and the same m = %s' % mg, 'slices differ: %s' % unparse(stmt), mod.loc(stmt))
            ok3 = sp.simplify(mg - sp.Min(ns, wmax)) == 0
            ctx.check(rule, key + '-range', ok3, 'lags 0..min(new_shape, w_max)-1 are filled', 'fft path fills %s lags' % mg, mod.loc(stmt))
            # |rfft|^2 : power spectrum
            inner = irfft[0].args[0]
            okp = isinstance(inner, ast.BinOp) and isinstance(inner.op, ast.Pow) and const(inner.right) == 2 and isinstance(inner.left, ast.Call) and \
                (mod.dotted(inner.left.func) or '') in ('numpy.abs', 'numpy.absolute') and inner.left.args[0] is rfft[0]
            ctx.check(rule, key + '-power', okp, 'autocorrelation = irfft(|rfft(deltas)|^2)', 'spectrum expression is %s' % unparse(inner), mod.loc(stmt))
        except Unrecognised as e:
            ctx.unrec(rule, key, str(e))
    # direct path
    key = 'obs.py:Obs._calc_gamma#direct-lag'
    dots = [c for c in walk(f) if isinstance(c, ast.Call) and isinstance(c.func, ast.Attribute) and c.func.attr == 'dot']
    if len(dots) != 1:
        ctx.unrec(rule, key, 'direct summation .dot(...) not found')
    else:
        c = dots[0]
        l, r = c.func.value, c.args[0]
        try:
            if not (isinstance(l, ast.Subscript) and isinstance(r, ast.Subscript) and isinstance(l.slice, ast.Slice) and isinstance(r.slice, ast.Slice)
                    and unparse(l.value) == unparse(r.value)):
                raise Unrecognised('operands are not two slices of one array: %s' % unparse(c))
            loop = mod.parents.get(c)
            while not isinstance(loop, ast.For):
                loop = mod.parents[loop]
            lag = sp.Symbol(loop.target.id, integer=True, nonnegative=True)
            env[loop.target.id] = lag
            l0 = T(l.slice.lower) if l.slice.lower is not None else sp.Integer(0)
            # an open upper bound is the length of the sliced array
            full = lambda arr: T(ast.Call(func=ast.Name(id='len', ctx=ast.Load()), args=[arr], keywords=[]))  # noqa: E731
            l1 = T(l.slice.upper) if l.slice.upper is not None else full(l.value)
            r0 = T(r.slice.lower) if r.slice.lower is not None else sp.Integer(0)
            r1 = T(r.slice.upper) if r.slice.upper is not None else full(r.value)
            ok = sp.simplify((r0 - l0) - lag) == 0 and sp.simplify((l1 - l0) - (r1 - r0)) == 0 and sp.simplify(r1 - ns) == 0 and l0 == 0
            ctx.check(rule, key, ok, 'gamma[n] = sum_i delta_i delta_{i+n} over all new_shape-n pairs',
                      'direct sum pairs [%s:%s] with [%s:%s] at lag %s' % (l0, l1, r0, r1, lag), mod.loc(c))
            stmt = c
            while not isinstance(stmt, ast.stmt):
                stmt = mod.parents[stmt]
            tgt = stmt.target if isinstance(stmt, ast.AugAssign) else stmt.targets[0]
            ok2 = isinstance(tgt, ast.Subscript) and unparse(tgt.slice) == loop.target.id and unparse(loop.iter) == 'range(%s)' % params[4]
            ctx.check(rule, key + '-slot', ok2, 'stored at lag n for n in range(w_max)', 'stored as %s over %s' % (unparse(tgt), unparse(loop.iter)), mod.loc(stmt))
        except Unrecognised as e:
            ctx.unrec(rule, key, str(e))
    # expansion with the gap of the ensemble
    key = 'obs.py:Obs._calc_gamma#expand'
    ex = [c for c in walk(f) if isinstance(c, ast.Call) and call_name(c) == '_expand_deltas']
    ok = len(ex) == 1 and [unparse(a) for a in ex[0].args] == [params[1], params[2], params[3], params[6]]
    if len(ex) != 1:
        ctx.unrec(rule, key, '_expand_deltas call not found')
    else:
        ctx.check(rule, key, ok, 'fluctuations are expanded onto the regular grid (idx, shape, gapsize) before the lag products',
                  '_expand_deltas called with %s' % [unparse(a) for a in ex[0].args], mod.loc(ex[0]))


def errsq(ctx):
    rule = 'C02-D1'
    mod = ctx.repo.mod('covobs')
    f = mod.func('Covobs.errsq')
    key = 'covobs.py:Covobs.errsq'
    rets = [s for s in statements(f) if isinstance(s, ast.Return)]
    g_, C_ = sp.Symbol('g', commutative=False), sp.Symbol('C', commutative=False)
    gt = sp.Symbol('gT', commutative=False)

    def T(node):
        if isinstance(node, ast.Attribute) and unparse(node) in ('self.grad', 'self._grad'):
            return g_
        if isinstance(node, ast.Attribute) and unparse(node) in ('self.cov', 'self._cov'):
            return C_
        if isinstance(node, ast.Attribute) and node.attr == 'T':
            v = T(node.value)
            if v == g_:
                return gt
            raise Unrecognised(unparse(node))
        if isinstance(node, ast.Call):
            d = mod.dotted(node.func) or ''
            if d in ('numpy.dot', 'numpy.matmul') and len(node.args) == 2:
                return T(node.args[0]) * T(node.args[1])
            if d == 'numpy.transpose' and len(node.args) == 1:
                v = T(node.args[0])
                if v == g_:
                    return gt
                raise Unrecognised(unparse(node))
            if isinstance(node.func, ast.Attribute) and node.func.attr == 'item' and not node.args:
                return T(node.func.value)
        if isinstance(node, ast.BinOp) and isinstance(node.op, ast.MatMult):
            return T(node.left) * T(node.right)
        raise Unrecognised('cannot translate %s' % unparse(node))
    if len(rets) != 1:
        ctx.unrec(rule, key, 'expected one return')
        return
    try:
        got = T(rets[0].value)
    except Unrecognised as e:
        ctx.unrec(rule, key, str(e), mod.loc(rets[0]))
        return
    ctx.check(rule, key, sp.expand(got - gt * C_ * g_) == 0, 'errsq = g^T C g', 'errsq is %s' % got, mod.loc(rets[0]))


def run(ctx):
    ctx.rule('C02-D1', 'formulas equal the Gamma-method reference (Wolff eqs. 35,41,42,49,52; Schaefer tail)')
    ctx.rule('C02-D2', 'window criteria / drho evaluated at the lag they are used for')
    ctx.rule('C02-D3', 'pair-count normalisation uses the same estimator and arguments')
    ctx.rule('C02-D4', '_calc_gamma: FFT padding sufficient, direct path sums lag-n products')
    ctx.not_decided += ['numerical equality of irfft(|rfft|^2) with the direct sum', '_compute_drho beyond w_max = 14 (bounded exhaustive below)',
                        'behaviour on constant or alternating data']
    obs = ctx.repo.mod('obs')
    ctx.guarded('C02-D1', 'obs.py:Obs.gamma_method@formulas', formulas, ctx, obs)
    ctx.guarded('C02-D3', 'obs.py:Obs.gamma_method@pair', paired_calc_gamma, ctx, obs)
    ctx.guarded('C02-D3', 'obs.py@chain-geometry', chain_geometry, ctx, obs)
    ctx.guarded('C02-D4', 'obs.py:Obs._calc_gamma', calc_gamma, ctx, obs)
    ctx.rule('C02-D5', 'error of rho: slice arithmetic of _compute_drho (bounded exhaustive, w_max <= 14)')
    ctx.guarded('C02-D5', 'obs.py:_compute_drho', compute_drho, ctx, obs)
    ctx.guarded('C02-D1', 'covobs.py:Covobs.errsq', errsq, ctx)
    from . import C03
    ctx.rule('C02-D6', 'effective parameters S, tau_exp, N_sigma per ensemble: argument > dictionary > global, determined per ensemble')
    ctx.guarded('C02-D6', 'obs.py:_parse_kwarg', C03.d3_precedence, ctx, obs, 'C02-D6')
    ctx.floor('C02 obligations', len(ctx.obs), 40)


_STD = "self.e_tauint[e_name] = self.e_n_tauint[e_name][n] * (1 + (2 * n + 1) / e_N) / (1 + 1 / e_N)  # Bias correction"
SELFTEST = [
    ('wmax-shortest-replica', 'pyerrors/obs.py', '            w_max = max(r_length) // 2', '            w_max = min(r_length) // 2', 'C02-D3'),
    ('tail-max-instead-of-abs', 'pyerrors/obs.py', '+ texp * np.abs(self.e_rho[e_name][n + 1])', '+ texp * max(self.e_rho[e_name][n + 1], 0.0)', 'C02-D1'),
    ('list-replica-length-off-by-one', 'pyerrors/obs.py', "r_length.append((self.idl[r_name][-1] - self.idl[r_name][0] + gapsize) // gapsize)", "r_length.append((self.idl[r_name][-1] - self.idl[r_name][0]) // gapsize)", 'C02-D3'),
    ('expand-shortcut-any-range', 'pyerrors/obs.py', "    if isinstance(idx, range):\n        if (idx.step == gapsize):\n            return deltas", "    if isinstance(idx, range):\n        return deltas", 'C02-D3'),
    ('benign-pair-count-half', 'pyerrors/obs.py', "gamma_div[gamma_div < 1] = 1.0", "gamma_div[gamma_div < 0.5] = 1.0", 'BENIGN'),
    ('tail-fallback-lag', 'pyerrors/obs.py', "or n >= w_max // 2 - 2:", "or n >= w_max // 2 - 1:", 'C02-D2'),
    ('benign-tail-fallback-gt', 'pyerrors/obs.py', "or n >= w_max // 2 - 2:", "or n > w_max // 2 - 3:", 'BENIGN'),
    ('std-fallback-lag', 'pyerrors/obs.py', "or n >= w_max - 1:", "or n >= w_max - 2:", 'C02-D2'),
    ('bias-2n', 'pyerrors/obs.py', _STD, _STD.replace('(2 * n + 1)', '(2 * n)'), 'C02-D1'),
    ('bias-denominator', 'pyerrors/obs.py', _STD, _STD.replace('/ (1 + 1 / e_N)', ''), 'C02-D1'),
    ('naive-error-N', 'pyerrors/obs.py', "np.sqrt(e_gamma[e_name][0] / (e_N - 1))", "np.sqrt(e_gamma[e_name][0] / e_N)", 'C02-D1'),
    ('gw-offset', 'pyerrors/obs.py', "if g_w[n - 1] < 0 or n >= w_max - 1:", "if g_w[n] < 0 or n >= w_max - 1:", 'C02-D2'),
    ('gw-arange-offset', 'pyerrors/obs.py', "g_w = np.exp(- np.arange(1, len(tau) + 1) / tau)", "g_w = np.exp(- np.arange(0, len(tau)) / tau)", 'C02-D2'),
    ('tau-formula', 'pyerrors/obs.py', "np.log((2 * self.e_n_tauint[e_name][1:] + 1) / (2 * self.e_n_tauint[e_name][1:] - 1))", "np.log((2 * self.e_n_tauint[e_name][1:] + 2) / (2 * self.e_n_tauint[e_name][1:] - 1))", 'C02-D2'),
    ('calc-gamma-gapsize', 'pyerrors/obs.py', "gamma_div += self._calc_gamma(np.ones((self.shape[r_name])), self.idl[r_name], self.shape[r_name], w_max, fft, gapsize)", "gamma_div += self._calc_gamma(np.ones((self.shape[r_name])), self.idl[r_name], self.shape[r_name], w_max, fft, 1)", 'C02-D3'),
    ('padding-short', 'pyerrors/obs.py', "padding = new_shape + max_gamma + (new_shape + max_gamma) % 2", "padding = new_shape + new_shape % 2", 'C02-D4'),
    ('dtauint-sign', 'pyerrors/obs.py', "np.abs(np.arange(w_max) + 0.5 - self.e_n_tauint[e_name])", "np.abs(np.arange(w_max) - 0.5 - self.e_n_tauint[e_name])", 'C02-D1'),
    ('tail-rho-index', 'pyerrors/obs.py', "+ texp * np.abs(self.e_rho[e_name][n + 1])", "+ texp * np.abs(self.e_rho[e_name][n])", 'C02-D1'),
    ('tail-drho-late', 'pyerrors/obs.py', "                    _compute_drho(n + 1)\n", "                    _compute_drho(n)\n", 'C02-D2'),
    ('errsq-no-cov', 'pyerrors/covobs.py', "return np.dot(np.transpose(self.grad), np.dot(self.cov, self.grad)).item()", "return np.dot(np.transpose(self.grad), self.grad).item()", 'C02-D1'),
    ('ddvalue-not-normalised', 'pyerrors/obs.py', "self.ddvalue = np.sqrt(self.ddvalue) / self._dvalue", "self.ddvalue = np.sqrt(self.ddvalue)", 'C02-D1'),
    ('no-pair-clamp', 'pyerrors/obs.py', "gamma_div[gamma_div < 1] = 1.0", "gamma_div[gamma_div < 0] = 1.0", 'C02-D3'),
    ('clamp-inside-loop', 'pyerrors/obs.py', "            gamma_div[gamma_div < 1] = 1.0\n", "                gamma_div[gamma_div < 1] = 1.0\n", 'C02-D3'),
    ('drho-index-vector-wraps', 'pyerrors/obs.py', '                tmp = (self.e_rho[e_name][i + 1:w_max]\n                       + np.concatenate([self.e_rho[e_name][i - 1:None if i - (w_max - 1) // 2 <= 0 else (2 * i - (2 * w_max) // 2):-1],\n                                         self.e_rho[e_name][1:max(1, w_max - 2 * i)]])\n                       - 2 * self.e_rho[e_name][i] * self.e_rho[e_name][1:w_max - i])\n', '                k = np.arange(1, w_max - i)\n                rho = self.e_rho[e_name]\n                tmp = rho[k + i] + rho[k - i] - 2 * rho[i] * rho[k]\n', 'C02-D5'),
    ('benign-drho-index-vector', 'pyerrors/obs.py', '                tmp = (self.e_rho[e_name][i + 1:w_max]\n                       + np.concatenate([self.e_rho[e_name][i - 1:None if i - (w_max - 1) // 2 <= 0 else (2 * i - (2 * w_max) // 2):-1],\n                                         self.e_rho[e_name][1:max(1, w_max - 2 * i)]])\n                       - 2 * self.e_rho[e_name][i] * self.e_rho[e_name][1:w_max - i])\n', '                k = np.arange(1, w_max - i)\n                rho = self.e_rho[e_name]\n                tmp = rho[k + i] + rho[np.abs(k - i)] - 2 * rho[i] * rho[k]\n', 'BENIGN'),
    ('drho-factor-two', 'pyerrors/obs.py', "                       - 2 * self.e_rho[e_name][i] * self.e_rho[e_name][1:w_max - i])", "                       - self.e_rho[e_name][i] * self.e_rho[e_name][1:w_max - i])", 'C02-D5'),
    ('drho-mirror-start', 'pyerrors/obs.py', "self.e_rho[e_name][i - 1:None if i - (w_max - 1) // 2 <= 0", "self.e_rho[e_name][i:None if i - (w_max - 1) // 2 <= 0", 'C02-D5'),
    ('drho-norm', 'pyerrors/obs.py', "self.e_drho[e_name][i] = np.sqrt(np.sum(tmp ** 2) / e_N)", "self.e_drho[e_name][i] = np.sqrt(np.sum(tmp ** 2)) / e_N", 'C02-D5'),
    ('direct-lag-dropped', 'pyerrors/obs.py', "deltas[0:new_shape - n].dot(deltas[n:new_shape])", "deltas[0:new_shape - n].dot(deltas[0:new_shape - n])", 'C02-D4'),
    ('rho-normalisation', 'pyerrors/obs.py', "self.e_rho[e_name] = e_gamma[e_name][:w_max] / e_gamma[e_name][0]", "self.e_rho[e_name] = e_gamma[e_name][:w_max] / e_gamma[e_name][1]", 'C02-D1'),
    ('cumsum-first', 'pyerrors/obs.py', "np.cumsum(np.concatenate(([0.5], self.e_rho[e_name][1:])))", "np.cumsum(np.concatenate(([1.0], self.e_rho[e_name][1:])))", 'C02-D1'),
    ('ddvalue-window', 'pyerrors/obs.py', "                            self.e_ddvalue[e_name] = self.e_dvalue[e_name] * np.sqrt((n + 0.5) / e_N)", "                            self.e_ddvalue[e_name] = self.e_dvalue[e_name] * np.sqrt((n + 1.5) / e_N)", 'C02-D1'),
    ('total-linear-sum', 'pyerrors/obs.py', "            self._dvalue += self.e_dvalue[e_name] ** 2\n            self.ddvalue", "            self._dvalue += self.e_dvalue[e_name]\n            self.ddvalue", 'C02-D1'),
    ('benign-bias-rewrite', 'pyerrors/obs.py', _STD, _STD.replace('/ (1 + 1 / e_N)', '* e_N / (e_N + 1)'), 'BENIGN'),
    ('benign-sigma-rewrite', 'pyerrors/obs.py', "np.sqrt(e_gamma[e_name][0] / (e_N - 1))", "np.sqrt(e_gamma[e_name][0]) / np.sqrt(e_N - 1)", 'BENIGN'),
]

LEVEL_TEXT = ('decides only: every formula assigned in Obs.gamma_method (rho, tau_W, dtau_W, window criteria g_W and rho-N_sigma*drho, bias-corrected tau_int, '
              'sigma, dsigma, S=0 and tail branches, totals, Covobs.errsq) is algebraically the Gamma-method formula of the paper, evaluated at the lag it is '
              'used for; pair-count normalisation uses identical arguments; FFT padding is sufficient and the direct path sums lag-n products. '
              'Not the numerical output of FFT/summation.')
TECHNIQUE = 'AST -> sympy translation with opaque slot functions and symbolic element index; equality modulo algebra against reference formulas'
