"""C03  Error analysis is invariant under relabelling, rescaling and call history.

Decides only:
  D1 gamma_method (with its callees) writes analysis slots only; never through an alias of deltas/idl/r_values/names
  D2 every analysis slot read or accumulated in gamma_method is reset first; class-level defaults are read only in _parse_kwarg and never written
  D3 parameter precedence: explicit argument > per-ensemble dictionary > global default
  D4 configuration-number arithmetic is gap relative (units ABS / DIFF / COUNT)
  D5 functions that derive new observables never read analysis slots
  D6 tau_int >= 1/2 and errors non-negative by construction of the assigned expressions
"""
import ast

import sympy as sp

from ..srcmodel import established_false, Unrecognised, unparse, call_name, walk, statements, guards_of, const
from ..effects import Analyzer, clean_path, significant
from . import C02

LEVEL = 'other'
EXPLANATION = ('effect analysis (write-set of gamma_method and callees with may-alias), def-before-use of analysis slots, path enumeration of the '
               'parameter-precedence helper, a units type system (ABS/DIFF/COUNT) for configuration numbers, read-set scan of deriving functions, '
               'sign analysis of the assigned error expressions')
LEVEL_TEXT = ('decides only structural necessary conditions of C03: gamma_method mutates nothing but analysis slots; no stale state is read; parameter '
              'precedence; lag arithmetic is gap relative (shift/scale invariance of configuration numbers); deriving functions ignore earlier analyses; '
              'tau_int>=1/2 and non-negative errors by expression sign. FFT-vs-direct equality, invariance under data rescaling and finiteness are not decided.')
TECHNIQUE = 'effect/alias analysis over the call graph, def-use on the statement tree, units type system, sympy sign analysis'

ANALYSIS_SLOTS = {'e_dvalue', 'e_ddvalue', 'e_tauint', 'e_dtauint', 'e_windowsize', 'e_rho', 'e_drho', 'e_n_tauint', 'e_n_dtauint',
                  'S', 'tau_exp', 'N_sigma', '_dvalue', 'ddvalue'}
DATA_SLOTS = {'deltas', 'idl', 'r_values', 'names', 'shape', 'N', '_value', '_covobs', 'reweighted', 'tag'}


def d1_effects(ctx, obs):
    rule = 'C03-D1'
    an = Analyzer(ctx.repo)
    s = an.summary(('obs', 'Obs.gamma_method'))
    f = obs.func('Obs.gamma_method')
    # dynamic slot names: getattr(self, <param>) inside nested helpers -> literals passed at the call sites
    dyn = set()
    for q, node in obs.functions():
        if q.startswith('Obs.gamma_method.'):
            params = [a.arg for a in node.args.args]
            for c in walk(node):
                if isinstance(c, ast.Call) and call_name(c) == 'getattr' and len(c.args) == 2 and unparse(c.args[0]) == 'self' and isinstance(c.args[1], ast.Name) and c.args[1].id in params:
                    pos = params.index(c.args[1].id)
                    for cc in walk(f):
                        if isinstance(cc, ast.Call) and isinstance(cc.func, ast.Name) and cc.func.id == node.name and len(cc.args) > pos:
                            a = cc.args[pos]
                            dyn.add(a.value if isinstance(a, ast.Constant) else '<non-literal %s>' % unparse(a))
    n = 0
    seen = set()
    for ev in s.events:
        if not significant(ev):
            continue
        path = clean_path(ev.ref.path)
        slot = path[0] if path else None
        key = 'obs.py:Obs.gamma_method#%s %s%s' % (ev.kind.split(' ')[0], ev.ref.root, ''.join('.' + p if p != '[]' else '[]' for p in path))
        if key in seen:
            continue
        seen.add(key)
        n += 1
        if ev.ref.root != 'self':
            ctx.violated(rule, key, 'the error analysis mutates its argument %r (%s%s)' % (ev.ref, ev.kind, ' via ' + ev.via if ev.via else ''), obs.loc(ev.node))
        elif slot == '?':
            bad = [d for d in dyn if d not in ANALYSIS_SLOTS]
            ctx.check(rule, key, not bad and bool(dyn), 'dynamic slot store limited to %s' % sorted(dyn), 'dynamic slot store may hit %s' % bad, obs.loc(ev.node))
        elif slot in ANALYSIS_SLOTS:
            ctx.holds(rule, key, 'writes analysis slot %s only' % slot, obs.loc(ev.node))
        else:
            ctx.violated(rule, key, 'the error analysis modifies self.%s (%s%s): central value, fluctuations and configuration lists must not change' % (
                '.'.join(path), ev.kind, ' via ' + ev.via if ev.via else ''), obs.loc(ev.node))
    ctx.floor('mutation events of gamma_method classified', n, 14)
    # callees have no effects on their parameters
    for key in (('obs', 'Obs._calc_gamma'), ('obs', '_expand_deltas'), ('obs', '_determine_gap'), ('covobs', 'Covobs.errsq')):
        try:
            cs = an.summary(key)
        except KeyError:
            ctx.unrec(rule, '%s.py:%s#effects' % key, 'callee not found')
            continue
        evs = [e for e in cs.events if significant(e)]
        ctx.check(rule, '%s.py:%s#effects' % key, not evs, 'no parameter is mutated', 'mutates %s' % evs)
    # CObs.gamma_method and the module level wrapper delegate only
    cs = an.summary(('obs', 'CObs.gamma_method'))
    ctx.check(rule, 'obs.py:CObs.gamma_method#effects', not cs.events, 'delegates to the parts', 'mutates %s' % cs.events)


def d2_stale(ctx, obs):
    rule = 'C03-D2'
    f = obs.func('Obs.gamma_method')
    # resets: top-level statements `self.<slot> = <fresh>` before the first top-level loop
    resets = {}
    first_loop = None
    for st in f.body:
        if isinstance(st, (ast.For, ast.While)):
            first_loop = st
            break
        if isinstance(st, ast.Assign):
            for t in st.targets:
                if isinstance(t, ast.Attribute) and unparse(t.value) == 'self':
                    fresh = isinstance(st.value, (ast.Dict, ast.Constant)) or (isinstance(st.value, ast.Call) and not st.value.args)
                    resets[t.attr] = fresh
    if first_loop is None:
        ctx.unrec(rule, 'obs.py:Obs.gamma_method#resets', 'no top-level loop found')
        return
    used = {}
    for n in walk(f):
        if isinstance(n, ast.Attribute) and isinstance(n.value, ast.Name) and n.value.id == 'self' and n.attr in ANALYSIS_SLOTS:
            par = obs.parents.get(n)
            is_plain_store = isinstance(n.ctx, ast.Store) and isinstance(par, ast.Assign)
            if not is_plain_store:
                used.setdefault(n.attr, n)
    # getattr(self, name) stores in _parse_kwarg use S / tau_exp / N_sigma
    for slot, node in sorted(used.items()):
        key = 'obs.py:Obs.gamma_method#reset[%s]' % slot
        if slot in resets:
            ctx.check(rule, key, resets[slot], 'self.%s is re-initialised at entry before it is read or accumulated' % slot,
                      'self.%s is initialised from a non-fresh value' % slot, obs.loc(node))
        else:
            ctx.violated(rule, key, 'self.%s is read / accumulated / element-stored (line %d) but not re-initialised at the start of the analysis: '
                         'the outcome would depend on earlier analyses of the same object' % (slot, node.lineno), obs.loc(node))
    ctx.floor('analysis slots with reset obligation', len(used), 12)
    # class-level state
    cls = obs.cls('Obs')
    reads, writes = [], []
    for n in walk(cls):
        if isinstance(n, ast.Attribute) and isinstance(n.value, ast.Name) and n.value.id == 'Obs' and ('_dict' in n.attr or '_global' in n.attr):
            (writes if isinstance(n.ctx, (ast.Store, ast.Del)) else reads).append(n)
        if isinstance(n, ast.Call) and call_name(n) in ('getattr', 'setattr') and n.args and unparse(n.args[0]) == 'Obs':
            (writes if call_name(n) == 'setattr' else reads).append(n)
    # element stores  getattr(Obs, ...)[k] = v  /  Obs.S_dict[k] = v
    for n in walk(cls):
        if isinstance(n, (ast.Assign, ast.AugAssign)):
            tg = n.targets if isinstance(n, ast.Assign) else [n.target]
            for t in tg:
                if isinstance(t, ast.Subscript) and ('Obs' == unparse(t.value).split('.')[0].split('(')[-1] or unparse(t.value).startswith('getattr(Obs')):
                    writes.append(t)
    # in-place mutation of class-level containers, directly or through a local alias
    MUT = {'setdefault', 'update', 'pop', 'popitem', 'clear', 'append', 'extend', '__setitem__'}

    def is_class_state(e, aliases):
        if isinstance(e, ast.Call) and call_name(e) == 'getattr' and e.args and unparse(e.args[0]) == 'Obs':
            return True
        if isinstance(e, ast.Attribute) and isinstance(e.value, ast.Name) and e.value.id == 'Obs' and ('_dict' in e.attr or '_global' in e.attr):
            return True
        if isinstance(e, ast.Name) and e.id in aliases:
            return True
        return False
    for q_, fn_ in obs.functions():
        aliases = set()
        for st in statements(fn_, skip_nested_defs=False):
            if isinstance(st, ast.Assign) and len(st.targets) == 1 and isinstance(st.targets[0], ast.Name) and is_class_state(st.value, set()):
                aliases.add(st.targets[0].id)
        for n in walk(fn_, skip_nested_defs=False):
            if isinstance(n, ast.Call) and isinstance(n.func, ast.Attribute) and n.func.attr in MUT and is_class_state(n.func.value, aliases):
                writes.append(n)
            if isinstance(n, (ast.Assign, ast.AugAssign)):
                for t in (n.targets if isinstance(n, ast.Assign) else [n.target]):
                    if isinstance(t, ast.Subscript) and is_class_state(t.value, aliases) and t not in writes:
                        writes.append(t)
    for n in reads:
        q = obs.enclosing_qualname(n)
        ctx.check(rule, 'obs.py:%s#class-default-read' % q, q == 'Obs.gamma_method._parse_kwarg',
                  'class-level defaults are read in _parse_kwarg only', 'class-level state %s read in %s' % (unparse(n), q), obs.loc(n))
    for n in writes:
        ctx.violated(rule, 'obs.py:%s#class-default-write' % obs.enclosing_qualname(n), 'class-level default %s is written by library code' % unparse(n), obs.loc(n))
    ctx.floor('class-level default reads', len(reads), 2)
    # no module level mutable state is written from gamma_method: global / nonlocal statements
    for n in walk(f):
        if isinstance(n, ast.Global):
            ctx.violated(rule, 'obs.py:Obs.gamma_method#global', 'uses global state %s' % n.names, obs.loc(n))


def d3_precedence(ctx, obs, rule='C03-D3'):
    f = obs.func('Obs.gamma_method._parse_kwarg')
    pname = f.args.args[0].arg
    stores = []
    for st in statements(f):
        if isinstance(st, ast.Assign) and isinstance(st.targets[0], ast.Subscript) and unparse(st.targets[0].value) == 'getattr(self, %s)' % pname:
            stores.append(st)
    # a value that is only conditionally (re)assigned inside the loop over the ensembles leaks from one ensemble to the next
    from .. import loopstate
    for lp in [s_ for s_ in statements(f) if isinstance(s_, ast.For)]:
        for nm_, node_ in loopstate.carried_reads(obs, lp):
            ctx.violated(rule, 'obs.py:Obs.gamma_method._parse_kwarg#loop-carried[%s]' % nm_, 'the value `%s` stored for an ensemble is not determined inside that iteration on every path: '
                         'an ensemble without its own entry inherits the value of a previously handled ensemble' % nm_, obs.loc(node_))
    if len(stores) != 3:
        ctx.unrec(rule, 'obs.py:Obs.gamma_method._parse_kwarg#stores', 'expected three stores (argument / dictionary / global), found %d' % len(stores))
        return

    def source(v):
        t = unparse(v)
        if "'_dict'" in t and 'Obs' in t:
            return 'dict'
        if "'_global'" in t and 'Obs' in t:
            return 'global'
        if isinstance(v, ast.Name):
            defs = [s for s in statements(f) if isinstance(s, ast.Assign) and isinstance(s.targets[0], ast.Name) and s.targets[0].id == v.id]
            if len(defs) == 1 and 'kwargs' in unparse(defs[0].value) and pname in unparse(defs[0].value):
                return 'arg'
        if 'kwargs' in t and pname in t:
            return 'arg'
        return None

    def gclass(t):
        txt = unparse(t)
        if isinstance(t, ast.Compare) and isinstance(t.ops[0], ast.In) and unparse(t.left) == pname and unparse(t.comparators[0]) == 'kwargs':
            return 'given'
        if isinstance(t, ast.Compare) and isinstance(t.ops[0], ast.In) and "'_dict'" in txt:
            return 'indict'
        return None
    want = {'arg': {'given': True}, 'dict': {'given': False, 'indict': True}, 'global': {'given': False, 'indict': False}}
    seen = set()
    for st in stores:
        src = source(st.value)
        key = 'obs.py:Obs.gamma_method._parse_kwarg#source[%s]' % src
        if src is None and isinstance(st.value, ast.Subscript) and unparse(st.value.value).startswith('Obs.') and unparse(st.value.slice) == pname:
            # a class-level table indexed by the parameter name: its entries were bound when the class body ran, later assignments to
            # Obs.S_global / tau_exp_global / N_sigma_global are not seen
            ctx.violated(rule, 'obs.py:Obs.gamma_method._parse_kwarg#source[global]', 'the global default is read from the class-level table `%s`, a snapshot taken when the class was defined: '
                         'assigning Obs.<parameter>_global afterwards has no effect (explicit argument > per-ensemble dictionary > *current* global default)' % unparse(st.value.value), obs.loc(st))
            seen.add('global')
            continue
        if src is None:
            ctx.unrec(rule, 'obs.py:Obs.gamma_method._parse_kwarg#source[?]', 'cannot classify value %s' % unparse(st.value), obs.loc(st))
            continue
        seen.add(src)
        g = {}
        for t, pol in guards_of(obs, st, stop=f):
            c = gclass(t)
            if c:
                g[c] = pol
        # guard-clause style: `if name in kwargs: ...; return` in front of the store excludes the condition as well
        for t in established_false(obs, f, st):
            c = gclass(t)
            if c and c not in g:
                g[c] = False
        ctx.check(rule, key, g == want[src], 'value from %s used exactly under %s' % (src, want[src]),
                  'value from %s is used under conditions %s, precedence requires %s (argument > per-ensemble dictionary > global default)' % (src, g, want[src]), obs.loc(st))
    if seen != {'arg', 'dict', 'global'}:
        ctx.unrec(rule, 'obs.py:Obs.gamma_method._parse_kwarg#sources', 'sources found: %s' % sorted(seen))
    # all three parameters are parsed
    gm = obs.func('Obs.gamma_method')
    parsed = {c.args[0].value for c in walk(gm) if isinstance(c, ast.Call) and isinstance(c.func, ast.Name) and c.func.id == f.name and c.args and isinstance(c.args[0], ast.Constant)}
    ctx.check(rule, 'obs.py:Obs.gamma_method#parsed-parameters', parsed == {'S', 'tau_exp', 'N_sigma'}, 'S, tau_exp, N_sigma all go through the precedence helper',
              'parameters parsed: %s' % sorted(parsed))


# ------------------------------------------------------------------ D4 units

ABS, DIFF, COUNT, NUM, LABS, ANY = 'ABS', 'DIFF', 'COUNT', 'NUM', 'LIST[ABS]', 'ANY'


class Units:
    def __init__(self, ctx, mod, func, env, rule='C03-D4'):
        self.ctx, self.mod, self.f, self.env, self.rule = ctx, mod, func, dict(env), rule
        self.q = mod.qualname_of(func)
        self.n = 0

    def bad(self, node, msg):
        stmt = node
        while not isinstance(stmt, ast.stmt):
            stmt = self.mod.parents[stmt]
        self.ctx.violated(self.rule, 'obs.py:%s#%s' % (self.q, unparse(node)), msg + ' in `%s`' % unparse(stmt)[:120], self.mod.loc(node))

    def u(self, e):
        self.n += 1
        if isinstance(e, ast.Constant):
            return 'CONST' if isinstance(e.value, (int, float)) and not isinstance(e.value, bool) else ANY
        if isinstance(e, ast.Name):
            return self.env.get(e.id, ANY)
        if isinstance(e, ast.Attribute):
            b = self.u(e.value)
            if b == LABS and e.attr in ('step',):
                return DIFF
            if b == LABS and e.attr == 'stop':
                # range(2, 41, 2) and range(2, 42, 2) are the same configuration list with different .stop: the end point of a
                # range is not a function of its elements
                self.bad(e, 'the representation dependent end point `.stop` of a configuration range is used (equal lists with different .stop give different results)')
                return ABS
            if b == LABS and e.attr == 'start':
                return ABS
            if e.attr == 'idl':
                return 'DICT[LABS]'
            if e.attr == 'shape':
                return 'DICT[COUNT]'
            if e.attr in ('deltas', 'r_values'):
                return 'DICT[NUM]'
            return ANY
        if isinstance(e, ast.Subscript):
            b = self.u(e.value)
            iu = self.u(e.slice) if not isinstance(e.slice, ast.Slice) else COUNT
            if iu in (ABS, DIFF):
                self.bad(e.slice, 'a %s quantity (%s) is used as an array position' % (iu, unparse(e.slice)))
            if b == LABS:
                return LABS if isinstance(e.slice, ast.Slice) else ABS
            if b == 'DICT[LABS]':
                return LABS
            if b == 'DICT[COUNT]':
                return COUNT
            if b == 'DICT[NUM]':
                return NUM
            if b == 'LIST[DIFF]':
                return DIFF
            if b == 'LIST[COUNT]':
                return COUNT
            return NUM if b == NUM else ANY
        if isinstance(e, ast.BinOp):
            a, b = self.u(e.left), self.u(e.right)
            op = type(e.op).__name__
            return self.binop(e, op, a, b)
        if isinstance(e, ast.UnaryOp):
            return self.u(e.operand)
        if isinstance(e, ast.Call):
            d = self.mod.dotted(e.func) or ''
            args = [self.u(a) for a in e.args]
            if d == 'len':
                return COUNT
            if d == 'numpy.diff' and args and args[0] == LABS:
                return 'LIST[DIFF]'
            if d in ('numpy.min', 'numpy.max', 'min', 'max') and args:
                if args[0] in ('LIST[DIFF]',):
                    return DIFF
                if args[0] == LABS:
                    return ABS
                if args[0] == 'LIST[COUNT]':
                    return COUNT
                if len(args) >= 2 and len(set(args)) == 1:
                    return args[0]
                return ANY
            if d == 'range':
                return 'LIST[COUNT]'
            if d in ('list', 'numpy.array', 'numpy.asarray') and args:
                return args[0]
            if d == '_determine_gap':
                return DIFF
            if d in ('numpy.zeros', 'numpy.ones'):
                if args and args[0] in (ABS, DIFF):
                    self.bad(e.args[0], 'an array is allocated with a %s length' % args[0])
                return NUM
            if d == 'isinstance':
                return ANY
            return ANY
        if isinstance(e, (ast.ListComp, ast.GeneratorExp)):
            env2 = dict(self.env)
            for g in e.generators:
                iu = self.u(g.iter)
                for nme in ast.walk(g.target):
                    if isinstance(nme, ast.Name):
                        self.env[nme.id] = {'LIST[COUNT]': COUNT, LABS: ABS, 'LIST[DIFF]': DIFF}.get(iu, ANY)
            r = self.u(e.elt)
            self.env = env2
            return {'ABS': LABS, DIFF: 'LIST[DIFF]', COUNT: 'LIST[COUNT]'}.get(r, ANY)
        if isinstance(e, ast.Compare):
            us = [self.u(e.left)] + [self.u(c) for c in e.comparators]
            core = [x for x in us if x in (ABS, DIFF, COUNT)]
            if len(set(core)) > 1:
                self.bad(e, 'comparison of quantities with different units %s' % us)
            return ANY
        if isinstance(e, ast.BoolOp):
            for v in e.values:
                self.u(v)
            return ANY
        if isinstance(e, ast.IfExp):
            self.u(e.test)
            a, b = self.u(e.body), self.u(e.orelse)
            return a if a == b else ANY
        for c in ast.iter_child_nodes(e):
            if isinstance(c, ast.expr):
                self.u(c)
        return ANY

    def binop(self, e, op, a, b):
        c = lambda x: COUNT if x == 'CONST' else x
        if a == ANY or b == ANY or a == NUM or b == NUM:
            return ANY if NUM not in (a, b) else NUM
        if op in ('Add', 'Sub'):
            if {a, b} == {'CONST'}:
                return 'CONST'
            if a == ABS and b == ABS:
                if op == 'Sub':
                    return DIFF
                self.bad(e, 'two absolute configuration numbers are added (not shift invariant)')
                return ANY
            if ABS in (a, b):
                o = b if a == ABS else a
                if o == DIFF:
                    return ABS
                self.bad(e, 'an absolute configuration number is combined with a %s (%s): not invariant under rescaling of the configuration numbers' % (
                    'dimensionless constant' if o == 'CONST' else o, unparse(e.right if a == ABS else e.left)))
                return ABS
            if DIFF in (a, b):
                o = b if a == DIFF else a
                if o == DIFF:
                    return DIFF
                self.bad(e, 'a configuration-number difference is combined with the %s %s: not invariant when all configuration numbers are '
                         'multiplied by a common integer' % ('dimensionless constant' if o == 'CONST' else 'count', unparse(e.right if a == DIFF else e.left)))
                return DIFF
            return COUNT
        if op == 'Mult':
            if ABS in (a, b):
                self.bad(e, 'an absolute configuration number is multiplied')
                return ANY
            if a == DIFF and b == DIFF:
                self.bad(e, 'product of two configuration-number differences')
                return ANY
            if DIFF in (a, b):
                return DIFF
            return COUNT if COUNT in (a, b) else 'CONST'
        if op in ('FloorDiv', 'Div'):
            if a == ABS or b == ABS:
                self.bad(e, 'an absolute configuration number enters a division (not shift invariant)')
                return ANY
            if a == DIFF and b == DIFF:
                return COUNT
            if a == DIFF:
                return DIFF
            if b == DIFF:
                self.bad(e, 'a count is divided by a configuration-number difference')
                return ANY
            return COUNT
        if op == 'Mod':
            if a == ABS or b == ABS:
                self.bad(e, 'an absolute configuration number enters a modulo (not shift invariant)')
                return ANY
            if a == DIFF and b == DIFF:
                return DIFF
            return c(a)
        return ANY

    def run_stmts(self, stmts):
        for st in stmts:
            self.stmt(st)

    def stmt(self, st):
        if isinstance(st, ast.Assign):
            v = self.u(st.value)
            for t in st.targets:
                if isinstance(t, ast.Name):
                    self.env[t.id] = COUNT if v == 'CONST' else v
                else:
                    self.u(t)
        elif isinstance(st, ast.AugAssign):
            self.u(st.value)
            self.u(st.target) if not isinstance(st.target, ast.Name) else None
        elif isinstance(st, ast.Expr):
            v = st.value
            if isinstance(v, ast.Call) and isinstance(v.func, ast.Attribute) and v.func.attr == 'append' and isinstance(v.func.value, ast.Name) and v.args:
                u = self.u(v.args[0])
                self.env[v.func.value.id] = {DIFF: 'LIST[DIFF]', COUNT: 'LIST[COUNT]', 'CONST': 'LIST[COUNT]', ABS: LABS}.get(u, ANY)
            else:
                self.u(v)
        elif isinstance(st, ast.For):
            iu = self.u(st.iter)
            for nme in ast.walk(st.target):
                if isinstance(nme, ast.Name):
                    self.env[nme.id] = {'LIST[COUNT]': COUNT, LABS: ABS, 'LIST[DIFF]': DIFF}.get(iu, self.env.get(nme.id, ANY) if nme.id in ('r_name', 'e_name') else ANY)
            self.run_stmts(st.body)
        elif isinstance(st, ast.If):
            self.u(st.test)
            self.run_stmts(st.body)
            self.run_stmts(st.orelse)
        elif isinstance(st, ast.Return):
            if st.value is not None:
                self.u(st.value)
        elif isinstance(st, (ast.While,)):
            self.u(st.test)
            self.run_stmts(st.body)
        elif isinstance(st, ast.Raise):
            pass
        elif isinstance(st, (ast.FunctionDef,)):
            pass


def d4_units(ctx, obs, rule='C03-D4'):
    total = 0
    before = len([o for o in ctx.obs if o.rule == rule and o.verdict == 'VIOLATED'])
    # _expand_deltas(deltas, idx, shape, gapsize)
    f = obs.func('_expand_deltas')
    p = [a.arg for a in f.args.args]
    if len(p) != 4:
        raise Unrecognised('_expand_deltas signature changed')
    u = Units(ctx, obs, f, {p[0]: NUM, p[1]: LABS, p[2]: COUNT, p[3]: DIFF}, rule=rule)
    u.run_stmts(f.body)
    total += u.n
    # _determine_gap(o, e_content, e_name)
    f = obs.func('_determine_gap')
    u = Units(ctx, obs, f, {}, rule=rule)
    u.run_stmts(f.body)
    total += u.n
    # gamma_method: the replica-length / window part
    f = obs.func('Obs.gamma_method')
    u = Units(ctx, obs, f, {'gapsize': DIFF}, rule=rule)
    u.run_stmts([s for s in f.body if isinstance(s, ast.For)])
    total += u.n
    # _calc_gamma(self, deltas, idx, shape, w_max, fft, gapsize)
    f = obs.func('Obs._calc_gamma')
    p = [a.arg for a in f.args.args]
    u = Units(ctx, obs, f, {p[1]: NUM, p[2]: LABS, p[3]: COUNT, p[4]: COUNT, p[6]: DIFF}, rule=rule)
    u.run_stmts(f.body)
    total += u.n
    after = len([o for o in ctx.obs if o.rule == rule and o.verdict == 'VIOLATED'])
    ctx.info['unit_typed_expressions'] = total
    ctx.floor('expressions typed by the units system', total, 100)
    if after == before:
        ctx.holds(rule, 'obs.py:units', '%d expressions of gamma_method, _calc_gamma, _expand_deltas, _determine_gap typed without contradiction' % total)
    else:
        ctx.holds(rule, 'obs.py:units-rest', '%d expressions typed; contradictions reported separately' % total)
    # sibling agreement: both expansions of an irregular chain count gap-sized slots the same way
    return


def d5_readset(ctx, obs):
    rule = 'C03-D5'
    targets = ['derived_observable', 'reweight', 'correlate', 'merge_obs', 'import_jackknife', 'import_bootstrap', '_reduce_deltas', '_expand_deltas_for_merge',
               '_merge_idx', '_intersection_idx', 'cov_Obs', 'Obs.export_jackknife', 'Obs.export_bootstrap', 'Obs.reweight', 'Obs.__init__']
    targets += ['Obs.' + n for n, _ in obs.methods('Obs') if n.startswith('__') and n not in ('__init__', '__str__', '__repr__', '__format__')]
    targets += ['Obs.' + n for n in ('sqrt', 'log', 'exp', 'sin', 'cos', 'tan', 'arcsin', 'arccos', 'arctan', 'sinh', 'cosh', 'tanh', 'arcsinh', 'arccosh', 'arctanh')]
    targets += ['CObs.' + n for n, _ in obs.methods('CObs') if n not in ('gamma_method', '__str__', '__repr__', '__format__')]
    n = 0
    for q in dict.fromkeys(targets):
        if not obs.has_func(q):
            continue
        f = obs.func(q)
        bad = []
        for node in walk(f, skip_nested_defs=False):
            if isinstance(node, ast.Attribute) and isinstance(node.ctx, ast.Load) and (node.attr in ANALYSIS_SLOTS or node.attr == 'dvalue'):
                if node.attr in ('S', 'N_sigma', 'tau_exp') and not isinstance(node.value, ast.Name):
                    continue
                bad.append(node)
            if isinstance(node, ast.Call) and call_name(node) in ('hasattr', 'getattr') and len(node.args) >= 2 and isinstance(node.args[1], ast.Constant) \
                    and node.args[1].value in ANALYSIS_SLOTS:
                bad.append(node)
        n += 1
        key = 'obs.py:%s#read-set' % q
        if bad:
            ctx.violated(rule, key, 'derives a new observable but reads analysis state %s: the result would depend on whether the input was analysed before' % (
                sorted({unparse(b) for b in bad})), obs.loc(bad[0]))
        else:
            ctx.holds(rule, key, 'reads no analysis slot')
    ctx.floor('deriving functions scanned', n, 55)
    # other modules: linalg, fits (besides explicit use of errors as weights), roots, integrate produce Obs through derived_observable only
    for mn in ('linalg', 'roots', 'integrate', 'special'):
        m = ctx.repo.mod(mn)
        bad = [node for node in ast.walk(m.tree) if isinstance(node, ast.Attribute) and isinstance(node.ctx, ast.Load)
               and (node.attr in (ANALYSIS_SLOTS - {'S'}) or node.attr == 'dvalue')]
        ctx.check(rule, '%s.py#read-set' % mn, not bad, 'reads no analysis slot', 'reads %s' % sorted({unparse(b) for b in bad}))


def d5b_fresh_results(ctx, obs, rule='C03-D5'):
    """an arithmetic operation returns a new observable: handing back `self` (for `+ 0`, `* 1`, ...) makes the "result" share its error
    analysis with the operand - it carries errors it never computed, and analysing it overwrites the operand's"""
    n = 0
    for q, f in obs.functions():
        if not q.startswith('Obs.__') or q.split('.')[1] not in ('__add__', '__radd__', '__sub__', '__rsub__', '__mul__', '__rmul__', '__truediv__', '__rtruediv__', '__pow__', '__rpow__', '__neg__', '__abs__'):
            continue
        n += 1
        rs = [s_ for s_ in statements(f) if isinstance(s_, ast.Return) and isinstance(s_.value, ast.Name) and s_.value.id == 'self']
        ctx.check(rule, 'obs.py:%s#fresh-result' % q, not rs, 'every path returns a newly derived observable',
                  '%s returns `self` on the path guarded by %s: the result shares value, fluctuations and the stored error analysis with the operand' % (
                      q, [unparse(t_) for s_ in rs for t_, pol in guards_of(obs, s_, stop=f) if pol]), obs.loc(rs[0]) if rs else None)
    ctx.floor('arithmetic methods of Obs', n, 10)


def d6_bounds(ctx, obs):
    rule = 'C03-D6'
    f = obs.func('Obs.gamma_method')
    g = C02.GM(obs, f)
    # clamp of tau_W
    clamp = [s for s in g.sts if isinstance(s, ast.Assign) and isinstance(s.targets[0], ast.Subscript) and g.slot_of(s.targets[0].value) == 'e_n_tauint'
             and isinstance(s.targets[0].slice, ast.Compare)]
    key = 'obs.py:Obs.gamma_method#tauW-clamp'
    if len(clamp) != 1:
        ctx.unrec(rule, key, 'expected one masked store clamping e_n_tauint, found %d' % len(clamp))
    else:
        m = clamp[0].targets[0].slice
        v = clamp[0].value
        okm = isinstance(m.ops[0], (ast.LtE, ast.Lt)) and const(m.comparators[0]) == 0.5 and g.slot_of(m.left) == 'e_n_tauint'
        vtxt = unparse(v)
        okv = (const(v) is not None and const(v) >= 0.5) or (isinstance(v, ast.BinOp) and isinstance(v.op, ast.Add) and const(v.left) == 0.5 and 'eps' in vtxt)
        ctx.check(rule, key, okm and okv, 'entries of tau_W <= 1/2 are raised to >= 1/2 before use', 'clamp is `%s`' % unparse(clamp[0]), obs.loc(clamp[0]))
    # the error of tau_W: the argument of its square root is |W + 1/2 - tau_W| - without the absolute value it is negative whenever
    # tau_W(W) > W + 1/2 (few strongly correlated pairs in a gapped chain) and the error becomes NaN
    jj = sp.Symbol('j', integer=True, positive=True)
    nsq = 0
    for s in g.sts:
        if isinstance(s, ast.Assign) and len(s.targets) == 1 and g.slot_of(s.targets[0].value if isinstance(s.targets[0], ast.Subscript) and not isinstance(s.targets[0].slice, ast.Constant) and g.slot_of(s.targets[0]) is None else s.targets[0]) == 'e_n_dtauint':
            for c in walk(s.value):
                if isinstance(c, ast.Call) and (obs.dotted(c.func) or '') == 'numpy.sqrt' and c.args:
                    nsq += 1
                    key = 'obs.py:Obs.gamma_method#sign[e_n_dtauint,sqrt]'
                    try:
                        e = g.T(c.args[0], jj)
                    except Unrecognised as ex:
                        ctx.unrec(rule, key, str(ex), obs.loc(s))
                        continue
                    e = e.replace(lambda x: isinstance(x, sp.Abs), lambda x: sp.Dummy('absval', nonnegative=True))
                    from sympy.core.function import AppliedUndef
                    e = e.xreplace({a_: sp.Dummy('unsigned_' + str(a_.func), real=True) for a_ in e.atoms(AppliedUndef)})
                    ok = e.is_nonnegative or sp.simplify(e).is_nonnegative
                    ctx.check(rule, key, bool(ok), 'the argument of the square root is non-negative for every window', 'the argument %s of the square root has no definite sign: the error of tau_int is NaN '
                              'where tau_W(W) > W + 1/2' % unparse(c.args[0]), obs.loc(s))
    ctx.floor('square roots in the error of tau_W', nsq, 1)
    p = sp.Symbol('p', nonnegative=True)
    for s in g.sts:
        if not (isinstance(s, ast.Assign) and len(s.targets) == 1):
            continue
        slot = g.slot_of(s.targets[0])
        if slot not in ('e_tauint', 'e_dvalue', 'e_ddvalue', 'e_dtauint'):
            continue
        cn = C02.ctx_name(g.context(s))
        key = 'obs.py:Obs.gamma_method#sign[%s,%s]' % (slot, cn)
        try:
            got = g.T(s.value)
        except Unrecognised as e:
            ctx.unrec(rule, key, str(e), obs.loc(s))
            continue
        if slot == 'e_tauint':
            e = got.subs(C02.Fnt(C02.W), sp.Rational(1, 2) + p) - sp.Rational(1, 2)
            e = e.replace(lambda x: isinstance(x, sp.Abs), lambda x: sp.Dummy('absval', nonnegative=True))
            # values of rho / drho / Gamma at some lag that are not wrapped in abs() have no known sign
            from sympy.core.function import AppliedUndef
            unk = {}
            for a_ in sorted(e.atoms(AppliedUndef), key=str):
                unk[a_] = sp.Dummy('unsigned_' + str(a_.func), real=True)
            e = e.xreplace(unk)
            num, den = sp.fraction(sp.together(e))
            num, den = sp.expand(num), sp.expand(den)

            def _nonneg_poly(q, strict):
                if not q.free_symbols:
                    return bool(q > 0) if strict else bool(q >= 0)
                if not all(x.is_nonnegative for x in q.free_symbols):
                    return False
                cs = sp.Poly(q, *sorted(q.free_symbols, key=str)).coeffs()
                return all((c > 0) if strict else (c >= 0) for c in cs)
            ok = (bool(num.is_nonnegative) or _nonneg_poly(num, False)) and (bool(den.is_positive) or _nonneg_poly(den, True))
            ctx.check(rule, key, bool(ok), 'tau_int - 1/2 = %s >= 0 given tau_W >= 1/2' % sp.factor(e), 'tau_int may fall below 1/2: tau_int - 1/2 = %s' % e, obs.loc(s))
        else:
            e = got.replace(lambda x: isinstance(x, sp.Abs), lambda x: sp.Dummy('absval', nonnegative=True))
            ok = e.is_nonnegative
            if ok is None:
                ok = sp.simplify(e).is_nonnegative
            if ok is None and slot == 'e_dvalue' and cn == 'S=0':
                # sqrt(Gamma0/(N-1)): N >= 5 by the constructor check
                ok = e.subs(C02.N, sp.Symbol('N5', positive=True) + 1).is_nonnegative
            if ok is None:
                ctx.unrec(rule, key, 'sign of %s not decided' % e, obs.loc(s))
            else:
                ctx.check(rule, key, bool(ok), '%s is non-negative by construction' % e, '%s may be negative' % e, obs.loc(s))


def d8_fft_guards(ctx, obs):
    """quantities returned by the FFT-capable _calc_gamma are exact only on the direct path: a guard on them has to be an
    inequality with a margin (a pair count of 'zero' is 1e-13 after the FFT), never an exact equality test"""
    rule = 'C03-D8'
    f = obs.func('Obs.gamma_method')
    bases = {}
    for s_ in statements(f):
        if isinstance(s_, (ast.Assign, ast.AugAssign)):
            v = s_.value
            if any(isinstance(c, ast.Call) and call_name(c) == '_calc_gamma' for c in ast.walk(v)):
                t = s_.targets[0] if isinstance(s_, ast.Assign) else s_.target
                bases[unparse(t)] = s_
    if not bases:
        raise Unrecognised('no value assigned from _calc_gamma found')
    n = 0
    for c in walk(f):
        if not isinstance(c, ast.Compare):
            continue
        operands = [c.left] + list(c.comparators)
        hit = [b for b in bases if any(unparse(x) == b for o in operands for x in ast.walk(o))]
        if not hit:
            continue
        n += 1
        key = 'obs.py:Obs.gamma_method#guard[%s]' % unparse(c)
        exact = any(isinstance(op, (ast.Eq, ast.NotEq, ast.Is, ast.IsNot)) for op in c.ops)
        # a magnitude threshold on a variance-like quantity breaks the scaling with |c| unless it only guards against underflow:
        # the constant is evaluated (numpy float limits) and has to be of the order of the smallest normal double
        if len(c.ops) == 1 and isinstance(c.ops[0], (ast.Lt, ast.LtE)) and any(isinstance(x, ast.Call) and call_name(x) == 'abs' for x in ast.walk(c.left)):
            class _FI:
                tiny = 2.2250738585072014e-308
                eps = 2.220446049250313e-16
                max = 1.7976931348623157e+308
                min = -1.7976931348623157e+308

            class _NP:
                float64 = float
                finfo = staticmethod(lambda *a, **k: _FI)
            try:
                thr = float(eval(compile(ast.Expression(body=c.comparators[0]), '<threshold>', 'eval'), {'__builtins__': {'float': float}}, {'np': _NP}))
            except Exception:
                thr = None
            if thr is not None:
                ctx.check(rule, key + '#underflow-only', thr <= 1e-290, 'the threshold %.3g only catches underflow' % thr,
                          'data whose variance is below %.3g is treated as constant (error 0, tau_int 1/2): the error no longer scales with |c| for small-valued observables' % thr, obs.loc(c))
        ctx.check(rule, key, not exact, 'guard on %s is an inequality (same outcome with and without FFT round-off)' % hit[0],
                  'exact equality test on %s, which is only zero up to round-off on the FFT path: FFT and direct evaluation take different branches' % hit[0], obs.loc(c))
    ctx.floor('guards on FFT-computed quantities', n, 2)


def d9_constructor_pairing(ctx, obs):
    """Obs.__init__ stores the replicas under self.names = sorted(names); samples / idl / means arrive in the caller's order.  Whatever
    walks the caller's lists together with names must keep the pairs together: zip(names, samples, ...) of caller-order lists (sorted as
    pairs or not), never a sorted list of names zipped with caller-order data."""
    rule = 'C03-D9'
    f = obs.func('Obs.__init__')
    params = {a.arg for a in f.args.args} - {'self'}
    sorted_names = set()
    for s_ in walk(f):
        if isinstance(s_, ast.Assign) and isinstance(s_.value, ast.Call) and call_name(s_.value) == 'sorted' and len(s_.targets) == 1:
            sorted_names.add(unparse(s_.targets[0]))

    def klass(e):
        t = unparse(e)
        if t in sorted_names or (isinstance(e, ast.Call) and call_name(e) == 'sorted'):
            return 'sorted'
        roots = {w.id for w in ast.walk(e) if isinstance(w, ast.Name)}
        if roots & params:
            return 'caller'
        return 'other'
    n = 0
    for c in walk(f):
        if isinstance(c, ast.Call) and isinstance(c.func, ast.Name) and c.func.id == 'zip' and len(c.args) >= 2:
            ks = [klass(a) for a in c.args]
            n += 1
            key = 'obs.py:Obs.__init__#pairing[%s]' % unparse(c)[:40]
            ctx.check(rule, key, not ('sorted' in ks and 'caller' in ks), 'names and data are paired in one order (%s)' % ks,
                      '`%s` pairs the SORTED names with data in the caller\'s order: when the replicas are not passed in sorted order every replica gets the samples of another one '
                      '(the configuration lists keep their own pairing, so nothing raises when the lengths agree)' % unparse(c), obs.loc(c))
    ctx.floor('C03-D9 zip pairings in Obs.__init__', n, 3)


def run(ctx):
    ctx.rule('C03-D1', 'gamma_method writes analysis slots only (effects with aliasing, callees included)')
    ctx.rule('C03-D2', 'no stale state: slots reset before use, class defaults read only in _parse_kwarg')
    ctx.rule('C03-D3', 'parameter precedence argument > dictionary > global')
    ctx.rule('C03-D4', 'units ABS/DIFF/COUNT of configuration-number arithmetic')
    ctx.rule('C03-D5', 'deriving functions read no analysis slot')
    ctx.rule('C03-D6', 'tau_int >= 1/2, errors >= 0 by sign analysis')
    ctx.not_decided += ['FFT path equals direct path numerically', 'invariance under adding a constant / scaling the data', 'finiteness for all data',
                        'replica renaming invariance']
    obs = ctx.repo.mod('obs')
    ctx.guarded('C03-D1', 'obs.py:Obs.gamma_method@effects', d1_effects, ctx, obs)
    ctx.guarded('C03-D2', 'obs.py:Obs.gamma_method@stale', d2_stale, ctx, obs)
    # no memoisation across analyses: module-level containers / function attributes / mutable defaults written on the analysis path
    from .. import hiddenstate
    ctx.guarded('C03-D2', 'obs.py@hidden-state', hiddenstate.check, ctx, 'C03-D2', obs,
                ['Obs.gamma_method', 'Obs._calc_gamma', '_expand_deltas', '_determine_gap', 'Obs.__init__', 'derived_observable', '_merge_idx', '_expand_deltas_for_merge', '_reduce_deltas'],
                'the outcome of an error analysis')
    ctx.guarded('C03-D3', 'obs.py:_parse_kwarg', d3_precedence, ctx, obs)
    ctx.guarded('C03-D4', 'obs.py@units', d4_units, ctx, obs)
    ctx.guarded('C03-D5', 'obs.py@read-set', d5_readset, ctx, obs)
    ctx.guarded('C03-D5', 'obs.py@fresh-results', d5b_fresh_results, ctx, obs)
    ctx.guarded('C03-D6', 'obs.py@bounds', d6_bounds, ctx, obs)
    ctx.rule('C03-D9', 'the constructor pairs names with samples / idl / means in one order (replica order invariance)')
    ctx.guarded('C03-D9', 'obs.py:Obs.__init__@pairing', d9_constructor_pairing, ctx, obs)
    ctx.rule('C03-D8', 'FFT path = direct path: guards on FFT-computed quantities are inequalities; padding, lag range and pairing of _calc_gamma (shared analysis with C02-D4)')
    ctx.guarded('C03-D8', 'obs.py@fft-guards', d8_fft_guards, ctx, obs)
    ctx.guarded('C03-D8', 'obs.py:Obs._calc_gamma@fft-vs-direct', C02.calc_gamma, ctx, obs, 'C03-D8')
    from .. import unusedparams, leakedloop
    ctx.rule('C03-D7', 'every accepted option is read (no silently ignored parameter); no loop variable read after its loop')
    for mn_ in ('obs',):
        ctx.guarded('C03-D7', mn_ + '@parameters', unusedparams.check, ctx, 'C03-D7', ctx.repo.mod(mn_))
        ctx.guarded('C03-D7', mn_ + '@loop-variables', leakedloop.check, ctx, 'C03-D7', ctx.repo.mod(mn_))



SELFTEST = [
    ('add-zero-returns-self', 'pyerrors/obs.py', '            if isinstance(y, np.ndarray):\n                return np.array([self + o for o in y])', '            if isinstance(y, np.ndarray):\n                return np.array([self + o for o in y])\n            elif y == 0:\n                return self', 'C03-D5'),
    ('dtauint-without-abs', 'pyerrors/obs.py', 'np.sqrt(np.abs(np.arange(w_max) + 0.5 - self.e_n_tauint[e_name]) / e_N)', 'np.sqrt((np.arange(w_max) + 0.5 - self.e_n_tauint[e_name]) / e_N)', 'C03-D6'),
    ('global-default-snapshot', 'pyerrors/obs.py', "                        getattr(self, kwarg_name)[e_name] = getattr(Obs, kwarg_name + '_global')", '                        getattr(self, kwarg_name)[e_name] = Obs._frozen[kwarg_name]', 'C03-D3'),
    ('variance-guard-eps', 'pyerrors/obs.py', "< 10 * np.finfo(float).tiny:", "< 1e-25:", 'C03-D8'),
    ('pair-count-cache', 'pyerrors/obs.py', "                gamma_div += self._calc_gamma(np.ones((self.shape[r_name])), self.idl[r_name], self.shape[r_name], w_max, fft, gapsize)", "                key_ = (self.idl[r_name][0], len(self.idl[r_name]), w_max)\n                if key_ not in Obs._div_cache:\n                    Obs._div_cache[key_] = self._calc_gamma(np.ones((self.shape[r_name])), self.idl[r_name], self.shape[r_name], w_max, fft, gapsize)\n                gamma_div += Obs._div_cache[key_]", None),
    ('pair-count-exact-zero', 'pyerrors/obs.py', "gamma_div[gamma_div < 1] = 1.0", "gamma_div[gamma_div == 0] = 1.0", 'C03-D8'),
    ('benign-pair-count-half', 'pyerrors/obs.py', "gamma_div[gamma_div < 1] = 1.0", "gamma_div[gamma_div < 0.5] = 1.0", 'BENIGN'),
    ('tail-sign-not-absolute', 'pyerrors/obs.py', "+ texp * np.abs(self.e_rho[e_name][n + 1])", "+ texp * self.e_rho[e_name][n + 1]", 'C03-D6'),
    ('fix-reverted-r_length', 'pyerrors/obs.py', "self.idl[r_name][0] + gapsize) // gapsize)", "self.idl[r_name][0] + 1) // gapsize)", 'C03-D4'),
    ('expand-index-absolute', 'pyerrors/obs.py', "ret[(idx[i] - idx[0]) // gapsize] = deltas[i]", "ret[idx[i] // gapsize] = deltas[i]", 'C03-D4'),
    ('expand-length-plus-one', 'pyerrors/obs.py', "ret = np.zeros((idx[-1] - idx[0] + gapsize) // gapsize)", "ret = np.zeros((idx[-1] - idx[0] + 1) // gapsize)", 'C03-D4'),
    ('inplace-deltas', 'pyerrors/obs.py', "            e_N = np.sum([self.shape[r_name] for r_name in e_content[e_name]])\n", "            e_N = np.sum([self.shape[r_name] for r_name in e_content[e_name]])\n            for r_name in e_content[e_name]:\n                self.deltas[r_name] -= np.mean(self.deltas[r_name])\n", 'C03-D1'),
    ('inplace-deltas-via-callee', 'pyerrors/obs.py', "        gamma = np.zeros(w_max)\n        deltas = _expand_deltas(deltas, idx, shape, gapsize)\n", "        gamma = np.zeros(w_max)\n        deltas = _expand_deltas(deltas, idx, shape, gapsize)\n        deltas -= deltas.mean()\n", 'C03-D1'),
    ('reset-removed', 'pyerrors/obs.py', "        self._dvalue = 0\n        self.ddvalue = 0\n\n        self.S = {}", "        self.ddvalue = 0\n\n        self.S = {}", 'C03-D2'),
    ('reset-removed-rho', 'pyerrors/obs.py', "        self.e_rho = {}\n        self.e_drho = {}\n        self._dvalue = 0", "        self.e_rho = getattr(self, 'e_rho', {})\n        self.e_drho = {}\n        self._dvalue = 0", 'C03-D2'),
    ('precedence-swapped', 'pyerrors/obs.py', "            if kwarg_name in kwargs:\n                tmp = kwargs.get(kwarg_name)", "            if kwarg_name in kwargs and not getattr(Obs, kwarg_name + '_dict'):\n                tmp = kwargs.get(kwarg_name)", None),
    ('class-default-written', 'pyerrors/obs.py', "        _parse_kwarg('S')\n", "        _parse_kwarg('S')\n        Obs.S_dict[self.names[0]] = self.S[self.e_names[0]]\n", 'C03-D2'),
    ('class-dict-setdefault', 'pyerrors/obs.py', "                    if e_name in getattr(Obs, kwarg_name + '_dict'):\n                        getattr(self, kwarg_name)[e_name] = getattr(Obs, kwarg_name + '_dict')[e_name]\n                    else:\n                        getattr(self, kwarg_name)[e_name] = getattr(Obs, kwarg_name + '_global')", "                    getattr(self, kwarg_name)[e_name] = getattr(Obs, kwarg_name + '_dict').setdefault(e_name, getattr(Obs, kwarg_name + '_global'))", 'C03-D2'),
    ('parameter-leaks-between-ensembles', 'pyerrors/obs.py', "                for e, e_name in enumerate(self.e_names):\n                    if e_name in getattr(Obs, kwarg_name + '_dict'):\n                        getattr(self, kwarg_name)[e_name] = getattr(Obs, kwarg_name + '_dict')[e_name]\n                    else:\n                        getattr(self, kwarg_name)[e_name] = getattr(Obs, kwarg_name + '_global')", "                tmp = getattr(Obs, kwarg_name + '_global')\n                for e, e_name in enumerate(self.e_names):\n                    if e_name in getattr(Obs, kwarg_name + '_dict'):\n                        tmp = getattr(Obs, kwarg_name + '_dict')[e_name]\n                    getattr(self, kwarg_name)[e_name] = tmp", 'C03-D3'),
    ('derived-reads-analysis', 'pyerrors/obs.py', "    reweighted = len(list(filter(lambda o: o.reweighted is True, raveled_data))) > 0\n", "    reweighted = len(list(filter(lambda o: o.reweighted is True, raveled_data))) > 0\n    if all(hasattr(o, 'e_dvalue') for o in raveled_data):\n        kwargs.pop('num_grad', None)\n", 'C03-D5'),
    ('tauint-clamp-removed', 'pyerrors/obs.py', "self.e_n_tauint[e_name][self.e_n_tauint[e_name] <= 0.5] = 0.5 + np.finfo(np.float64).eps", "self.e_n_tauint[e_name][self.e_n_tauint[e_name] <= 0.25] = 0.25 + np.finfo(np.float64).eps", 'C03-D6'),
    ('gap-not-min', 'pyerrors/obs.py', "gaps.append(np.min(np.diff(o.idl[r_name])))", "gaps.append(np.min(o.idl[r_name]))", 'C03-D4'),
    ('benign-rename-local', 'pyerrors/obs.py', "    ret = np.zeros((idx[-1] - idx[0] + gapsize) // gapsize)\n    for i in range(shape):\n        ret[(idx[i] - idx[0]) // gapsize] = deltas[i]\n    return ret", "    out = np.zeros((gapsize + idx[-1] - idx[0]) // gapsize)\n    for i in range(shape):\n        out[(idx[i] - idx[0]) // gapsize] = deltas[i]\n    return out", 'BENIGN'),
]
