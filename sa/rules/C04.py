"""C04  Every observable produced by the library is structurally well-formed.

Decides only:
  D1 closure of Obs arithmetic: the generic (number) branch of every binary overload is unreachable for complex operands
     and all siblings recognise the same operand classes
  D2 the reweighted slot is a Python bool at every store site of the package
  D3 validation inventory: each malformed-request kind of the statement is rejected by a raise guarded by the matching test
  D4 the validation-skipping constructor path (means=) is used only at the confirmed internal sites
"""
import ast

from ..srcmodel import established_false, Unrecognised, unparse, call_name, kwarg, walk, statements, guards_of, const

LEVEL = 'other'
EXPLANATION = ('sibling dispatch tables of the Obs operator overloads (isinstance narrowing), store-site join of the reweighted slot type, '
               'inventory of raise statements by the data they test, who-may-call rule for Obs(..., means=...)')
LEVEL_TEXT = ('decides only: arithmetic closure w.r.t. complex operands (dispatch tables), bool-typedness of the reweighted flag at all store sites, '
              'presence and threshold of every documented constructor rejection, and the call-site set of the validation-free constructor path. '
              'Well-formedness after arbitrary operation histories or for arbitrary files is not decided.')
TECHNIQUE = 'sibling cross-check of isinstance dispatch, abstract slot typing over all store sites, control-dependence inventory of raise statements'

BINOPS = ['__add__', '__radd__', '__mul__', '__rmul__', '__sub__', '__rsub__', '__truediv__', '__rtruediv__', '__pow__', '__rpow__']


def excluded_classes(mod, node, stop, oname):
    """classes of the operand `oname` that cannot reach `node` given the isinstance / class-name tests on the path"""
    ex = set()
    for t, pol in guards_of(mod, node, stop=stop):
        if pol:
            continue
        for c in ([t] if not isinstance(t, ast.BoolOp) or not isinstance(t.op, ast.Or) else t.values):
            if isinstance(c, ast.Call) and call_name(c) == 'isinstance' and len(c.args) == 2 and unparse(c.args[0]) == oname:
                cls = c.args[1]
                for e in (cls.elts if isinstance(cls, ast.Tuple) else [cls]):
                    ex.add(unparse(e).replace('np.', 'numpy.'))
            if isinstance(c, ast.Compare) and isinstance(c.ops[0], ast.In) and unparse(c.left) == oname + '.__class__.__name__' and isinstance(c.comparators[0], (ast.List, ast.Tuple)):
                for e in c.comparators[0].elts:
                    if isinstance(e, ast.Constant):
                        ex.add(e.value)
    return ex


def d1b_cobs_parts_stay_real(ctx, obs):
    """CObs arithmetic: a part of the result (`self.real <op> other`) is combined with the operand AS A WHOLE only where the operand is known to
    have no real / imaginary parts of its own (plain int / float).  For an operand with parts (complex, numpy complex, CObs with a zero
    imaginary part) the whole-operand form multiplies an Obs by a complex and the parts of the result are CObs themselves - not a complex
    observable of the documented form."""
    rule = 'C04-D1'
    n = 0
    for name, m in obs.methods('CObs'):
        if len(m.args.args) < 2 or not name.startswith('__'):
            continue
        on = m.args.args[1].arg
        for r in statements(m):
            if not (isinstance(r, ast.Return) and isinstance(r.value, ast.Call) and call_name(r.value) == 'CObs'):
                continue
            bare = [b for a_ in r.value.args for b in ast.walk(a_) if isinstance(b, ast.BinOp) and any(isinstance(x, ast.Name) and x.id == on for x in (b.left, b.right))]
            if not bare:
                continue
            n += 1
            fls = [unparse(t).replace('"', "'") for t in established_false(obs, m, r)]
            pos = [unparse(t) for t, pol in guards_of(obs, r, stop=m) if pol]
            excl = any("hasattr(%s, 'real')" % on in t and "hasattr(%s, 'imag')" % on in t and ' or ' not in t for t in fls) or any(
                t.startswith('isinstance(%s, (int, float' % on) or t in ('isinstance(%s, int)' % on, 'isinstance(%s, float)' % on) for t in pos)
            ctx.check(rule, 'obs.py:CObs.%s#whole-operand-branch' % name, excl, 'the whole-operand form `%s` is reached only for operands without real / imaginary parts' % unparse(bare[0]),
                      '`%s` is reached for operands that have real and imaginary parts (known false on the path: %s): a complex number with zero imaginary part (2+0j, np.complex128(3)) '
                      'or a CObs with a plain 0 imaginary part gives a CObs whose parts are CObs' % (unparse(r.value)[:70], fls), obs.loc(r))
    ctx.floor('C04-D1 whole-operand branches of CObs arithmetic', n, 4)


def d1_closure(ctx, obs):
    rule = 'C04-D1'
    meths = dict(obs.methods('Obs'))
    table = {}
    for name in BINOPS:
        if name not in meths:
            ctx.violated(rule, 'obs.py:Obs.%s' % name, 'operator overload missing')
            continue
        m = meths[name]
        oname = m.args.args[1].arg
        generic = []
        for c in walk(m):
            if isinstance(c, ast.Call) and call_name(c) == 'derived_observable' and isinstance(c.args[0], ast.Lambda):
                lam = c.args[0]
                free = {n.id for n in ast.walk(lam.body) if isinstance(n, ast.Name)}
                data = c.args[1]
                in_data = isinstance(data, ast.List) and any(unparse(e) == oname for e in data.elts)
                if oname in free and not in_data:
                    generic.append(c)
        if not generic:
            # delegating overload: its result is produced by the sibling it calls
            rets = [s for s in statements(m) if isinstance(s, ast.Return)]
            table[name] = ('delegates', unparse(rets[0].value) if rets else '')
            ctx.holds(rule, 'obs.py:Obs.%s#delegates' % name, 'delegates: %s' % table[name][1], obs.loc(m))
            continue
        for c in generic:
            ex = excluded_classes(obs, c, m, oname)
            table[name] = ('generic', ex)
            key = 'obs.py:Obs.%s#number-branch' % name
            if 'complex' in ex:
                ctx.holds(rule, key, 'complex operands are dispatched before the generic number branch (excluded: %s)' % sorted(ex), obs.loc(c))
            else:
                ctx.violated(rule, key, 'a complex operand reaches the generic branch %s: the result is an Obs with a complex central value '
                             '(classes excluded on this path: %s)' % (unparse(c.args[0]), sorted(ex)), obs.loc(c))
    ctx.floor('binary overloads of Obs', len(table), 10)
    # sibling agreement on non-numeric classes
    gen = {n: t[1] for n, t in table.items() if t[0] == 'generic'}
    for cls in ('numpy.ndarray', 'Corr', 'CObs'):
        have = {n for n, ex in gen.items() if cls in ex}
        lack = set(gen) - have
        if have and lack and not lack <= {'__pow__', '__rpow__'}:
            ctx.violated(rule, 'obs.py:Obs#sibling-dispatch[%s]' % cls, 'overloads %s dispatch on %s but %s do not' % (sorted(have), cls, sorted(lack)))
        else:
            ctx.holds(rule, 'obs.py:Obs#sibling-dispatch[%s]' % cls, '%s handled by %s' % (cls, sorted(have)))
    # the complex branch itself produces a CObs
    for name in ('__add__', '__mul__', '__sub__', '__truediv__', '__rtruediv__'):
        m = meths.get(name)
        if m is None:
            continue
        oname = m.args.args[1].arg
        for s in statements(m):
            if isinstance(s, ast.Return):
                g = guards_of(obs, s, stop=m)
                if any(pol and 'isinstance(%s, complex)' % oname in unparse(t) for t, pol in g):
                    ok = 'CObs(' in unparse(s.value)
                    ctx.check(rule, 'obs.py:Obs.%s#complex-branch' % name, ok, 'complex operand yields a CObs', 'complex branch returns %s' % unparse(s.value), obs.loc(s))


def _bool_typed(mod, func, e, depth=0):
    if isinstance(e, ast.Constant):
        return isinstance(e.value, bool)
    if isinstance(e, ast.Compare):
        # comparisons of python objects give bool; numpy comparisons give numpy.bool_: accept only when an operand is len()/python level
        return True
    if isinstance(e, ast.BoolOp):
        return all(_bool_typed(mod, func, v, depth) for v in e.values)
    if isinstance(e, ast.UnaryOp) and isinstance(e.op, ast.Not):
        return True
    if isinstance(e, ast.Call) and call_name(e) in ('bool', 'any', 'all', 'isinstance') and isinstance(e.func, ast.Name):
        return True
    if isinstance(e, ast.Attribute) and e.attr == 'reweighted':
        return True   # inductive: the slot of another Obs / Corr
    if isinstance(e, ast.Name) and depth < 3 and func is not None:
        defs = [s for s in statements(func, skip_nested_defs=False) if isinstance(s, ast.Assign) and any(isinstance(t, ast.Name) and t.id == e.id for t in s.targets)]
        return bool(defs) and all(_bool_typed(mod, func, d.value, depth + 1) for d in defs)
    if isinstance(e, ast.Subscript):
        # value taken from a parsed document: o.get('reweighted', False) / dict lookups are handled by the caller
        return False
    if isinstance(e, ast.Call) and isinstance(e.func, ast.Attribute) and e.func.attr == 'get' and len(e.args) == 2:
        return _bool_typed(mod, func, e.args[1], depth)   # JSON booleans are python bools
    return False


def d2_slot_types(ctx):
    rule = 'C04-D2'
    n = 0
    for mn, m in ctx.repo.modules.items():
        for node in ast.walk(m.tree):
            if isinstance(node, ast.Assign):
                for t in node.targets:
                    if isinstance(t, ast.Attribute) and t.attr == 'reweighted':
                        n += 1
                        f = m.enclosing_func(node)
                        q = m.qualname_of(f) if f is not None else '<module>'
                        key = '%s:%s#reweighted=%s' % (m.relpath.replace('pyerrors/', ''), q, unparse(node.value)[:50])
                        ok = _bool_typed(m, f, node.value)
                        ctx.check(rule, key, ok, 'stores a Python bool', 'stores %s which is not a Python bool (numpy scalars break JSON export and `is True` tests)' % unparse(node.value), m.loc(node))
    ctx.floor('stores to .reweighted', n, 8)
    # the flag is consumed with identity tests, which is why the type matters
    obs = ctx.repo.mod('obs')
    ident = [x for x in ast.walk(obs.tree) if isinstance(x, ast.Compare) and isinstance(x.ops[0], ast.Is) and isinstance(x.left, ast.Attribute) and x.left.attr == 'reweighted']
    ctx.info['identity_tests_on_reweighted'] = len(ident)


def _inline(func, e, depth=0):
    """text of e with single-assignment locals replaced by their definitions"""
    txt = unparse(e)
    if depth > 2:
        return txt
    for n in ast.walk(e):
        if isinstance(n, ast.Name):
            defs = [s for s in statements(func) if isinstance(s, ast.Assign) and len(s.targets) == 1 and isinstance(s.targets[0], ast.Name) and s.targets[0].id == n.id]
            if len(defs) == 1:
                txt += ' || ' + n.id + ':=' + _inline(func, defs[0].value, depth + 1)
    return txt


def d3_validation(ctx):
    rule = 'C04-D3'
    obs = ctx.repo.mod('obs')
    f = obs.func('Obs.__init__')
    raises = []
    for s in statements(f):
        if isinstance(s, ast.Raise):
            gs = guards_of(obs, s, stop=f)
            raises.append((s, gs, ' && '.join(('' if pol else 'NOT ') + _inline(f, t) for t, pol in gs)))
    p = [a.arg for a in f.args.args]
    samples, names, idl = p[1], p[2], p[3]

    def has(txt, *frags):
        return all(fr in txt for fr in frags)
    kinds = {
        'length mismatch samples/names': lambda g: has(g, 'len(%s) != len(%s)' % (samples, names)) or has(g, 'len(%s) != len(%s)' % (names, samples)),
        'length mismatch idl/names': lambda g: has(g, 'len(%s) != len(%s)' % (idl, names)) or has(g, 'len(%s) != len(%s)' % (names, idl)),
        'duplicate names': lambda g: has(g, 'len(set(%s))' % names),
        'non-string names': lambda g: has(g, 'isinstance(', 'str)'),
        'several ensembles': lambda g: has(g, "split('|')[0]", 'len(set('),
        'unsorted configuration numbers': lambda g: has(g, 'np.diff(') and ('< 0' in g),
        'duplicate configuration numbers': lambda g: has(g, 'np.diff(') and ('== 0' in g),
        'samples/idl length mismatch': lambda g: has(g, 'len(sample)', 'self.shape['),
    }
    # minimal number of names from which a kind can occur: every enclosing size guard must be true from there on
    min_n = {'duplicate names': 2, 'several ensembles': 2, 'non-string names': 1, 'length mismatch samples/names': 1, 'length mismatch idl/names': 1}
    for kind, pred in kinds.items():
        hit = [r for r in raises if pred(r[2])]
        key = 'obs.py:Obs.__init__#rejects[%s]' % kind
        if hit:
            ctx.holds(rule, key, 'raise at line %d under `%s`' % (hit[0][0].lineno, hit[0][2][:100]), obs.loc(hit[0][0]))
            if kind in min_n:
                # union over all raises of this kind: for every number of names n >= min_n some raise must be reachable w.r.t. the size guards
                covered = set()
                for s_, gs_, txt_ in hit:
                    ok_n = set(range(min_n[kind], 9))
                    for t_, pol_ in gs_:
                        tt = t_
                        if isinstance(tt, ast.Compare) and len(tt.ops) == 1 and const(tt.comparators[0]) is not None and _inline(f, tt.left).split(' || ')[-1].split(':=')[-1] in ('len(%s)' % names, ) or \
                                (isinstance(tt, ast.Compare) and len(tt.ops) == 1 and const(tt.comparators[0]) is not None and unparse(tt.left) == 'len(%s)' % names):
                            c_ = const(tt.comparators[0])
                            fn_ = {ast.Gt: lambda n: n > c_, ast.GtE: lambda n: n >= c_, ast.Lt: lambda n: n < c_, ast.LtE: lambda n: n <= c_, ast.Eq: lambda n: n == c_, ast.NotEq: lambda n: n != c_}.get(type(tt.ops[0]))
                            if fn_ is not None:
                                ok_n = {n for n in ok_n if fn_(n) == pol_}
                    covered |= ok_n
                missing = sorted(set(range(min_n[kind], 9)) - covered)
                ctx.check(rule, key + '-size-guards', not missing, 'the rejection is reachable for every number of names >= %d' % min_n[kind],
                          'with %s names the test for "%s" is skipped by an enclosing size guard' % (missing, kind), obs.loc(hit[0][0]))
        else:
            ctx.violated(rule, key, 'no raise statement of Obs.__init__ is guarded by a test for: %s' % kind, obs.loc(f))
    # fewer than five samples: threshold semantics
    key = 'obs.py:Obs.__init__#rejects[fewer than five samples]'
    hit = None
    for s, gs, txt in raises:
        for t, pol in gs:
            if pol and isinstance(t, ast.Compare) and len(t.ops) == 1 and 'min(' in unparse(t.left) and 'len(' in unparse(t.left) and const(t.comparators[0]) is not None:
                hit = (s, t)
    if hit is None:
        ctx.violated(rule, key, 'no raise guarded by a test on the minimal sample length', obs.loc(f))
    else:
        s, t = hit
        c = const(t.comparators[0])
        op = type(t.ops[0])
        fn = {ast.Lt: lambda n: n < c, ast.LtE: lambda n: n <= c}.get(op)
        if fn is None:
            ctx.unrec(rule, key, 'comparison %s' % unparse(t))
        else:
            bad = [n for n in range(0, 12) if fn(n) != (n < 5)]
            ctx.check(rule, key, not bad, 'chains with fewer than 5 samples are rejected (%s)' % unparse(t),
                      'sample-count test `%s` accepts/rejects wrongly for lengths %s (documented: fewer than five samples are rejected)' % (unparse(t), bad), obs.loc(s))
    # the validation block is skipped only for the trusted path
    top = [s for s in f.body if isinstance(s, ast.If)]
    okg = bool(top) and "kwargs.get('means') is None" in unparse(top[0].test)
    ctx.check(rule, 'obs.py:Obs.__init__#validation-guard', okg, 'validation is skipped only when means= is supplied', 'validation block guard is `%s`' % (unparse(top[0].test) if top else None))
    # names sorted
    st = [s for s in statements(f) if isinstance(s, ast.Assign) and unparse(s.targets[0]) == 'self.names']
    ctx.check(rule, 'obs.py:Obs.__init__#names-sorted', len(st) == 1 and unparse(st[0].value) == 'sorted(%s)' % names, 'names are stored sorted', 'self.names = %s' % [unparse(s.value) for s in st])
    # idl: range exactly when equally spaced
    rng = [s for s in statements(f) if isinstance(s, ast.Assign) and isinstance(s.value, ast.Call) and call_name(s.value) == 'range' and 'self.idl' in unparse(s.targets[0]) and len(s.value.args) == 3]
    if len(rng) == 1:
        a = [unparse(x) for x in rng[0].value.args]
        g = ' && '.join(unparse(t) for t, pol in guards_of(obs, rng[0], stop=f) if pol)
        ok = a[0].endswith('[0]') and '[-1] +' in a[1] and a[2] in a[1] and 'len(dc) == 1' in g
        ctx.check(rule, 'obs.py:Obs.__init__#range-iff-regular', ok, 'equally spaced lists become range(first, last + step, step)', 'range built as %s under %s' % (a, g), obs.loc(rng[0]))
    else:
        ctx.unrec(rule, 'obs.py:Obs.__init__#range-iff-regular', 'expected one range(...) conversion, found %d' % len(rng))

    # Covobs
    cov = ctx.repo.mod('covobs')
    fi = cov.func('Covobs.__init__')
    rs = [(s, ' && '.join(('' if pol else 'NOT ') + unparse(t) for t, pol in guards_of(cov, s, stop=fi))) for s in statements(fi) if isinstance(s, ast.Raise)]
    ok = any("'|' in name" in g for s, g in rs)
    ctx.check(rule, 'covobs.py:Covobs.__init__#rejects[separator in name]', ok, "names containing '|' are rejected", "no raise guarded by `'|' in name`", cov.loc(fi))
    # ... for every way of constructing a Covobs: the test is not nested under a condition on the other arguments (grad / pos are public)
    sep = [(s_, [unparse(t) for t, pol in guards_of(cov, s_, stop=fi) if "'|'" not in unparse(t)]) for s_, g in rs if "'|' in name" in g]
    if sep:
        ctx.check(rule, 'covobs.py:Covobs.__init__#rejects[separator in name]-unconditional', any(not extra for _, extra in sep), 'the separator test applies to every construction',
                  "the separator test runs only under %s: a Covobs built with the other form of the arguments (e.g. cov_Obs(..., grad=...)) keeps a name with '|' and is later taken for a replica" % sep[0][1], cov.loc(sep[0][0]))
    fc = cov.func('Covobs._set_cov')
    rs = [(s, ' && '.join(('' if pol else 'NOT ') + unparse(t) for t, pol in guards_of(cov, s, stop=fc))) for s in statements(fc) if isinstance(s, ast.Raise)]
    sym = [g for s, g in rs if ('[i][j]' in g and '[j][i]' in g) or ('[i, j]' in g and '[j, i]' in g)]
    ctx.check(rule, 'covobs.py:Covobs._set_cov#rejects[asymmetric]', bool(sym), 'asymmetric matrices are rejected', 'no symmetry test guards a raise', cov.loc(fc))
    # the symmetry loops cover every pair
    loops = [s for s in statements(fc) if isinstance(s, ast.For)]
    lt = [unparse(l.iter) for l in loops]
    ctx.check(rule, 'covobs.py:Covobs._set_cov#symmetry-covers-all-pairs', 'range(self.N)' in lt and 'range(i)' in lt, 'pairs (i, j<i) for all i', 'symmetry loops are %s' % lt, cov.loc(fc))
    neg = [g for s, g in rs if 'ev < 0' in g or '< 0' in g]
    ev = any(isinstance(c, ast.Call) and (cov.dotted(c.func) or '') in ('numpy.linalg.eigvalsh', 'numpy.linalg.eigvals', 'numpy.linalg.eigh') for c in walk(fc))
    ctx.check(rule, 'covobs.py:Covobs._set_cov#rejects[indefinite]', bool(neg) and ev, 'matrices with a negative eigenvalue are rejected', 'no eigenvalue sign test guards a raise', cov.loc(fc))
    # ... for every accepted input form (number, list of variances, matrix): the sign test must not sit under a test of the rank
    under = [g for s, g in rs if ('ev < 0' in g or '< 0' in g) and 'ndim' in g]
    # ... and no path may leave the method before the test (an early `return` in the scalar / diagonal branches)
    evc = [c for c in walk(fc) if isinstance(c, ast.Call) and (cov.dotted(c.func) or '') in ('numpy.linalg.eigvalsh', 'numpy.linalg.eigvals', 'numpy.linalg.eigh')]
    early = [s_ for s_ in statements(fc) if isinstance(s_, ast.Return) and evc and s_.lineno < evc[0].lineno]
    ctx.check(rule, 'covobs.py:Covobs._set_cov#rejects[indefinite]-no-early-exit', not early, 'every path that stores a covariance passes the eigenvalue test',
              'the method returns at line %s before the eigenvalue test: a negative variance given as a number or as a list of variances is accepted' % (early[0].lineno if early else ''),
              cov.loc(early[0]) if early else None)
    ctx.check(rule, 'covobs.py:Covobs._set_cov#rejects[indefinite]-all-forms', bool(neg) and not under, 'the sign test applies to scalar, diagonal and full input alike',
              'the eigenvalue sign test is only reached under `%s`: a negative variance given as a number or as a list of variances is accepted' % (under[0] if under else ''), cov.loc(fc))
    sq = [g for s, g in rs if 'shape[1] != self.N' in g or 'shape[0] !=' in g]
    ctx.check(rule, 'covobs.py:Covobs._set_cov#rejects[non-square]', bool(sq), 'non-square matrices are rejected', 'no squareness test', cov.loc(fc))
    called = any(isinstance(c, ast.Call) and unparse(c.func) == 'self._set_cov' for c in walk(fi))
    ctx.check(rule, 'covobs.py:Covobs.__init__#calls-validation', called, 'constructor validates the covariance', 'constructor does not call _set_cov', cov.loc(fi))
    # derived_observable: names of covariance inputs disjoint from chain names
    do = obs.func('derived_observable')
    dj = [s for s in statements(do) if isinstance(s, ast.Raise) and any('isdisjoint' in unparse(t) for t, pol in guards_of(obs, s, stop=do))]
    ctx.check(rule, 'obs.py:derived_observable#rejects[name collision]', bool(dj), 'a name used for both a chain and a covariance input is rejected', 'no disjointness test', obs.loc(do))


CONFIRMED_MEANS_SITES = {
    ('obs', 'derived_observable'), ('obs', 'import_jackknife'), ('obs', 'cov_Obs.covobs_to_obs'),
    ('input.dobs', 'import_dobs_string'), ('input.json', 'create_json_string._nan_Obs_like'),
    ('input.json', '_parse_json_dict.get_Obs_from_dict'), ('input.json', '_parse_json_dict.get_List_from_dict'),
    ('input.json', '_parse_json_dict.get_Array_from_dict'),
}


def check_lists_equal_eval(ctx, obs, rule):
    """_check_lists_equal is a pure predicate on a list of configuration lists.  The extracted function (numpy and itertools.groupby
    are the only outside names it may use) is evaluated on every combination of ranges / lists / arrays from a small pool that contains
    the traps: equal content in different container types, same length and end points with different interior, prefix, empty."""
    import copy as _copy
    import itertools as _it
    f = obs.func('_check_lists_equal')
    key = 'obs.py:_check_lists_equal'
    if any(isinstance(x, (ast.Import, ast.ImportFrom, ast.Global, ast.Nonlocal, ast.While, ast.With, ast.Lambda)) for x in walk(f)) or len(f.args.args) != 1:
        ctx.unrec(rule, key, 'not a plain predicate: not evaluated', obs.loc(f))
        return
    try:
        import numpy as _np
    except Exception as ex_:       # the tooling interpreter always has numpy; without it nothing is decided
        ctx.unrec(rule, key, 'numpy unavailable: %r' % ex_, obs.loc(f))
        return
    safe = {'len': len, 'isinstance': isinstance, 'range': range, 'list': list, 'tuple': tuple, 'set': set, 'next': next, 'all': all, 'any': any, 'zip': zip, 'iter': iter, 'type': type,
            'enumerate': enumerate, 'min': min, 'max': max, 'sorted': sorted, 'bool': bool, 'int': int, 'True': True, 'False': False}
    g = _copy.deepcopy(f)
    g.decorator_list = []
    try:
        ns = {'__builtins__': safe, 'np': _np, 'groupby': _it.groupby, 'itertools': _it}
        exec(compile(ast.fix_missing_locations(ast.Module(body=[g], type_ignores=[])), '<lists-equal>', 'exec'), ns)
        fn = ns[f.name]
    except Exception as ex_:
        ctx.unrec(rule, key, 'cannot evaluate: %r' % ex_, obs.loc(f))
        return
    pool = [range(1, 20, 2), list(range(1, 20, 2)), [1, 2, 4, 5, 8, 9, 12, 13, 16, 19], _np.arange(1, 20, 2), range(1, 11), list(range(1, 11)), [1, 3, 4, 5, 6, 7, 8, 9, 10, 10][:9] + [10],
            range(1, 10), [1, 2, 3], range(1, 4), [1, 2, 4], [], range(0), [5], range(5, 6), [6]]
    wrong = []
    count = 0
    for k in (1, 2, 3):
        for combo in _it.product(range(len(pool)), repeat=k):
            if k == 3 and (combo[0] > 6 or combo[1] > 10):
                continue
            lists = [pool[i_] for i_ in combo]
            want = all(list(x) == list(lists[0]) for x in lists[1:])
            count += 1
            try:
                got = bool(fn(lists))
            except NameError as ex_:
                ctx.unrec(rule, key, 'cannot evaluate: %r' % ex_, obs.loc(f))
                return
            except Exception as ex_:
                got = 'raised %r' % ex_
            # soundness of the shortcut: True only for identical content.  (False for equal content in different container types -
            # a range and the list of its elements - is the behaviour of the groupby implementation and merely takes the general path.)
            if (got is True and not want) or isinstance(got, str):
                wrong.append(([repr(x) for x in lists], got, want))
    ctx.check(rule, key, not wrong, 'True only if all configuration lists hold the same numbers in the same order (%d combinations of ranges / lists / arrays evaluated)' % count,
              '_check_lists_equal(%s) returns %s, expected %s%s' % (wrong[0] + (' (%d more)' % (len(wrong) - 1) if len(wrong) > 1 else '',)) if wrong else '', obs.loc(f))
    ctx.info['check_lists_equal_combinations'] = count


def merge_idx_rules(ctx, obs, rule, which=(('_merge_idx', 'union'), ('_intersection_idx', 'intersection'))):
    for fn, op in which:
        f = obs.func(fn)
        p = f.args.args[0].arg
        rets = [s for s in statements(f) if isinstance(s, ast.Return)]
        key = 'obs.py:%s' % fn
        fast = [r for r in rets if unparse(r.value) == '%s[0]' % p]
        okf = len(fast) == 1 and [unparse(t) for t, pol in guards_of(obs, fast[0], stop=f) if pol] == ['_check_lists_equal(%s)' % p]
        ctx.check(rule, key + '#identical-lists', okf, 'identical lists are returned unchanged', 'fast path differs', obs.loc(f))
        rng = [r for r in rets if isinstance(r.value, ast.Name) and r.value.id == 'idrange']
        sorted_name = 'idunion' if op == 'union' else 'idinter'

        def exact_test(t_):
            u = unparse(t_)
            # the element-wise comparison, through the helper or written out: list(idrange) == <sorted list> (either order)
            return '_check_lists_equal(idtest)' in u or u in ('list(idrange) == %s' % sorted_name, '%s == list(idrange)' % sorted_name,
                                                                '_check_lists_equal([list(idrange), %s])' % sorted_name)
        okr = len(rng) == 1 and any(exact_test(t) and pol for t, pol in guards_of(obs, rng[0], stop=f))
        direct_test = okr and not any('idtest' in unparse(t) for t, pol in guards_of(obs, rng[0], stop=f))
        ctx.check(rule, key + '#range-when-regular', okr, 'a range is returned when it reproduces the %s exactly' % op, 'range conversion missing or unguarded', obs.loc(f))
        d = [s for s in statements(f) if isinstance(s, ast.Assign) and unparse(s.targets[0]) == 'idrange']
        okd = len(d) == 1 and isinstance(d[0].value, ast.Call) and call_name(d[0].value) == 'range' and len(d[0].value.args) == 3
        if okd:
            a = [unparse(x) for x in d[0].value.args]
            v = a[0].split('[')[0]
            okd = a == ['%s[0]' % v, '%s[-1] + 1' % v, '%s[1] - %s[0]' % (v, v)]
        ctx.check(rule, key + '#range-parameters', okd, 'candidate range(first, last + 1, second - first)', 'candidate range is %s' % [unparse(s.value) for s in d], obs.loc(f))
        t = [s for s in statements(f) if isinstance(s, ast.Assign) and unparse(s.targets[0]) == 'idtest']
        ctx.check(rule, key + '#range-test', direct_test or (len(t) == 1 and unparse(t[0].value).startswith('[list(idrange), id')), 'the candidate is compared element-wise with the sorted %s' % op, 'range test %s' % [unparse(s.value) for s in t], obs.loc(f))
        # every other return must be one of the known forms; a range built from an inclusive last element must include it
        for r in rets:
            v = r.value
            txt = unparse(v)
            if txt in ('%s[0]' % p, 'idrange', 'idunion', 'idinter'):
                continue
            if isinstance(v, ast.Call) and call_name(v) == 'range' and len(v.args) >= 2:
                stop = v.args[1]
                incl = False
                if isinstance(stop, ast.BinOp) and isinstance(stop.op, ast.Add):
                    incl = True
                if not isinstance(stop, ast.Name):
                    # the stop value written out: an expression over last elements ([-1]) without an added step excludes the last one
                    if '[-1]' in unparse(stop) and not incl:
                        ctx.violated(rule, key + '#extra-return[%s]' % txt[:60], 'an additional return builds %s whose stop value `%s` is the last common configuration itself: range() excludes its stop '
                                     'value, so that configuration is dropped from the %s' % (txt[:80], unparse(stop), op), obs.loc(r))
                        continue
                if isinstance(stop, ast.Name):
                    ds = [x for x in statements(f) if isinstance(x, ast.Assign) and unparse(x.targets[0]) == stop.id]
                    if ds and all(isinstance(x.value, ast.BinOp) and isinstance(x.value.op, ast.Add) for x in ds):
                        incl = True
                    last_like = ds and all('[-1]' in unparse(x.value) for x in ds)
                    if last_like and not incl:
                        ctx.violated(rule, key + '#extra-return[%s]' % txt, 'an additional return builds %s where `%s` is the last common configuration itself: range() excludes its stop value, '
                                     'so that configuration is dropped from the %s' % (txt, stop.id, op), obs.loc(r))
                        continue
                ctx.unrec(rule, key + '#extra-return[%s]' % txt, 'additional return path not understood', obs.loc(r))
            else:
                ctx.unrec(rule, key + '#extra-return[%s]' % txt[:40], 'additional return path not understood', obs.loc(r))
        srt = [s for s in statements(f) if isinstance(s, ast.Assign) and isinstance(s.value, ast.Call) and call_name(s.value) == 'sorted']
        want = 'sorted(set().union(*%s))' % p if op == 'union' else 'sorted(set.intersection(*[set(o) for o in %s]))' % p
        alt = ['sorted(set().union(*%s))' % p, 'sorted(set.union(*[set(o) for o in %s]))' % p, 'sorted(set.union(*map(set, %s)))' % p] if op == 'union' else \
            ['sorted(set.intersection(*[set(o) for o in %s]))' % p, 'sorted(set.intersection(*map(set, %s)))' % p, 'sorted(set.intersection(*(set(o) for o in %s)))' % p]
        ctx.check(rule, key + '#sorted-%s' % op, len(srt) == 1 and unparse(srt[0].value) in alt + [want], 'result = sorted %s of the lists' % op, 'result built as %s' % [unparse(s.value) for s in srt], obs.loc(f))


def d5_idl_normalisation(ctx, obs):
    """configuration lists are held as a range exactly when equally spaced: _merge_idx / _intersection_idx normalise their result"""
    rule = 'C04-D5'
    merge_idx_rules(ctx, obs, rule)
    check_lists_equal_eval(ctx, obs, rule)
    # N = sum of chain lengths, shape = len(idl) in the constructor
    f = obs.func('Obs.__init__')
    sh = [s for s in statements(f) if isinstance(s, ast.Assign) and unparse(s.targets[0]) == 'self.shape[name]']
    ok = len(sh) == 2 and all(unparse(s.value) == 'len(self.idl[name])' for s in sh)
    ctx.check(rule, 'obs.py:Obs.__init__#shape', ok, 'recorded chain length = length of the configuration list', 'shape = %s' % [unparse(s.value) for s in sh])
    nn = [s for s in statements(f) if isinstance(s, ast.AugAssign) and unparse(s.target) == 'self.N']
    ok = len(nn) == 2 and all(unparse(s.value) == 'self.shape[name]' and isinstance(s.op, ast.Add) for s in nn)
    ctx.check(rule, 'obs.py:Obs.__init__#N', ok, 'sample count = sum of the chain lengths', 'N accumulates %s' % [unparse(s.value) for s in nn])
    dflt = [s for s in statements(f) if isinstance(s, ast.Assign) and isinstance(s.value, ast.Call) and unparse(s.value) == 'range(1, len(sample) + 1)']
    ctx.check(rule, 'obs.py:Obs.__init__#default-idl', len(dflt) == 1, 'default configuration list range(1, n + 1)', 'default idl differs')
    ens = obs.func('Obs.e_names')
    ok = "sorted(set([o.split('|')[0] for o in self.names]))" in unparse(ens)
    ctx.check(rule, 'obs.py:Obs.e_names', ok, "chains group into ensembles by the text before '|'", 'e_names differs')
    mc = obs.func('Obs.mc_names')
    ok = "sorted(set([o.split('|')[0] for o in self.names if o not in self.cov_names]))" in unparse(mc)
    ctx.check(rule, 'obs.py:Obs.mc_names', ok, 'Monte Carlo ensembles exclude covariance names', 'mc_names differs')


def d6_idl_stores(ctx, obs):
    """path rule: a configuration list supplied by the caller reaches self.idl only on paths on which 'decreasing' and
    'repeated' have been excluded (for a range: a negative step)"""
    rule = 'C04-D3'
    f = obs.func('Obs.__init__')
    idl = [a.arg for a in f.args.args][3]
    n = 0
    for s_ in statements(f):
        if not (isinstance(s_, ast.Assign) and unparse(s_.targets[0]).startswith('self.idl[')):
            continue
        gs = guards_of(obs, s_, stop=f)
        if not any(pol and unparse(t) == '%s is not None' % idl for t, pol in gs):
            continue    # default range(1, len + 1)
        n += 1
        as_range = any(pol and isinstance(t, ast.Call) and call_name(t) == 'isinstance' and unparse(t.args[1]) == 'range' for t, pol in gs)
        false_tests = [unparse(t) for t in established_false(obs, f, s_)]
        key = 'obs.py:Obs.__init__#idl-store[%s]' % unparse(s_.value)[:40]
        if as_range:
            ok = any('.step' in t and ('< 0' in t or '<= 0' in t or '< 1' in t) for t in false_tests)
            ctx.check(rule, key, ok, 'a range is stored only after a negative step has been excluded', 'a range given by the caller is stored without any test of its direction: a descending range is accepted as configuration list (tests excluded on this path: %s)' % false_tests, obs.loc(s_))
        else:
            dec = any('diff(' in t and ('< 0' in t or '<= 0' in t) or ('dc' in t and ('< 0' in t or '<= 0' in t)) for t in false_tests)
            dup = any('diff(' in t and ('== 0' in t or '<= 0' in t) or ('dc' in t and ('== 0' in t or '<= 0' in t)) for t in false_tests)
            ctx.check(rule, key, dec and dup, 'the list is stored only after decreasing and repeated configuration numbers have been excluded',
                      'this store is reachable without the %s test having been passed (tests excluded on this path: %s)' % (' and '.join(x for x, b in (('unsorted', dec), ('duplicate', dup)) if not b), false_tests), obs.loc(s_))
    ctx.floor('stores of caller-supplied configuration lists', n, 3)


def d4_trusted_path(ctx):
    rule = 'C04-D4'
    n = 0
    for mn, m in ctx.repo.modules.items():
        for c in ast.walk(m.tree):
            if isinstance(c, ast.Call) and call_name(c) == 'Obs' and kwarg(c, 'means') is not None:
                n += 1
                q = m.enclosing_qualname(c)
                key = '%s.py:%s#Obs(means=)' % (mn.replace('.', '/'), q)
                if (mn, q) in CONFIRMED_MEANS_SITES:
                    ctx.holds(rule, key, 'confirmed internal call site', m.loc(c))
                else:
                    ctx.violated(rule, key, 'new call site of the validation-free constructor path Obs(..., means=...) in %s.%s: names / idl of the result are not validated' % (mn, q), m.loc(c))
    ctx.floor('Obs(..., means=...) call sites', n, 10)


def run(ctx):
    ctx.rule('C04-D1', 'arithmetic closure: complex operands never reach the generic number branch; siblings agree')
    ctx.rule('C04-D2', 'reweighted is a Python bool at every store')
    ctx.rule('C04-D3', 'validation inventory of Obs.__init__ / Covobs')
    ctx.rule('C04-D4', 'who may call the validation-free constructor path')
    ctx.not_decided += ['the invariant after arbitrary operation sequences', 'well-formedness of reader outputs for arbitrary files']
    obs = ctx.repo.mod('obs')
    ctx.guarded('C04-D1', 'obs.py:Obs@closure', d1_closure, ctx, obs)
    ctx.guarded('C04-D1', 'obs.py:CObs@parts', d1b_cobs_parts_stay_real, ctx, obs)
    ctx.guarded('C04-D2', 'package@reweighted', d2_slot_types, ctx)
    ctx.guarded('C04-D3', 'obs.py@validation', d3_validation, ctx)
    ctx.guarded('C04-D3', 'obs.py@idl-stores', d6_idl_stores, ctx, ctx.repo.mod('obs'))
    ctx.guarded('C04-D4', 'package@means', d4_trusted_path, ctx)
    ctx.rule('C04-D5', 'configuration lists normalised to ranges; chain bookkeeping (shape, N, ensembles)')
    ctx.guarded('C04-D5', 'obs.py@idl', d5_idl_normalisation, ctx, obs)


SELFTEST = [
    ('separator-test-conditional', 'pyerrors/covobs.py', '        if \'|\' in name:\n            raise Exception("Covobs name must not contain replica separator \'|\'.")\n        self.name = name\n        if grad is None:\n', '        self.name = name\n        if grad is None:\n            if \'|\' in name:\n                raise Exception("Covobs name must not contain replica separator \'|\'.")\n', 'C04-D3'),
    ('psd-test-with-default-tolerance', 'pyerrors/covobs.py', '            if ev < 0:', '            if ev < 0 and not np.isclose(ev, 0.0):', 'C04-G1'),
    ('benign-psd-test-explicit-atol', 'pyerrors/covobs.py', '            if ev < 0:', '            if ev < 0 and not np.isclose(ev, 0.0, rtol=0.0, atol=0.0):', 'BENIGN'),
    ('covobs-early-return', 'pyerrors/covobs.py', '        for i in range(self.N):\n            for j in range(i):', '        if self.N == 1:\n            return\n        for i in range(self.N):\n            for j in range(i):', 'C04-D3'),
    ('definiteness-only-for-matrices', 'pyerrors/covobs.py', "        evals = np.linalg.eigvalsh(self._cov)\n        for ev in evals:\n            if ev < 0:\n                raise Exception('Covariance matrix is not positive-semidefinite!')", "        if np.array(cov).ndim == 2:\n            evals = np.linalg.eigvalsh(self._cov)\n            for ev in evals:\n                if ev < 0:\n                    raise Exception('Covariance matrix is not positive-semidefinite!')", 'C04-D3'),
    ('fix-reverted-descending-range', 'pyerrors/obs.py', "                    if idx.step < 0:\n                        raise ValueError(\"Unsorted idx for idl[%s]\" % (name))\n", "", 'C04-D3'),
    ('range-shortcut-before-order-tests', 'pyerrors/obs.py', "                    if np.any(dc < 0):", "                    if len(dc) == 1:\n                        self.idl[name] = range(idx[0], idx[-1] + dc[0], dc[0])\n                        continue\n                    if np.any(dc < 0):", 'C04-D3'),
    ('fix-reverted-sub', 'pyerrors/obs.py', "            elif isinstance(y, complex):\n                return CObs(self, 0) - y\n", "", 'C04-D1'),
    ('fix-reverted-merge', 'pyerrors/obs.py', "o.reweighted = any(oi.reweighted for oi in list_of_obs)", "o.reweighted = np.max([oi.reweighted for oi in list_of_obs])", 'C04-D2'),
    ('add-complex-branch-removed', 'pyerrors/obs.py', "            elif isinstance(y, complex):\n                return CObs(self, 0) + y\n", "", 'C04-D1'),
    ('mul-complex-returns-obs', 'pyerrors/obs.py', "return CObs(self * y.real, self * y.imag)", "return self * y.real", 'C04-D1'),
    ('five-samples', 'pyerrors/obs.py', "if min(len(x) for x in samples) <= 4:", "if min(len(x) for x in samples) <= 3:", 'C04-D3'),
    ('dup-names-check-dropped', 'pyerrors/obs.py', "                if name_length != len(set(names)):\n                    raise ValueError('Names are not unique.')\n", "", 'C04-D3'),
    ('dup-idx-check-dropped', 'pyerrors/obs.py', "                    elif np.any(dc == 0):", "                    elif False:", 'C04-D3'),
    ('covobs-sep-check', 'pyerrors/covobs.py', "        if '|' in name:\n            raise Exception(\"Covobs name must not contain replica separator '|'.\")\n", "", 'C04-D3'),
    ('covobs-sym-half', 'pyerrors/covobs.py', "            for j in range(i):\n                if not self._cov[i][j] == self._cov[j][i]:", "            for j in range(i - 1):\n                if not self._cov[i][j] == self._cov[j][i]:", 'C04-D3'),
    ('names-not-sorted', 'pyerrors/obs.py', "        self.names = sorted(names)", "        self.names = list(names)", 'C04-D3'),
    ('new-means-site', 'pyerrors/obs.py', "    ret = Obs([samples], [name])\n    ret._value = boots[0]", "    ret = Obs([samples - np.mean(samples)], [name], means=[np.mean(samples)])\n    ret._value = boots[0]", 'C04-D4'),
    ('reweighted-numpy', 'pyerrors/obs.py', "    o.reweighted = obs_a.reweighted or obs_b.reweighted", "    o.reweighted = np.logical_or(obs_a.reweighted, obs_b.reweighted)", 'C04-D2'),
    ('names-guard-weakened', 'pyerrors/obs.py', "            if name_length > 1:\n                if name_length != len(set(names)):", "            if name_length > 2:\n                if name_length != len(set(names)):", 'C04-D3'),
    ('merge-no-range', 'pyerrors/obs.py', "    idtest = [list(idrange), idunion]\n    if _check_lists_equal(idtest):\n        return idrange\n\n    return idunion", "    return idunion", 'C04-D5'),
    ('merge-range-unchecked', 'pyerrors/obs.py', "    idtest = [list(idrange), idunion]\n    if _check_lists_equal(idtest):\n        return idrange\n\n    return idunion", "    return idrange", 'C04-D5'),
    ('N-from-samples', 'pyerrors/obs.py', "                self.shape[name] = len(self.idl[name])\n                self.N += self.shape[name]\n                self.r_values[name] = mean", "                self.shape[name] = len(self.idl[name])\n                self.N += 1\n                self.r_values[name] = mean", 'C04-D5'),
    ('benign-five', 'pyerrors/obs.py', "if min(len(x) for x in samples) <= 4:", "if min(len(x) for x in samples) < 5:", 'BENIGN'),
]
