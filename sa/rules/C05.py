"""C05  Reweighting, correlating and merging pair samples by configuration number.

Decides only:
  D1 pairing by configuration number (index-space tags): every element-wise product of per-configuration arrays of two
     observables is between arrays defined on the same configuration list (via _reduce_deltas or a dominating equality guard)
  D2 misaligned requests raise (guard inventory of reweight / correlate / merge_obs / _reduce_deltas)
  D3 the reweighted flag is set on reweighted results and inherited by every function that builds an Obs from other Obs
"""
import ast

from ..srcmodel import Unrecognised, unparse, call_name, kwarg, walk, statements, guards_of, const

LEVEL = 'other'
EXPLANATION = ('index-space tag analysis of reweight / correlate / _covariance_element / qtop_projection, inventory of raise guards for '
               'misaligned requests, store/inheritance analysis of the reweighted flag over all functions that construct an Obs')
LEVEL_TEXT = ('decides only: products of per-configuration arrays of two observables are formed between arrays on the same configuration list '
              '(never by position); the documented misalignment rejections exist; the reweighted flag is set/inherited at every construction site. '
              'The numerical value of <w o>/<w> is not decided.')
TECHNIQUE = 'abstract index-space tags over array expressions + dominating-guard check; control-dependence inventory; store-site analysis'


def _deltas_ref(e):
    """X.deltas[k] -> (X, k)"""
    if isinstance(e, ast.Subscript) and isinstance(e.value, ast.Attribute) and e.value.attr == 'deltas':
        return unparse(e.value.value), unparse(e.slice)
    return None


def _idl_ref(e):
    if isinstance(e, ast.Subscript) and isinstance(e.value, ast.Attribute) and e.value.attr == 'idl':
        return unparse(e.value.value), unparse(e.slice)
    return None


class Tags:
    """tag of an array expression = ('idl', owner, key): the configuration list it is defined on"""

    def __init__(self, ctx, mod, func, rule):
        self.ctx, self.mod, self.f, self.rule = ctx, mod, func, rule
        self.q = mod.qualname_of(func)
        self.env = {}
        self.products = 0
        self.equal_guards = set()   # frozenset({tagA, tagB}) proven equal by a raise-guard

    def key(self, node):
        return '%s:%s#%s' % (self.mod.relpath.replace('pyerrors/', ''), self.q, unparse(node)[:90])

    def collect_guards(self):
        # `if A.idl[k] != B.idl[k]: raise`  inside a loop over all names (or at top level)
        for s in statements(self.f):
            if isinstance(s, ast.If) and any(isinstance(x, ast.Raise) for x in s.body):
                t = s.test
                if isinstance(t, ast.Compare) and len(t.ops) == 1 and isinstance(t.ops[0], ast.NotEq):
                    a, b = _idl_ref(t.left), _idl_ref(t.comparators[0])
                    if a and b:
                        self.equal_guards.add(frozenset({('idl',) + a, ('idl',) + b}))

    def tag(self, e):
        d = _deltas_ref(e)
        if d:
            return ('idl',) + d
        if isinstance(e, ast.Name):
            return self.env.get(e.id)
        if isinstance(e, ast.Subscript) and isinstance(e.value, ast.Name) and not isinstance(e.slice, ast.Slice):
            return self.env.get(unparse(e))  or self.env.get(e.value.id + '[*]')
        if isinstance(e, ast.Subscript) and isinstance(e.slice, ast.Slice):
            t = self.tag(e.value)
            if t is not None:
                self.ctx.violated(self.rule, self.key(e), 'per-configuration array %s (defined on %s) is sliced by position' % (unparse(e.value), (t,)), self.mod.loc(e))
            return None
        if isinstance(e, ast.Call) and call_name(e) == '_reduce_deltas' and len(e.args) == 3:
            src, old, new = e.args
            ts, to = self.tag(src), self.idl_tag(old)
            k = self.key(e)
            if ts is None or to is None:
                self.ctx.unrec(self.rule, k, 'cannot tag arguments of %s' % unparse(e), self.mod.loc(e))
            else:
                self.ctx.check(self.rule, k, ts == to, 'fluctuations %s are reduced from their own configuration list' % unparse(src),
                               'fluctuations %s live on %s but are reduced as if defined on %s' % (unparse(src), ts, to), self.mod.loc(e))
            return self.idl_tag(new)
        if isinstance(e, ast.BinOp):
            a, b = self.tag(e.left), self.tag(e.right)
            if a is not None and b is not None:
                self.products += 1
                k = self.key(e)
                same = a == b or frozenset({a, b}) in self.equal_guards
                self.ctx.check(self.rule, k, same,
                               'element-wise %s of arrays on the same configuration list %s' % (type(e.op).__name__, a if a == b else 'guarded equal'),
                               'element-wise %s pairs an array on %s with an array on %s by position; no _reduce_deltas / equality guard aligns them' % (type(e.op).__name__, a, b),
                               self.mod.loc(e))
                return a
            return a if a is not None else b
        if isinstance(e, ast.Call) and (self.mod.dotted(e.func) or '').startswith('numpy.') and e.args:
            ts = [self.tag(a) for a in e.args]
            return ts[0] if call_name(e) in ('array', 'asarray', 'abs', 'sqrt', 'exp', 'log') else None
        return None

    def idl_tag(self, e):
        r = _idl_ref(e)
        if r:
            return ('idl',) + r
        if isinstance(e, ast.Name):
            return ('name', e.id)
        if isinstance(e, ast.Subscript) and isinstance(e.value, ast.Name):
            return ('name', unparse(e))
        return None

    def run(self):
        self.collect_guards()
        for s in statements(self.f):
            if isinstance(s, ast.Assign) and len(s.targets) == 1:
                t = self.tag(s.value)
                tgt = s.targets[0]
                if t is not None and isinstance(tgt, (ast.Name, ast.Subscript)):
                    # a tag that depends on a loop variable is only valid in the iteration that assigned it: a conditional assignment
                    # (or one whose container outlives the loop) lets the value of an earlier iteration be paired with this one
                    loops = []
                    p_ = self.mod.parents.get(s)
                    cond = False
                    while p_ is not None and p_ is not self.f:
                        if isinstance(p_, ast.For):
                            loops.append(p_)
                        if isinstance(p_, ast.If) and not loops:
                            cond = True
                        p_ = self.mod.parents.get(p_)
                    lv = {n.id for l in loops for n in ast.walk(l.target) if isinstance(n, ast.Name)}
                    depends = any(v in repr(t) for v in lv if len(v) >= 1 and ('[%s]' % v) in repr(t))
                    if cond and depends:
                        self.ctx.violated(self.rule, self.key(s.value) + '#stale', 'the aligned array %s is only (re)computed under a condition although its configuration list %s changes with the loop '
                                          'variable: a value computed for another observable can be paired by position' % (unparse(tgt), (t,)), self.mod.loc(s))
                if isinstance(tgt, ast.Name):
                    self.env[tgt.id] = t
                elif isinstance(tgt, ast.Subscript) and isinstance(tgt.value, ast.Name):
                    self.env[unparse(tgt)] = t
            elif isinstance(s, ast.Expr) and isinstance(s.value, ast.Call) and isinstance(s.value.func, ast.Attribute) and s.value.func.attr == 'append' and s.value.args:
                self.tag(s.value.args[0])
            elif isinstance(s, ast.Return) and s.value is not None:
                self.tag(s.value)


def reduce_deltas_rules(ctx, obs, rule):
    """_reduce_deltas selects by configuration number; shared with C06 (the covariance of observables on nested lists goes through it)"""
    # _reduce_deltas: selects by configuration number (intersect1d indices), never a positional slice
    f = obs.func('_reduce_deltas')
    p = [a.arg for a in f.args.args]
    ind = [c for c in walk(f) if isinstance(c, ast.Call) and (obs.dotted(c.func) or '') == 'numpy.intersect1d']
    ok = len(ind) == 1 and [unparse(a) for a in ind[0].args[:2]] == [p[1], p[2]] and kwarg(ind[0], 'return_indices') is not None
    sub = obs.parents.get(ind[0]) if ind else None
    ok = ok and isinstance(sub, ast.Subscript) and const(sub.slice) == 1
    ctx.check(rule, 'obs.py:_reduce_deltas#by-number', bool(ok), 'positions are those of idx_new inside idx_old (intersect1d(...)[1])', 'selection is not intersect1d(idx_old, idx_new, return_indices)[1]')
    rets = [s for s in statements(f) if isinstance(s, ast.Return)]
    fast = [s for s in rets if unparse(s.value) == p[0]]
    for s in fast:
        g = ' && '.join(unparse(t) for t, pol in guards_of(obs, s, stop=f) if pol)
        ok = False
        for t, pol in guards_of(obs, s, stop=f):
            if not pol:
                continue
            for c in ast.walk(t):
                if isinstance(c, ast.Compare) and len(c.ops) == 1 and isinstance(c.ops[0], ast.Eq) and {unparse(c.left), unparse(c.comparators[0])} == {p[1], p[2]}:
                    ok = True
                if isinstance(c, ast.Call) and call_name(c) == '_check_lists_equal' and unparse(c.args[0]) in ('[%s, %s]' % (p[1], p[2]), '[%s, %s]' % (p[2], p[1])):
                    ok = True
        ctx.check(rule, 'obs.py:_reduce_deltas#fast-path[%s]' % g[:40], ok, 'unchanged fluctuations are returned only for identical lists', 'fast path guarded by `%s`' % g, obs.loc(s))

    # every other return of _reduce_deltas: either the by-number selection, or a strided slice deltas[a::b][:n] on a path where both
    # lists are ranges - then position a + j*b of the old list must be configuration idx_new.start + j*idx_new.step:
    #     a * idx_old.step == idx_new.start - idx_old.start      and      b * idx_old.step == idx_new.step
    import sympy as sp_
    so, sn, o0, n0 = sp_.symbols('step_old step_new start_old start_new', integer=True, positive=True)
    for s in rets:
        if s in fast:
            continue
        v = s.value
        txt = unparse(v)
        key = 'obs.py:_reduce_deltas#return[%s]' % txt[:50]
        if ind and any(x is ind[0] for x in ast.walk(v)) or (isinstance(v, ast.Subscript) and unparse(v.slice) == 'indices'):
            ctx.holds(rule, key, 'selection by the positions found by configuration number', obs.loc(s))
            continue
        # find a strided slice of the fluctuations
        sl = [x for x in ast.walk(v) if isinstance(x, ast.Subscript) and isinstance(x.slice, ast.Slice) and x.slice.step is not None and any(isinstance(y, ast.Name) and y.id == p[0] for y in ast.walk(x.value))]
        gtxt = ' && '.join(unparse(t) for t, pol in guards_of(obs, s, stop=f) if pol)
        if len(sl) != 1 or 'is range' not in gtxt:
            ctx.unrec(rule, key, 'additional return path of _reduce_deltas not understood', obs.loc(s))
            continue
        single = {}
        for d_ in statements(f):
            if isinstance(d_, ast.Assign) and len(d_.targets) == 1 and isinstance(d_.targets[0], ast.Name):
                single.setdefault(d_.targets[0].id, []).append(d_.value)

        def tr(e):
            if isinstance(e, ast.Constant) and isinstance(e.value, int):
                return sp_.Integer(e.value)
            if isinstance(e, ast.Name) and e.id in single and len(single[e.id]) == 1:
                return tr(single[e.id][0])
            if isinstance(e, ast.Attribute) and isinstance(e.value, ast.Name) and e.value.id in (p[1], p[2]) and e.attr in ('start', 'step'):
                return {(p[1], 'start'): o0, (p[1], 'step'): so, (p[2], 'start'): n0, (p[2], 'step'): sn}[(e.value.id, e.attr)]
            if isinstance(e, ast.Subscript) and isinstance(e.value, ast.Name) and e.value.id in (p[1], p[2]) and const(e.slice) == 0:
                return o0 if e.value.id == p[1] else n0
            if isinstance(e, ast.BinOp) and isinstance(e.op, (ast.Add, ast.Sub, ast.Mult, ast.FloorDiv, ast.Div)):
                a_, b_ = tr(e.left), tr(e.right)
                return {ast.Add: lambda: a_ + b_, ast.Sub: lambda: a_ - b_, ast.Mult: lambda: a_ * b_, ast.FloorDiv: lambda: a_ / b_, ast.Div: lambda: a_ / b_}[type(e.op)]()
            raise Unrecognised('cannot translate %s' % unparse(e))
        try:
            a_ = tr(sl[0].slice.lower) if sl[0].slice.lower is not None else sp_.Integer(0)
            b_ = tr(sl[0].slice.step)
        except Unrecognised as e_:
            ctx.unrec(rule, key, str(e_), obs.loc(s))
            continue
        ok = sp_.simplify(a_ * so - (n0 - o0)) == 0 and sp_.simplify(b_ * so - sn) == 0
        ctx.check(rule, key, ok, 'strided slice starts at (idx_new.start - idx_old.start)/idx_old.step with stride idx_new.step/idx_old.step',
                  'the strided shortcut takes positions %s + j*(%s) of the old list; configuration idx_new.start + j*idx_new.step sits at position (start_new - start_old)/step_old + j*step_new/step_old: '
                  'a difference of configuration numbers is used as an array position' % (a_, b_), obs.loc(s))



def _paired_intersection(mod, outer, call, key, arg):
    """`for key, arg in L:` where L collects the pairs (k, _intersection_idx([A.idl[k], B.idl[k]])) - the intersection travels with its replica name"""
    if not isinstance(arg, ast.Name):
        return False
    loop = mod.parents.get(call)
    while loop is not None and loop is not outer and not (isinstance(loop, ast.For) and isinstance(loop.target, ast.Tuple) and [unparse(e) for e in loop.target.elts] == [key, arg.id]):
        loop = mod.parents.get(loop)
    if loop is None or loop is outer or not isinstance(loop.iter, ast.Name):
        return False
    L = loop.iter.id
    apps = [c for c in walk(outer) if isinstance(c, ast.Call) and isinstance(c.func, ast.Attribute) and c.func.attr == 'append' and unparse(c.func.value) == L]
    stores = [w for w in walk(outer) if isinstance(w, ast.Name) and w.id == L and isinstance(w.ctx, ast.Store)]
    if not apps or len(stores) != 1:
        return False
    for a in apps:
        if not (len(a.args) == 1 and isinstance(a.args[0], ast.Tuple) and len(a.args[0].elts) == 2):
            return False
        k_, v_ = a.args[0].elts
        if isinstance(v_, ast.Name):
            blk_loop = mod.parents.get(a)
            while blk_loop is not None and not isinstance(blk_loop, ast.For):
                blk_loop = mod.parents.get(blk_loop)
            ds = [s_ for s_ in walk(blk_loop if blk_loop is not None else outer) if isinstance(s_, ast.Assign) and len(s_.targets) == 1 and unparse(s_.targets[0]) == v_.id]
            if len(ds) != 1:
                return False
            v_ = ds[0].value
        if not (isinstance(v_, ast.Call) and call_name(v_) == '_intersection_idx' and len(v_.args) == 1 and isinstance(v_.args[0], ast.List) and len(v_.args[0].elts) == 2):
            return False
        refs = [_idl_ref(e) for e in v_.args[0].elts]
        if None in refs or refs[0][1] != unparse(k_) or refs[1][1] != unparse(k_) or refs[0][0] == refs[1][0]:
            return False
    return True


def d1_pairing(ctx):
    rule = 'C05-D1'
    obs = ctx.repo.mod('obs')
    # reweight
    f = obs.func('reweight')
    t = Tags(ctx, obs, f, rule)
    t.run()
    n_prod = t.products
    # the Obs built from the products lives on the observable's own lists
    for c in walk(f):
        if isinstance(c, ast.Call) and call_name(c) == 'Obs' and kwarg(c, 'idl') is None and not any(k.arg is None for k in c.keywords) and len(c.args) < 3:
            ctx.violated(rule, 'obs.py:reweight#Obs-without-idl[%s]' % unparse(c.args[0])[:30] if c.args else 'obs.py:reweight#Obs-without-idl',
                         '`%s` is built without idl: its samples are numbered 1..n by position, not by the configuration numbers of the reweighted observable; the ratio then merges two '
                         'different configuration lists' % unparse(c)[:90], obs.loc(c))
        if isinstance(c, ast.Call) and call_name(c) == 'Obs' and kwarg(c, 'idl') is not None:
            idl = kwarg(c, 'idl')
            ok = isinstance(idl, ast.ListComp) and _idl_ref(idl.elt) is not None and _idl_ref(idl.elt)[0].startswith(f.args.args[1].arg)
            same_order = isinstance(idl, ast.ListComp) and unparse(idl.generators[0].iter) == unparse(c.args[1])
            ctx.check(rule, 'obs.py:reweight#Obs-idl[%s]' % unparse(c.args[0])[:30], ok and same_order,
                      'result is defined on the configurations of the reweighted observable, names and idl in one order',
                      'result built with names %s but idl %s' % (unparse(c.args[1]), unparse(idl)), obs.loc(c))
    # all_configs -> normalisation by the full weight
    st = [s for s in statements(f) if isinstance(s, ast.Assign) and unparse(s.targets[0]) == 'new_weight']
    if len(st) == 2:
        def _pos(tt, pol):
            while isinstance(tt, ast.UnaryOp) and isinstance(tt.op, ast.Not):
                tt, pol = tt.operand, not pol
            return tt, pol
        full = [s for s in st if any(_pos(tt, pol)[1] and unparse(_pos(tt, pol)[0]) in ("kwargs.get('all_configs')", "kwargs.get('all_configs') is True") for tt, pol in guards_of(obs, s, stop=f))]
        ok = len(full) == 1 and unparse(full[0].value) == f.args.args[0].arg
        ctx.check(rule, 'obs.py:reweight#all_configs', ok, 'all_configs normalises by the weight on all its configurations', 'all_configs branch uses %s' % [unparse(s.value) for s in full])
    else:
        ctx.unrec(rule, 'obs.py:reweight#all_configs', 'expected two assignments of the normalising weight')
    # ratio
    rat = [c for c in walk(f) if isinstance(c, ast.BinOp) and isinstance(c.op, ast.Div) and unparse(c.right) == 'new_weight']
    ctx.check(rule, 'obs.py:reweight#ratio', len(rat) == 1 and unparse(rat[0].left) == 'tmp_obs', '<w o>/<w>', 'ratio not found as tmp_obs / new_weight')

    # correlate
    f = obs.func('correlate')
    t = Tags(ctx, obs, f, rule)
    t.run()
    n_prod += t.products
    # the idl equality guard must run over all names before the product loop
    guard_loops = [s for s in f.body if isinstance(s, ast.For) and any(isinstance(x, ast.Raise) for x in walk(s))]
    okl = bool(guard_loops) and all(unparse(g.iter).endswith('.names') for g in guard_loops)
    ctx.check(rule, 'obs.py:correlate#guard-covers-all-chains', okl, 'the equality guard runs over every chain name', 'guard loop iterates %s' % [unparse(g.iter) for g in guard_loops])
    # _covariance_element.calc_gamma
    f = obs.func('_covariance_element.calc_gamma')
    p = [a.arg for a in f.args.args]
    t = Tags(ctx, obs, f, rule)
    # parameters: deltas_i is defined on idx_i
    t.env = {p[0]: ('name', p[2]), p[1]: ('name', p[3])}
    t.run()
    n_prod += t.products
    outer = obs.func('_covariance_element')
    for c in walk(outer):
        if isinstance(c, ast.Call) and isinstance(c.func, ast.Name) and c.func.id == 'calc_gamma' and len(c.args) == 5:
            d1, d2, i1, i2 = _deltas_ref(c.args[0]), _deltas_ref(c.args[1]), _idl_ref(c.args[2]), _idl_ref(c.args[3])
            key = 'obs.py:_covariance_element#%s' % unparse(c)[:70]
            if None in (d1, d2, i1, i2):
                ctx.unrec(rule, key, 'arguments not of the form X.deltas[k], Y.deltas[k], X.idl[k], Y.idl[k]', obs.loc(c))
            else:
                okc = d1 == i1 and d2 == i2 and d1[1] == d2[1] and (unparse(c.args[4]).endswith('[%s]' % d1[1]) or _paired_intersection(obs, outer, c, d1[1], c.args[4]))
                ctx.check(rule, key, okc, 'each fluctuation array is passed with its own configuration list, target = intersection for the same replica',
                          'fluctuations and configuration lists are mismatched in %s' % unparse(c), obs.loc(c))
    # intersection built from both lists of the same replica
    inter = [c for c in walk(outer) if isinstance(c, ast.Call) and call_name(c) == '_intersection_idx']
    for c in inter:
        a = c.args[0]
        ok = isinstance(a, ast.List) and len(a.elts) == 2 and all(_idl_ref(e) for e in a.elts) and _idl_ref(a.elts[0])[1] == _idl_ref(a.elts[1])[1] \
            and _idl_ref(a.elts[0])[0] != _idl_ref(a.elts[1])[0]
        ctx.check(rule, 'obs.py:_covariance_element#intersection', ok, 'common configurations of the same replica of both observables', 'intersection of %s' % unparse(a), obs.loc(c))
    ctx.floor('element-wise products of two tagged arrays', n_prod, 2)     # 3 on the reference tree; a weight computed once is used twice

    reduce_deltas_rules(ctx, obs, rule)

    # qtop_projection: samples, names and idl of one object in one order
    oq = ctx.repo.mod('input.openQCD')
    f = oq.func('qtop_projection')
    q = f.args.args[0].arg
    c = [c for c in walk(f) if isinstance(c, ast.Call) and call_name(c) == 'Obs']
    if len(c) == 1:
        idl = kwarg(c[0], 'idl')
        ok = unparse(c[0].args[1]) == q + '.names' and isinstance(idl, ast.ListComp) and unparse(idl.generators[0].iter) == q + '.names' and _idl_ref(idl.elt) == (q, unparse(idl.generators[0].target))
        loops = [s for s in statements(f) if isinstance(s, ast.For) and unparse(s.iter) in (q + '.deltas', q + '.names', 'sorted(%s.deltas)' % q)]
        ok = ok and len(loops) == 1
        ctx.check(rule, 'input/openQCD.py:qtop_projection#parallel', ok, 'projected samples, names and idl all come from the one input in its (sorted) chain order',
                  'projection pairs %s / %s / %s' % (unparse(c[0].args[0]), unparse(c[0].args[1]), unparse(idl)), oq.loc(c[0]))
    else:
        ctx.unrec(rule, 'input/openQCD.py:qtop_projection#parallel', 'Obs construction not found')
    # Corr.reweight / Corr.correlate delegate timeslice-wise
    cm = ctx.repo.mod('correlators')
    for name, callee in (('reweight', 'reweight'), ('correlate', 'correlate')):
        f = cm.func('Corr.' + name)
        calls = [c for c in walk(f) if isinstance(c, ast.Call) and isinstance(c.func, ast.Name) and c.func.id == callee]
        ctx.check(rule, 'correlators.py:Corr.%s#delegates' % name, len(calls) >= 1, 'delegates to obs.%s per timeslice' % callee, 'no call of obs.%s' % callee)
        if name == 'correlate':
            okx = any('partner.content[x0]' in unparse(c) for c in calls)
            ctx.check(rule, 'correlators.py:Corr.correlate#same-timeslice', okx, 'partner entry of the same timeslice x0', 'partner timeslice differs')


def _raise_guards(mod, f):
    out = []
    for s in statements(f):
        if isinstance(s, ast.Raise):
            out.append((s, ' && '.join(('' if pol else 'NOT ') + unparse(t) for t, pol in guards_of(mod, s, stop=f))))
    return out


def d2_guards(ctx):
    rule = 'C05-D2'
    obs = ctx.repo.mod('obs')
    inv = {
        'reweight': {
            'covariance inputs': lambda g: 'cov_names' in g,
            'chains not contained in the weight': lambda g: 'issubset(weight.names)' in g or ('issubset' in g and '.names' in g),
            'several ensembles': lambda g: 'mc_names' in g and '> 1' in g,
            'configurations the weight lacks': lambda g: 'issubset(weight.idl[name])' in g or ('issubset' in g and '.idl[' in g),
        },
        'correlate': {
            'several ensembles': lambda g: 'mc_names' in g and '> 1' in g,
            'different chains': lambda g: 'sorted(obs_a.names) != sorted(obs_b.names)' in g or ('.names' in g and '!=' in g),
            'covariance inputs': lambda g: 'cov_names' in g,
            'different configuration lists': lambda g: '.idl[name] != ' in g or ('.idl[' in g and '!=' in g),
        },
        'merge_obs': {
            'duplicated replica': lambda g: 'len(set(replist))' in g or ('set(' in g and 'len(' in g),
            'covariance inputs': lambda g: 'cov_names' in g,
        },
        '_reduce_deltas': {
            'length mismatch': lambda g: 'len(deltas) == len(idx_old)' in g or ('len(' in g and 'idx_old' in g),
            'configuration missing': lambda g: 'len(indices) < len(idx_new)' in g or ('len(indices)' in g and 'len(idx_new)' in g),
        },
    }
    n = 0
    for fn, kinds in inv.items():
        f = obs.func(fn)
        rg = _raise_guards(obs, f)
        for kind, pred in kinds.items():
            n += 1
            hit = [r for r in rg if pred(r[1])]
            key = 'obs.py:%s#rejects[%s]' % (fn, kind)
            if hit:
                ctx.holds(rule, key, 'raise under `%s`' % hit[0][1][:100], obs.loc(hit[0][0]))
            else:
                ctx.violated(rule, key, '%s has no raise guarded by a test for: %s' % (fn, kind), obs.loc(f))
    # comparison semantics of the missing-configuration test: raise iff fewer found than requested
    f = obs.func('_reduce_deltas')
    for s, g in _raise_guards(obs, f):
        if 'len(indices)' in g:
            t = guards_of(obs, s, stop=f)[-1][0]
            ok = isinstance(t, ast.Compare) and isinstance(t.ops[0], (ast.Lt, ast.NotEq)) and unparse(t.left) == 'len(indices)'
            ctx.check(rule, 'obs.py:_reduce_deltas#missing-test-semantics', ok, 'raises when fewer configurations are found than requested', 'test is `%s`' % unparse(t), obs.loc(s))
    ctx.floor('misalignment rejection kinds', n, 12)


def _builds_obs_from_obs(mod, f):
    return [c for c in walk(f) if isinstance(c, ast.Call) and call_name(c) == 'Obs' and isinstance(c.func, ast.Name)]


def d3_flag(ctx):
    rule = 'C05-D3'
    obs = ctx.repo.mod('obs')
    # reweight: True on every result
    f = obs.func('reweight')
    st = [s for s in statements(f) if isinstance(s, ast.Assign) and isinstance(s.targets[0], ast.Attribute) and s.targets[0].attr == 'reweighted']
    ok = len(st) == 1 and isinstance(st[0].value, ast.Constant) and st[0].value.value is True and unparse(st[0].targets[0].value) == 'result[-1]' \
        and not [t for t, pol in guards_of(obs, st[0], stop=f)]
    ctx.check(rule, 'obs.py:reweight#flag-set', ok, 'every reweighted result gets reweighted = True unconditionally', 'flag stores in reweight: %s' % [unparse(s) for s in st])
    # derived_observable: inherits (any input flagged)
    f = obs.func('derived_observable')
    st = [s for s in statements(f) if isinstance(s, ast.Assign) and isinstance(s.targets[0], ast.Attribute) and s.targets[0].attr == 'reweighted']
    key = 'obs.py:derived_observable#flag-inherited'
    if len(st) != 1 or not isinstance(st[0].value, ast.Name):
        ctx.unrec(rule, key, 'expected one store of a local flag')
    else:
        defs = [s for s in statements(f) if isinstance(s, ast.Assign) and isinstance(s.targets[0], ast.Name) and s.targets[0].id == st[0].value.id]
        v = defs[0].value if len(defs) == 1 else None
        txt = unparse(v) if v is not None else ''
        # len(list(filter(lambda o: o.reweighted is True, raveled_data))) > 0   |  any(o.reweighted for o in raveled_data)
        ok = ('.reweighted' in txt and 'raveled_data' in txt and (('> 0' in txt and 'filter' in txt) or txt.startswith('any(')))
        same_loop = not [t for t, pol in guards_of(obs, st[0], stop=f)]
        ctx.check(rule, key, ok and same_loop, 'result flag = any input flagged, stored on every result element', 'flag computed as `%s`' % txt, obs.loc(st[0]))
    # correlate, merge_obs: depend on all inputs' flags
    for fn, needs in (('correlate', ['obs_a.reweighted', 'obs_b.reweighted']), ('merge_obs', ['.reweighted', 'list_of_obs'])):
        f = obs.func(fn)
        st = [s for s in statements(f) if isinstance(s, ast.Assign) and isinstance(s.targets[0], ast.Attribute) and s.targets[0].attr == 'reweighted']
        key = 'obs.py:%s#flag-inherited' % fn
        if len(st) != 1:
            ctx.violated(rule, key, '%s builds a new Obs from observables but stores the reweighted flag %d times' % (fn, len(st)), obs.loc(f))
            continue
        txt = unparse(st[0].value)
        ok = all(n in txt for n in needs) and not [t for t, pol in guards_of(obs, st[0], stop=f)]
        if fn == 'correlate':
            ok = ok and isinstance(st[0].value, ast.BoolOp) and isinstance(st[0].value.op, ast.Or)
        ctx.check(rule, key, ok, 'flag of the result = OR over the inputs', 'flag computed as `%s`' % txt, obs.loc(st[0]))
    # the flag is tested with `is True` downstream (derived_observable, correlate): it has to be a Python bool, a numpy reduction
    # (np.max / np.any / np.sum ...) yields np.True_, for which `x is True` is False
    tests_identity = any(isinstance(c, ast.Compare) and len(c.ops) == 1 and isinstance(c.ops[0], ast.Is) and isinstance(c.left, ast.Attribute) and c.left.attr == 'reweighted'
                         and isinstance(c.comparators[0], ast.Constant) and c.comparators[0].value is True for c in walk(obs.tree, skip_nested_defs=False))
    nflag = 0
    for mn_ in ('obs', 'linalg', 'correlators'):
        m_ = ctx.repo.mod(mn_)
        for q_, f_ in m_.functions():
            for s_ in statements(f_):
                if isinstance(s_, ast.Assign) and any(isinstance(t_, ast.Attribute) and t_.attr == 'reweighted' for t_ in s_.targets):
                    nflag += 1
                    npcalls = [c for c in walk(s_.value) if isinstance(c, ast.Call) and (m_.dotted(c.func) or '').startswith('numpy.')]
                    outer_bool = isinstance(s_.value, ast.Call) and call_name(s_.value) == 'bool'
                    ctx.check(rule, '%s.py:%s#flag-is-bool' % (mn_, q_), not (tests_identity and npcalls and not outer_bool),
                              'the stored flag is a Python bool (it is compared with `is True`)',
                              'the flag is stored as the result of %s: a numpy bool, for which the `reweighted is True` tests of derived_observable / correlate fail - everything derived from this '
                              'result loses the flag' % unparse(npcalls[0].func) if npcalls else '', m_.loc(s_))
    ctx.floor('stores of the reweighted flag', nflag, 4)
    # every other function of the package that constructs an Obs from the samples of existing observables
    n = 0
    for mn in ('obs', 'linalg', 'correlators', 'fits', 'roots', 'integrate', 'misc'):
        m = ctx.repo.mod(mn)
        for q, f in m.functions():
            if '.' in q and not q.startswith(('Obs.', 'Corr.', 'CObs.')) and mn == 'obs':
                pass
            calls = [c for c in walk(f) if isinstance(c, ast.Call) and isinstance(c.func, ast.Name) and c.func.id in ('Obs', 'import_jackknife', 'import_bootstrap')]
            if not calls:
                continue
            # does the function consume fluctuations of existing observables?
            consumes = any(isinstance(x, ast.Attribute) and x.attr in ('deltas',) for x in walk(f, skip_nested_defs=False)) or \
                any(isinstance(x, ast.Call) and call_name(x) in ('export_jackknife', 'export_bootstrap') for x in walk(f, skip_nested_defs=False))
            if not consumes or q in ('reweight', 'correlate', 'merge_obs', 'derived_observable', 'Obs.__init__'):
                continue
            n += 1
            stores = [x for x in walk(f, skip_nested_defs=False) if isinstance(x, ast.Attribute) and x.attr == 'reweighted' and isinstance(x.ctx, ast.Store)]
            key = '%s.py:%s#flag-inherited' % (mn, q)
            if stores:
                ctx.holds(rule, key, 'stores the flag on its result', m.loc(stores[0]))
            else:
                ctx.violated(rule, key, '%s rebuilds observables from the samples of its inputs (%s) but never sets reweighted on the result: the flag of '
                             'reweighted inputs is lost' % (q, sorted({call_name(c) for c in calls})), m.loc(calls[0]))
    ctx.floor('functions rebuilding Obs from samples', n, 2)


def d4_samples(ctx):
    from .. import samplerule
    obs = ctx.repo.mod('obs')
    n = samplerule.check(ctx, 'C05-D4', obs, ('reweight', 'correlate', 'merge_obs'))
    cm = ctx.repo.mod('correlators')
    n += samplerule.check(ctx, 'C05-D4', cm)
    ctx.floor('sample reconstructions (delta + replica mean)', n, 5)
    # the charge of a configuration in qtop_projection is rebuilt from fluctuation + mean of its replica as well
    samplerule.check(ctx, 'C05-D4', ctx.repo.mod('input.openQCD'), ('qtop_projection',))


def run(ctx):
    from . import C04 as _C04
    ctx.guarded('C05-D1', 'obs.py:_merge_idx', _C04.merge_idx_rules, ctx, ctx.repo.mod('obs'), 'C05-D1', (('_merge_idx', 'union'),))
    ctx.rule('C05-D1', 'pairing by configuration number (index-space tags, dominating equality guards)')
    ctx.rule('C05-D2', 'misaligned requests raise')
    ctx.rule('C05-D3', 'reweighted flag set and inherited')
    ctx.not_decided += ['numerical evaluation of <w o>/<w>']
    ctx.guarded('C05-D1', 'obs.py@pairing', d1_pairing, ctx)
    ctx.guarded('C05-D2', 'obs.py@guards', d2_guards, ctx)
    ctx.guarded('C05-D3', 'package@flag', d3_flag, ctx)
    ctx.rule('C05-D4', 'samples are fluctuation + replica mean of the same object and chain')
    ctx.guarded('C05-D4', 'obs.py@samples', d4_samples, ctx)
    from .. import unusedparams, leakedloop
    ctx.rule('C05-D5', 'every accepted option is read (no silently ignored parameter); no loop variable read after its loop')
    for mn_ in ('obs', 'correlators'):
        ctx.guarded('C05-D5', mn_ + '@parameters', unusedparams.check, ctx, 'C05-D5', ctx.repo.mod(mn_))
        ctx.guarded('C05-D5', mn_ + '@loop-variables', leakedloop.check, ctx, 'C05-D5', ctx.repo.mod(mn_))



SELFTEST = [
    ('merge-flag-numpy-bool', 'pyerrors/obs.py', '    o.reweighted = any(oi.reweighted for oi in list_of_obs)', '    o.reweighted = np.any([oi.reweighted for oi in list_of_obs])', 'C05-D3'),
    ('benign-merge-flag-bool-of-numpy', 'pyerrors/obs.py', '    o.reweighted = any(oi.reweighted for oi in list_of_obs)', '    o.reweighted = bool(np.any([oi.reweighted for oi in list_of_obs]))', 'BENIGN'),
    ('reduce-strided-shortcut-no-step-division', 'pyerrors/obs.py', "    if _check_lists_equal([idx_old, idx_new]):\n        return deltas\n    indices = np.intersect1d", "    if type(idx_old) is range and type(idx_new) is range and idx_new.step % idx_old.step == 0 and idx_new[0] in idx_old and idx_new[-1] in idx_old:\n        first = idx_new.start - idx_old.start\n        return np.array(deltas)[first::idx_new.step // idx_old.step][:len(idx_new)]\n    if _check_lists_equal([idx_old, idx_new]):\n        return deltas\n    indices = np.intersect1d", 'C05-D1'),
    ('benign-reduce-strided-shortcut', 'pyerrors/obs.py', "    if _check_lists_equal([idx_old, idx_new]):\n        return deltas\n    indices = np.intersect1d", "    if type(idx_old) is range and type(idx_new) is range and idx_new.step % idx_old.step == 0 and idx_new[0] in idx_old and idx_new[-1] in idx_old:\n        first = (idx_new.start - idx_old.start) // idx_old.step\n        return np.array(deltas)[first::idx_new.step // idx_old.step][:len(idx_new)]\n    if _check_lists_equal([idx_old, idx_new]):\n        return deltas\n    indices = np.intersect1d", 'BENIGN'),
    ('shape-check-dedented-out-of-loop', 'pyerrors/obs.py', "        if obs_a.shape[name] != obs_b.shape[name]:\n            raise ValueError('Shapes of ensemble', name, 'do not fit')\n        if obs_a.idl[name] != obs_b.idl[name]:\n            raise ValueError('idl of ensemble', name, 'do not fit')\n", "        if obs_a.idl[name] != obs_b.idl[name]:\n            raise ValueError('idl of ensemble', name, 'do not fit')\n    if obs_a.shape[name] != obs_b.shape[name]:\n        raise ValueError('Shapes of ensemble', name, 'do not fit')\n", 'C05-D5'),
    ('reweight-positional-slice', 'pyerrors/obs.py', "w_deltas[name] = _reduce_deltas(weight.deltas[name], weight.idl[name], obs[i].idl[name])", "w_deltas[name] = weight.deltas[name][:len(obs[i].deltas[name])]", 'C05-D1'),
    ('reweight-wrong-list', 'pyerrors/obs.py', "w_deltas[name] = _reduce_deltas(weight.deltas[name], weight.idl[name], obs[i].idl[name])", "w_deltas[name] = _reduce_deltas(weight.deltas[name], obs[i].idl[name], obs[i].idl[name])", 'C05-D1'),
    ('correlate-idl-check-removed', 'pyerrors/obs.py', "        if obs_a.idl[name] != obs_b.idl[name]:\n            raise ValueError('idl of ensemble', name, 'do not fit')\n", "", None),
    ('covariance-swapped-idl', 'pyerrors/obs.py', "gamma += calc_gamma(obs1.deltas[r_name], obs2.deltas[r_name], obs1.idl[r_name], obs2.idl[r_name], idl_d[r_name])", "gamma += calc_gamma(obs1.deltas[r_name], obs2.deltas[r_name], obs2.idl[r_name], obs1.idl[r_name], idl_d[r_name])", 'C05-D1'),
    ('covariance-no-reduce', 'pyerrors/obs.py', "        deltas2 = _reduce_deltas(deltas2, idx2, new_idx)\n", "", 'C05-D1'),
    ('reweight-flag-dropped', 'pyerrors/obs.py', "        result[-1].reweighted = True\n", "", 'C05-D3'),
    ('reweight-flag-conditional', 'pyerrors/obs.py', "        result[-1].reweighted = True\n", "        if kwargs.get('all_configs'):\n            result[-1].reweighted = True\n", 'C05-D3'),
    ('correlate-flag-and', 'pyerrors/obs.py', "o.reweighted = obs_a.reweighted or obs_b.reweighted", "o.reweighted = obs_a.reweighted and obs_b.reweighted", 'C05-D3'),
    ('derived-flag-first-only', 'pyerrors/obs.py', "reweighted = len(list(filter(lambda o: o.reweighted is True, raveled_data))) > 0", "reweighted = raveled_data[0].reweighted is True", 'C05-D3'),
    ('merge-flag-dropped', 'pyerrors/obs.py', "    o.reweighted = any(oi.reweighted for oi in list_of_obs)\n", "", 'C05-D3'),
    ('reweight-subset-check-removed', 'pyerrors/obs.py', "            if not set(obs[i].idl[name]).issubset(weight.idl[name]):", "            if False:", 'C05-D2'),
    ('reduce-missing-check', 'pyerrors/obs.py', "    if len(indices) < len(idx_new):", "    if len(indices) < 1:", 'C05-D2'),
    ('merge-duplicate-check', 'pyerrors/obs.py', "    if (len(replist) == len(set(replist))) is False:", "    if False:", 'C05-D2'),
    ('reduce-fastpath-weakened', 'pyerrors/obs.py', "    if _check_lists_equal([idx_old, idx_new]):\n        return deltas", "    if len(idx_old) == len(idx_new):\n        return deltas", 'C05-D1'),
    ('all-configs-inverted', 'pyerrors/obs.py', "        if kwargs.get('all_configs'):\n            new_weight = weight", "        if not kwargs.get('all_configs'):\n            new_weight = weight", 'C05-D1'),
    ('reduce-cached-across-obs', 'pyerrors/obs.py', "            w_deltas[name] = _reduce_deltas(weight.deltas[name], weight.idl[name], obs[i].idl[name])", "            if name not in w_deltas or len(w_deltas[name]) != obs[i].shape[name]:\n                w_deltas[name] = _reduce_deltas(weight.deltas[name], weight.idl[name], obs[i].idl[name])", 'C05-D1'),
    ('correlate-global-mean', 'pyerrors/obs.py', "new_samples.append((obs_a.deltas[name] + obs_a.r_values[name]) * (obs_b.deltas[name] + obs_b.r_values[name]))", "new_samples.append((obs_a.deltas[name] + obs_a.r_values[name]) * (obs_b.deltas[name] + obs_b.value))", 'C05-D4'),
    ('benign-flag-any', 'pyerrors/obs.py', "reweighted = len(list(filter(lambda o: o.reweighted is True, raveled_data))) > 0", "reweighted = any(o.reweighted is True for o in raveled_data)", 'BENIGN'),
]
