"""C06  Covariance and correlation matrices are consistent with the individual errors.

Decides only index and formula agreements of `covariance`, `_covariance_element`, `sort_corr`,
`invert_corr_cov_cholesky`, `_smooth_eigenvalues`, `error_band` and of the correlated-fit residual
(matrix expressions are compared in a normal form modulo associativity and spelling of products).
"""
import ast

from ..srcmodel import Unrecognised, unparse, call_name, kwarg, walk, statements, guards_of, const
from ..matx import MatX, show

LEVEL = 'other'
EXPLANATION = ('matrix expressions of covariance() and its helpers are lifted to a normal form (single-assignment locals inlined, products flattened) and '
               'compared with the defining formulas; index pairs of fill loops and permutation maps are compared structurally')
LEVEL_TEXT = ('decides only: cov is filled symmetrically from _covariance_element(obs[i], obs[j]); corr = D^-1/2 cov D^-1/2 (unit diagonal by algebra); the returned '
              'covariance is diag(err) corr diag(err) with err[i] = obs[i].dvalue (diagonal = squared errors by algebra); disjoint observables give 0; the covobs term is '
              'g1^T C g2; sort_corr applies one permutation to rows and columns; the Cholesky helper passes the lower factor as lower; eigenvalue smoothing '
              'renormalises to the mean; error_band is sqrt(g C g). Pearson identity, PSD-ness and [-1,1] bounds are numerical and not decided.')
TECHNIQUE = 'AST -> matrix-expression normal form comparison; loop index-pair and permutation-map structural checks'

S = lambda n: ('sym', n)


def cov_function(ctx, obs):
    rule = 'C06-D1'
    f = obs.func('covariance')
    pobs = f.args.args[0].arg
    mx = MatX(obs, f, inline=False)
    sts = statements(f)
    # fill
    fill = [s for s in sts if isinstance(s, ast.Assign) and isinstance(s.value, ast.Call) and call_name(s.value) == '_covariance_element']
    key = 'obs.py:covariance#fill'
    if len(fill) != 1:
        ctx.unrec(rule, key, 'expected one _covariance_element fill statement, found %d' % len(fill))
        return
    s = fill[0]
    t = s.targets[0]
    if not (isinstance(t, ast.Subscript) and isinstance(t.slice, ast.Tuple) and len(t.slice.elts) == 2 and len(s.value.args) == 2):
        ctx.unrec(rule, key, 'unexpected fill statement %s' % unparse(s))
        return
    i, j = unparse(t.slice.elts[0]), unparse(t.slice.elts[1])
    a, b = unparse(s.value.args[0]), unparse(s.value.args[1])
    ok = a == '%s[%s]' % (pobs, i) and b == '%s[%s]' % (pobs, j)
    ctx.check(rule, key, ok, 'cov[i, j] = element(obs[i], obs[j])', 'cov[%s, %s] is filled from (%s, %s)' % (i, j, a, b), obs.loc(s))
    covname = unparse(t.value)
    li = obs.parents.get(s)
    lo = obs.parents.get(li)
    okl = isinstance(li, ast.For) and isinstance(lo, ast.For) and unparse(li.target) == j and unparse(lo.target) == i and \
        unparse(lo.iter) == 'range(length)' and unparse(li.iter) in ('range(%s, length)' % i, 'range(length)')
    ctx.check(rule, key + '-loops', okl, 'upper triangle incl. diagonal is filled for all i', 'fill loops are %s / %s' % (unparse(lo.iter) if isinstance(lo, ast.For) else None, unparse(li.iter) if isinstance(li, ast.For) else None), obs.loc(s))
    upper_only = isinstance(li, ast.For) and unparse(li.iter) != 'range(length)'
    # the element loop is the only source of the matrix: it is not skipped in favour of another estimate under some condition
    skip = [unparse(t_) for t_, pol in guards_of(obs, s, stop=f)]
    ctx.check(rule, key + '-unconditional', not skip, 'every pair goes through _covariance_element',
              'the element loop runs only under %s: for the other inputs the matrix comes from `%s`, which is not the pairwise estimate on the common configurations' % (
                  skip, [unparse(x.value)[:50] for x in sts if isinstance(x, ast.Assign) and isinstance(x.targets[0], ast.Name) and x.targets[0].id == unparse(t.value) and not (isinstance(x.value, ast.Call) and call_name(x.value) == 'zeros')][:1]), obs.loc(s))
    # mirror
    cdefs = [x for x in sts if isinstance(x, ast.Assign) and isinstance(x.targets[0], ast.Name) and x.targets[0].id == covname]
    U = S(covname)
    want_mirror = ('sub', ('add',) + tuple(sorted([U, ('T', U)], key=repr)), ('call', 'numpy.diag', ('call', 'numpy.diag', U)))
    mirror = [x for x in cdefs if '.T' in unparse(x.value) or 'transpose' in unparse(x.value)]
    key = 'obs.py:covariance#mirror'
    if upper_only:
        if len(mirror) != 1:
            ctx.violated(rule, key, 'only the upper triangle is filled but there is no symmetrisation step', obs.loc(s))
        else:
            try:
                got = mx.t(mirror[0].value)
                ctx.check(rule, key, got == want_mirror, 'cov = U + U^T - diag(diag(U))', 'symmetrisation is %s' % show(got), obs.loc(mirror[0]))
            except Unrecognised as e:
                ctx.unrec(rule, key, str(e))
    # corr
    key = 'obs.py:covariance#corr'
    cr = [x for x in sts if isinstance(x, ast.Assign) and isinstance(x.targets[0], ast.Name) and x.targets[0].id == 'corr' and not (isinstance(x.value, ast.Call) and call_name(x.value) == '_smooth_eigenvalues')]
    if len(cr) != 1:
        ctx.unrec(rule, key, 'definition of corr not found')
    else:
        try:
            got = mx.t(cr[0].value)
            dm = ('call', 'numpy.diag', ('div', ('const', 1), ('call', 'numpy.sqrt', ('call', 'numpy.diag', U))))
            ctx.check(rule, key, got == ('matmul', dm, U, dm), 'corr = diag(1/sqrt(diag cov)) cov diag(1/sqrt(diag cov))  (unit diagonal)', 'corr is %s' % show(got), obs.loc(cr[0]))
        except Unrecognised as e:
            ctx.unrec(rule, key, str(e))
    # final
    key = 'obs.py:covariance#rescale'
    fin = [x for x in cdefs if 'corr' in unparse(x.value) and x is not (mirror[0] if mirror else None)]
    if len(fin) != 1:
        ctx.unrec(rule, key, 'final rescaling statement not found')
    else:
        try:
            got = MatX(obs, f, inline=True).t(fin[0].value)
            errs = ('comp', '[o.dvalue for o in %s]' % pobs)
            # corr is inlined to its definition; compare the outer factors and the middle symbolically
            ok = got[0] == 'matmul' and got[1] == ('call', 'numpy.diag', errs) and got[-1] == ('call', 'numpy.diag', errs) and len(got) >= 4
            ctx.check(rule, key, ok, 'cov = diag(err) corr diag(err) with err[i] = obs[i].dvalue in list order (diagonal = squared errors)',
                      'final covariance is %s' % show(got)[:200], obs.loc(fin[0]))
        except Unrecognised as e:
            ctx.unrec(rule, key, str(e))
    # correlation=True returns corr
    rets = [x for x in sts if isinstance(x, ast.Return)]
    rc = [x for x in rets if any(pol and 'correlation' in unparse(t) for t, pol in guards_of(obs, x, stop=f))]
    ctx.check(rule, 'obs.py:covariance#returns', len(rc) == 1 and unparse(rc[0].value) == 'corr' and unparse(rets[-1].value) == covname,
              'correlation=True returns corr, otherwise the rescaled covariance', 'returns are %s' % [unparse(x.value) for x in rets])


def cov_element(ctx, obs):
    rule = 'C06-D2'
    f = obs.func('_covariance_element')
    p = [a.arg for a in f.args.args]
    sts = statements(f)
    # disjoint -> 0 first
    first_if = [s for s in f.body if isinstance(s, ast.If)]
    key = 'obs.py:_covariance_element#disjoint-zero'
    ok = bool(first_if) and 'isdisjoint' in unparse(first_if[0].test) and p[0] + '.names' in unparse(first_if[0].test) and p[1] + '.names' in unparse(first_if[0].test) \
        and isinstance(first_if[0].body[0], ast.Return) and const(first_if[0].body[0].value) == 0
    ctx.check(rule, key, ok, 'observables without a common name have covariance 0', 'first test is %s' % (unparse(first_if[0].test) if first_if else None))
    # sums only over names present in both
    loops = [s for s in f.body if isinstance(s, ast.For)]
    for l in loops:
        it = unparse(l.iter)
        kind = 'mc' if 'mc_names' in it else ('cov' if 'cov_names' in it else None)
        if kind is None:
            continue
        first = l.body[0]
        okc = isinstance(first, ast.If) and isinstance(first.test, ast.Compare) and isinstance(first.test.ops[0], ast.NotIn) and \
            unparse(first.test.left) == unparse(l.target) and unparse(first.test.comparators[0]) == it.replace(p[0], p[1]) and isinstance(first.body[0], ast.Continue)
        ctx.check(rule, 'obs.py:_covariance_element#common-only[%s]' % kind, okc, 'names missing in the second observable are skipped', 'loop over %s starts with %s' % (it, unparse(first)[:80]), obs.loc(l))
    # the building block: sum over the common configurations of the product of the two reduced fluctuation vectors, nothing else
    # (fluctuations are deviations from the mean over ALL configurations of the chain; re-centring them on the common subset
    # changes the covariance of observables on nested lists)
    if obs.has_func('_covariance_element.calc_gamma'):
        cg = obs.func('_covariance_element.calc_gamma')
        cp = [a.arg for a in cg.args.args]
        red = {}
        for s_ in statements(cg):
            if isinstance(s_, ast.Assign) and isinstance(s_.targets[0], ast.Name) and isinstance(s_.value, ast.Call) and call_name(s_.value) == '_reduce_deltas':
                red[s_.targets[0].id] = [unparse(a_) for a_ in s_.value.args]
        rets = [s_ for s_ in statements(cg) if isinstance(s_, ast.Return)]
        key = 'obs.py:_covariance_element.calc_gamma#sum-of-products'
        if len(rets) != 1 or len(cp) != 5:
            ctx.unrec(rule, key, 'calc_gamma has %d returns / %d parameters' % (len(rets), len(cp)))
        else:
            import sympy as sp_
            a_s, b_s = sp_.symbols('a b')
            okred = red.get(cp[0]) == [cp[0], cp[2], cp[4]] and red.get(cp[1]) == [cp[1], cp[3], cp[4]]

            def tr(e):
                if isinstance(e, ast.Name) and e.id == cp[0]:
                    return a_s
                if isinstance(e, ast.Name) and e.id == cp[1]:
                    return b_s
                if isinstance(e, ast.Constant) and isinstance(e.value, (int, float)):
                    return sp_.nsimplify(e.value)
                if isinstance(e, ast.BinOp) and isinstance(e.op, (ast.Add, ast.Sub, ast.Mult)):
                    x, y = tr(e.left), tr(e.right)
                    return x + y if isinstance(e.op, ast.Add) else (x - y if isinstance(e.op, ast.Sub) else x * y)
                if isinstance(e, ast.Call) and call_name(e) in ('mean', 'average') and len(e.args) == 1:
                    return sp_.Function('mean')(tr(e.args[0]))
                raise Unrecognised('cannot translate %s' % unparse(e))
            v = rets[0].value
            try:
                if not (isinstance(v, ast.Call) and call_name(v) == 'sum' and len(v.args) == 1):
                    raise Unrecognised('return is not a sum: %s' % unparse(v))
                inner = sp_.expand(tr(v.args[0]))
                ctx.check(rule, key, okred and sp_.simplify(inner - a_s * b_s) == 0, 'sum over the common configurations of delta1 * delta2 (both reduced to the common list)',
                          'calc_gamma sums %s (with a, b the fluctuations reduced by %s): not the plain product of the fluctuations' % (inner, red), obs.loc(rets[0]))
            except Unrecognised as e_:
                ctx.unrec(rule, key, str(e_), obs.loc(rets[0]))
    # covobs term g1^T C g2
    mx = MatX(obs, f, inline=False)
    key = 'obs.py:_covariance_element#covobs-term'
    acc = [s for s in sts if isinstance(s, ast.AugAssign) and 'covobs' in unparse(s.value)]
    if len(acc) != 1:
        ctx.unrec(rule, key, 'covobs accumulation not found')
    else:
        l = obs.parents.get(acc[0])
        e = unparse(l.target) if isinstance(l, ast.For) else '?'
        try:
            got = mx.t(acc[0].value)
            g1 = ('attr', ('idx', ('attr', S(p[0]), 'covobs'), e), 'grad')
            g2 = ('attr', ('idx', ('attr', S(p[1]), 'covobs'), e), 'grad')
            C1 = ('attr', ('idx', ('attr', S(p[0]), 'covobs'), e), 'cov')
            C2 = ('attr', ('idx', ('attr', S(p[1]), 'covobs'), e), 'cov')
            ok = got in (('matmul', ('T', g1), C1, g2), ('matmul', ('T', g1), C2, g2))
            ctx.check(rule, key, ok, 'covariance through an external input = g1^T C g2', 'covobs term is %s' % show(got), obs.loc(acc[0]))
        except Unrecognised as ex:
            ctx.unrec(rule, key, str(ex))
    # normalisation: gamma / sum_r sqrt(G11 G22), each with the intersection list
    key = 'obs.py:_covariance_element#normalisation'
    div = [s for s in sts if isinstance(s, ast.AugAssign) and isinstance(s.op, ast.Div)]
    ok = len(div) == 1 and unparse(div[0].target) == 'gamma' and unparse(div[0].value) == 'gamma_div'
    sq = [c for c in walk(f) if isinstance(c, ast.Call) and (obs.dotted(c.func) or '') == 'numpy.sqrt' and 'calc_gamma' in unparse(c)]
    ok2 = len(sq) == 1 and isinstance(sq[0].args[0], ast.BinOp) and isinstance(sq[0].args[0].op, ast.Mult)
    if ok2:
        l, r = sq[0].args[0].left, sq[0].args[0].right
        la, ra = [unparse(a) for a in l.args], [unparse(a) for a in r.args]
        ok2 = la[0] == la[1] and ra[0] == ra[1] and la[0].startswith(p[0]) and ra[0].startswith(p[1]) and la[4] == ra[4]
    ctx.check(rule, key, ok and ok2, 'per ensemble: sum_r <d1 d2> / sum_r sqrt(<d1 d1><d2 d2>) on the common configurations', 'normalisation differs', obs.loc(div[0]) if div else '')


def helpers(ctx, obs):
    rule = 'C06-D3'
    # sort_corr
    f = obs.func('sort_corr')
    st = [s for s in statements(f) if isinstance(s, ast.Assign) and isinstance(s.targets[0], ast.Subscript) and 'corr_sorted' in unparse(s.targets[0])]
    key = 'obs.py:sort_corr#permutation'
    if len(st) != 1:
        ctx.unrec(rule, key, 'assignment to corr_sorted not found')
    else:
        def two_idx(e):
            if isinstance(e, ast.Subscript) and isinstance(e.slice, ast.Tuple) and len(e.slice.elts) == 2:
                return e.value, e.slice.elts[0], e.slice.elts[1]
            if isinstance(e, ast.Subscript) and isinstance(e.value, ast.Subscript):
                return e.value.value, e.value.slice, e.slice
            return None
        tt, vv = two_idx(st[0].targets[0]), two_idx(st[0].value)
        if not tt or not vv or unparse(vv[0]) != f.args.args[0].arg:
            ctx.unrec(rule, key, 'unexpected shape %s' % unparse(st[0]))
        else:
            def mapped(e, i):
                return isinstance(e, ast.Subscript) and unparse(e.slice) == unparse(i) and isinstance(e.value, ast.Name)
            ok = mapped(vv[1], tt[1]) and mapped(vv[2], tt[2]) and unparse(vv[1].value) == unparse(vv[2].value)
            ctx.check(rule, key, ok, 'corr_sorted[i][j] = corr[m[i]][m[j]] with one map m', '%s does not apply one permutation to rows and columns' % unparse(st[0]), obs.loc(st[0]))
    # mapping construction: positions of sorted keys
    mp = [c for c in walk(f) if isinstance(c, ast.Call) and isinstance(c.func, ast.Attribute) and c.func.attr == 'append' and unparse(c.func.value) == 'mapping']
    okm = len(mp) == 1 and unparse(mp[0].args[0]) == 'posd[k][i]'
    l = obs.parents.get(obs.parents.get(mp[0])) if mp else None
    while l is not None and not (isinstance(l, ast.For) and unparse(l.target) == 'k'):
        l = obs.parents.get(l)
    okm = okm and l is not None and unparse(l.iter) == 'kl_sorted'
    ctx.check(rule, 'obs.py:sort_corr#mapping', bool(okm), 'mapping lists the old positions in the order of the sorted keys', 'mapping construction differs')
    off = [s for s in statements(f) if isinstance(s, ast.AugAssign) and unparse(s.target) == 'ofs']
    ctx.check(rule, 'obs.py:sort_corr#offsets', len(off) == 1 and unparse(off[0].value) in ('len(posd[k])', 'len(yd[k])'), 'offsets advance by the block length in the original key order', 'offset update %s' % [unparse(o) for o in off])

    # invert_corr_cov_cholesky
    f = obs.func('invert_corr_cov_cholesky')
    key = 'obs.py:invert_corr_cov_cholesky#lower'
    st = [c for c in walk(f) if isinstance(c, ast.Call) and (obs.dotted(c.func) or '') == 'scipy.linalg.solve_triangular']
    ch = [s for s in statements(f) if isinstance(s, ast.Assign) and isinstance(s.value, ast.Call) and (obs.dotted(s.value.func) or '') == 'numpy.linalg.cholesky']
    if len(st) != 1 or len(ch) != 1:
        ctx.unrec(rule, key, 'cholesky / solve_triangular pair not found')
    else:
        lw = kwarg(st[0], 'lower')
        ok = unparse(st[0].args[0]) == unparse(ch[0].targets[0]) and lw is not None and isinstance(lw, ast.Constant) and lw.value is True and \
            unparse(ch[0].value.args[0]) == f.args.args[0].arg and unparse(st[0].args[1]) == f.args.args[1].arg
        ctx.check(rule, key, ok, 'L = cholesky(corr) (lower factor) ; solve_triangular(L, inverrdiag, lower=True)', 'call is %s with %s' % (unparse(st[0]), unparse(ch[0])), obs.loc(st[0]))

    # the matrix that is decomposed is the caller's: a 'renormalised' copy (unit diagonal forced) is another matrix whenever the diagonal is not 1
    # (eigenvalue smoothing), and chol_inv^T chol_inv is then not the inverse covariance any more
    pn = [a.arg for a in f.args.args]
    reb = [w for w in walk(f) if isinstance(w, ast.Name) and w.id in pn and isinstance(w.ctx, ast.Store)]
    ctx.check(rule, 'obs.py:invert_corr_cov_cholesky#operands-as-given', not reb, 'corr and inverrdiag are used as passed in',
              'the parameter `%s` is reassigned before the decomposition (`%s`)' % (reb[0].id if reb else '', unparse(obs.parents.get(reb[0]))[:80] if reb else ''), obs.loc(reb[0]) if reb else None)

    # _smooth_eigenvalues
    f = obs.func('_smooth_eigenvalues')
    key = 'obs.py:_smooth_eigenvalues#trace'
    nm = [s for s in statements(f) if isinstance(s, ast.AugAssign) and isinstance(s.op, ast.Div)]
    rets = [s for s in statements(f) if isinstance(s, ast.Return)]
    ok = len(nm) == 1 and unparse(nm[0].target) == 'vals' and unparse(nm[0].value) in ('np.mean(vals)', 'vals.mean()')
    mx = MatX(obs, f, inline=False)
    try:
        got = mx.t(rets[-1].value)
        ok2 = got == ('matmul', S('vec'), ('call', 'numpy.diag', S('vals')), ('T', S('vec')))
    except (Unrecognised, IndexError):
        ok2 = False
    order = bool(nm) and bool(rets) and nm[0].lineno < rets[-1].lineno and all(s.lineno < nm[0].lineno for s in statements(f) if isinstance(s, ast.Assign) and 'vals[' in unparse(s.targets[0]))
    ctx.check(rule, key, ok and ok2 and order, 'eigenvalues are clipped, then divided by their mean (trace = dimension), then V diag(vals) V^T', 'smoothing is %s ; return %s' % ([unparse(n) for n in nm], unparse(rets[-1].value) if rets else None))
    lm = [s for s in statements(f) if isinstance(s, ast.Assign) and unparse(s.targets[0]) == 'lambda_min']
    ctx.check(rule, 'obs.py:_smooth_eigenvalues#lambda_min', len(lm) == 1 and unparse(lm[0].value) == 'np.mean(vals[:-E])', 'lambda_min = mean of all but the E largest', 'lambda_min = %s' % [unparse(s.value) for s in lm])

    # error_band
    fits = ctx.repo.mod('fits')
    f = fits.func('error_band')
    key = 'fits.py:error_band#sqrt-gCg'
    apps = [c for c in walk(f) if isinstance(c, ast.Call) and isinstance(c.func, ast.Attribute) and c.func.attr == 'append' and unparse(c.func.value) == 'err']
    comps = [c for c in walk(f) if isinstance(c, ast.ListComp) and len(c.generators) == 1 and not c.generators[0].ifs and any(isinstance(w, ast.Name) and w.id == 'cov' for w in ast.walk(c.elt))]
    elem, idx = None, None
    if len(apps) == 1:
        elem = apps[0].args[0]
        l = fits.parents.get(fits.parents.get(apps[0]))
        idx = unparse(l.target.elts[0]) if isinstance(l, ast.For) and isinstance(l.target, ast.Tuple) else (unparse(l.target) if isinstance(l, ast.For) and unparse(l.iter).startswith('range(len(') else None)
    elif not apps and len(comps) == 1:
        # the same elements written as a comprehension
        elem = comps[0].elt
        g_ = comps[0].generators[0]
        idx = unparse(g_.target.elts[0]) if isinstance(g_.target, ast.Tuple) and isinstance(g_.iter, ast.Call) and call_name(g_.iter) == 'enumerate' else (
            unparse(g_.target) if unparse(g_.iter).startswith('range(len(') else None)
    if elem is None:
        ctx.unrec(rule, key, 'err.append not found')
    else:
        mx = MatX(fits, f, inline=False)
        got = mx.t(elem)
        g = ('idx', S('deriv'), idx)
        ok = got == ('call', 'numpy.sqrt', ('matmul', g, S('cov'), g))
        ctx.check(rule, key, ok, 'err[i] = sqrt(g_i C g_i) with one and the same gradient', 'err element is %s' % show(got), fits.loc(elem))
    cv = [s for s in statements(f) if isinstance(s, ast.Assign) and unparse(s.targets[0]) == 'cov']
    ctx.check(rule, 'fits.py:error_band#cov', len(cv) == 1 and unparse(cv[0].value) == 'covariance(%s)' % f.args.args[2].arg, 'C = covariance(beta)', 'cov = %s' % [unparse(s.value) for s in cv])
    dv = [c for c in walk(f) if isinstance(c, ast.Call) and isinstance(c.func, ast.Attribute) and c.func.attr == 'append' and unparse(c.func.value) == 'deriv']
    okd = len(dv) == 1 and 'egrad(%s)' % f.args.args[1].arg in unparse(dv[0]) and '[o.value for o in %s]' % f.args.args[2].arg in unparse(dv[0])
    ctx.check(rule, 'fits.py:error_band#gradient', okd, 'g_i = grad_p func(p, x_i) at the central values of beta', 'gradient is %s' % [unparse(d) for d in dv])

    # correlated fit: whitening with the helper
    f = fits.func('least_squares')
    cc = [s for s in statements(f) if isinstance(s, ast.Assign) and isinstance(s.value, ast.Call) and call_name(s.value) == 'invert_corr_cov_cholesky']
    key = 'fits.py:least_squares#whitening'
    if len(cc) != 1:
        ctx.unrec(rule, key, 'invert_corr_cov_cholesky call not found')
    else:
        a0, a1 = cc[0].value.args
        d0 = [s for s in statements(f) if isinstance(s, ast.Assign) and unparse(s.targets[0]) == unparse(a0)]
        d1 = [s for s in statements(f) if isinstance(s, ast.Assign) and unparse(s.targets[0]) == unparse(a1)]
        ok = len(d0) == 1 and unparse(d0[0].value).startswith('covariance(y_all, correlation=True') and len(d1) == 1 and \
            unparse(d1[0].value) in ('np.diag(1 / np.asarray(dy_f))', 'np.diag(1 / np.array(dy_f))')
        ctx.check(rule, key, ok, 'chol_inv = L^-1 diag(1/dy) from the correlation matrix of the data and the same errors dy_f', 'whitening built from %s / %s' % ([unparse(s.value) for s in d0], [unparse(s.value) for s in d1]), fits.loc(cc[0]))
    dyf = [s for s in statements(f) if isinstance(s, ast.Assign) and unparse(s.targets[0]) == 'dy_f']
    ctx.check(rule, 'fits.py:least_squares#dy_f', len(dyf) == 1 and unparse(dyf[0].value) == '[o.dvalue for o in y_all]', 'dy_f are the errors of the data in data order', 'dy_f = %s' % [unparse(s.value) for s in dyf])


def scale_free_guards(ctx, obs):
    """the correlation is invariant under rescaling of either observable: a guard on the accumulated product of fluctuations
    must be scale free (x == 0, or a comparison of two such products); a tolerance test (isclose / abs(x) < 1e-8) drops real
    correlations of small-valued observables"""
    rule = 'C06-D2'
    f = obs.func('_covariance_element')
    tainted = set()
    for s_ in statements(f):
        if isinstance(s_, (ast.Assign, ast.AugAssign)) and any(isinstance(c, ast.Call) and call_name(c) == 'calc_gamma' for c in ast.walk(s_.value)):
            t = s_.targets[0] if isinstance(s_, ast.Assign) else s_.target
            if isinstance(t, ast.Name):
                tainted.add(t.id)
    if not tainted:
        raise Unrecognised('no accumulation of calc_gamma results found')
    n = 0
    for node in walk(f):
        test = None
        if isinstance(node, (ast.If, ast.IfExp, ast.While)):
            test = node.test
        if test is None:
            continue
        names = {x.id for x in ast.walk(test) if isinstance(x, ast.Name)}
        hit = sorted(names & tainted)
        if not hit:
            continue
        n += 1
        key = 'obs.py:_covariance_element#guard[%s]' % unparse(test)[:50]
        bad = None
        for c in ast.walk(test):
            if isinstance(c, ast.Call) and call_name(c) in ('isclose', 'allclose'):
                bad = 'tolerance test %s' % unparse(c)
            if isinstance(c, ast.Compare):
                consts = [const(x) for x in [c.left] + list(c.comparators) if const(x) is not None]
                if any(isinstance(v, (int, float)) and v != 0 for v in consts):
                    bad = 'comparison with the dimensionful constant in `%s`' % unparse(c)
                if any(isinstance(op, (ast.Lt, ast.LtE, ast.Gt, ast.GtE)) for op in c.ops) and any(call_name(x) == 'abs' for x in ast.walk(c) if isinstance(x, ast.Call)):
                    bad = 'magnitude threshold `%s`' % unparse(c)
        ctx.check(rule, key, bad is None, 'guard on %s is scale free (exact zero test)' % hit[0],
                  '%s on %s (a sum of products of fluctuations): multiplying an observable by a constant changes which branch is taken, small observables lose their correlation' % (bad, hit[0]), obs.loc(node))
    ctx.floor('guards on accumulated fluctuation products', n, 1)


def key_order_agreement(ctx, obs):
    """re-sorting by keys is 'the corresponding permutation' of the combined fit: sort_corr and least_squares order the keys by the
    same plain sorted() (no key function, no reverse)"""
    rule = 'C06-D3'
    fits = ctx.repo.mod('fits')
    sites = []
    for mod, q in ((obs, 'sort_corr'), (fits, 'least_squares')):
        f = mod.func(q)
        for c in walk(f):
            if isinstance(c, ast.Call) and call_name(c) == 'sorted' and mod.enclosing_func(c) is f and c.args and any(k in unparse(c.args[0]) for k in ('kl', 'keys()', 'xd', 'funcd')):
                sites.append((mod, q, c))
    for mod, q, c in sites:
        ctx.check(rule, '%s:%s#key-order[%s]' % (mod.relpath.replace('pyerrors/', ''), q, unparse(c)[:40]), not c.keywords, 'keys ordered by plain sorted()',
                  '%s orders the keys with %s: the order differs from the plain sorted() used by %s, the matrix no longer matches the data arranged by the fit' % (
                      q, unparse(c), 'the combined fit' if q == 'sort_corr' else 'sort_corr'), mod.loc(c))
    ctx.floor('key orderings (sort_corr / least_squares)', len(sites), 2)


def run(ctx):
    ctx.rule('C06-D1', 'covariance(): fill, mirror, corr, rescale')
    ctx.rule('C06-D2', '_covariance_element: zero for disjoint, common names only, g1^T C g2, normalisation')
    ctx.rule('C06-D3', 'helpers: sort_corr, cholesky inverse, eigenvalue smoothing, error band, whitening')
    ctx.not_decided += ['Pearson identity', 'positive semi-definiteness', 'entries in [-1,1]', 'permutation equivariance up to summation order']
    obs = ctx.repo.mod('obs')
    ctx.guarded('C06-D1', 'obs.py:covariance', cov_function, ctx, obs)
    ctx.guarded('C06-D2', 'obs.py:_covariance_element', cov_element, ctx, obs)
    ctx.guarded('C06-D2', 'obs.py:_covariance_element@scale-free', scale_free_guards, ctx, obs)
    ctx.guarded('C06-D3', 'obs.py@helpers', helpers, ctx, obs)
    ctx.guarded('C06-D3', 'obs.py@key-order', key_order_agreement, ctx, obs)
    from . import C04, C05
    ctx.guarded('C06-D2', 'obs.py:_reduce_deltas', C05.reduce_deltas_rules, ctx, obs, 'C06-D2')
    ctx.guarded('C06-D2', 'obs.py:_intersection_idx', C04.merge_idx_rules, ctx, obs, 'C06-D2', (('_intersection_idx', 'intersection'),))
    ctx.floor('C06 obligations', len(ctx.obs), 18)


SELFTEST = [
    ('gamma-recentred-on-subset', 'pyerrors/obs.py', "        return np.sum(deltas1 * deltas2)\n\n    if set(obs1.names)", "        return np.sum((deltas1 - np.mean(deltas1)) * deltas2)\n\n    if set(obs1.names)", 'C06-D2'),
    ('zero-covariance-by-threshold', 'pyerrors/obs.py', "        if gamma == 0.0:\n            continue\n\n        gamma_div = 0.0", "        if abs(gamma) < 1e-12:\n            continue\n\n        gamma_div = 0.0", 'C06-D2'),
    ('fill-wrong-pair', 'pyerrors/obs.py', "cov[i, j] = _covariance_element(obs[i], obs[j])", "cov[i, j] = _covariance_element(obs[i], obs[i])", 'C06-D1'),
    ('mirror-no-diag', 'pyerrors/obs.py', "cov = cov + cov.T - np.diag(np.diag(cov))", "cov = cov + cov.T", 'C06-D1'),
    ('corr-one-sided', 'pyerrors/obs.py', "corr = np.diag(1 / np.sqrt(np.diag(cov))) @ cov @ np.diag(1 / np.sqrt(np.diag(cov)))", "corr = np.diag(1 / np.diag(cov)) @ cov", 'C06-D1'),
    ('rescale-ddvalue', 'pyerrors/obs.py', "    errors = [o.dvalue for o in obs]\n", "    errors = [o.ddvalue for o in obs]\n", 'C06-D1'),
    ('disjoint-removed', 'pyerrors/obs.py', "    if set(obs1.names).isdisjoint(set(obs2.names)):\n        return 0.0\n", "", 'C06-D2'),
    ('covobs-term-grad1-twice', 'pyerrors/obs.py', "np.dot(obs1.covobs[e_name].cov, obs2.covobs[e_name].grad)).item()", "np.dot(obs1.covobs[e_name].cov, obs1.covobs[e_name].grad)).item()", 'C06-D2'),
    ('sortcorr-rows-only', 'pyerrors/obs.py', "corr_sorted[i][j] = corr[mapping[i]][mapping[j]]", "corr_sorted[i][j] = corr[mapping[i]][j]", 'C06-D3'),
    ('sortcorr-mapping-unsorted', 'pyerrors/obs.py', "    for k in kl_sorted:\n        for i in range(len(yd[k])):", "    for k in kl:\n        for i in range(len(yd[k])):", 'C06-D3'),
    ('cholesky-upper', 'pyerrors/obs.py', "chol_inv = scipy.linalg.solve_triangular(chol, inverrdiag, lower=True)", "chol_inv = scipy.linalg.solve_triangular(chol, inverrdiag, lower=False)", 'C06-D3'),
    ('smooth-no-renorm', 'pyerrors/obs.py', "    vals /= np.mean(vals)\n", "", 'C06-D3'),
    ('errband-two-gradients', 'pyerrors/fits.py', "err.append(np.sqrt(deriv[i] @ cov @ deriv[i]))", "err.append(np.sqrt(deriv[i] @ cov @ deriv[0]))", 'C06-D3'),
    ('whitening-errors', 'pyerrors/fits.py', "            inverrdiag = np.diag(1 / np.asarray(dy_f))\n            chol_inv", "            inverrdiag = np.diag(1 / np.asarray(dy_f) ** 2)\n            chol_inv", 'C06-D3'),
    ('intersection-fast-path-exclusive', 'pyerrors/obs.py', "    idinter = sorted(set.intersection(*[set(o) for o in idl]))\n", "    if all(type(o) is range for o in idl) and len(set(o.step for o in idl)) == 1:\n        first = max(o[0] for o in idl)\n        last = min(o[-1] for o in idl)\n        if first <= last and all((first - o[0]) % idl[0].step == 0 for o in idl):\n            return range(first, last, idl[0].step)\n    idinter = sorted(set.intersection(*[set(o) for o in idl]))\n", 'C06-D2'),
    ('benign-matmul-spelling', 'pyerrors/obs.py', "cov = np.diag(errors) @ corr @ np.diag(errors)", "cov = np.dot(np.diag(errors), np.dot(corr, np.diag(errors)))", 'BENIGN'),
]
