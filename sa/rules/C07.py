"""C07  Linear least-squares fits reproduce the closed-form GLS estimator.

Decides only (least_squares, Corr.fit):
  D1 layout agreement of the implicit-function step (concatenation | slices of chisqfunc_compact | Hessian block | data list | man_grad row)
  D2 sign/form: deriv_y = -solve(hessian(chisq)(fitp), mixed block)
  D3 bookkeeping formulas: dof, p-value, chisquare/dof, Hotelling t^2
  D4 key-order independence: dictionaries are traversed through the sorted key list only
  D5 value carrier evaluates to fitp[i]
  D6 chi-square definition: residual (data - model)/dy, prior rows (p[mask] - prior)/dprior, correlated residual chol_inv @ (data - model)
  D7 Corr.fit builds x and y from the same inclusive range and filter
"""
import ast

import sympy as sp

from ..srcmodel import Unrecognised, unparse, call_name, kwarg, walk, statements, guards_of, const
from ..layout import sx, slice_bounds, concat_segments, check_partition, strip_ravel
from ..symx import Translator, decide_equal

from .. import hiddenstate

LEVEL = 'other'
EXPLANATION = ('layout agreement between the concatenated argument vector, the slices that take it apart, the mixed-Hessian block, the data list and the manual gradient; '
               'sympy comparison of the bookkeeping formulas and of the value carrier; dataflow check that dictionaries are traversed via the sorted key list')
LEVEL_TEXT = ('decides only the structural necessary conditions of the implicit-function error propagation in least_squares: (parameters | data | priors) layout used '
              'consistently in 5 places, sign and matrices of deriv_y = -H^-1 d2chi2/dp dy, chi-square residual definitions, dof/p-value/Hotelling formulas, '
              'sorted-key traversal, value carrier = fitp[i]. That the minimiser finds the GLS solution is numerical and not decided.')
TECHNIQUE = 'layout/slice partition analysis with symbolic bounds, sympy formula comparison, dict-iteration dataflow rule'


def find_def(f, name):
    return [s for s in statements(f) if isinstance(s, ast.Assign) and len(s.targets) == 1 and isinstance(s.targets[0], ast.Name) and s.targets[0].id == name]


def carrier_check(ctx, rule, key, mod, f, call, want_index_var):
    """derived_observable(lambda v: (v[0]+eps)/(D0.value+eps)*C, DATA, man_grad=...) evaluates to C"""
    lam = call.args[0]
    data = call.args[1]
    if not isinstance(lam, ast.Lambda):
        ctx.unrec(rule, key, 'first argument is not a lambda', mod.loc(call))
        return None
    v = lam.args.args[0].arg
    # first element of the data list
    first = data
    if isinstance(first, ast.BinOp) and isinstance(first.op, ast.Add):
        while isinstance(first, ast.BinOp) and isinstance(first.op, ast.Add):
            first = first.left
    if isinstance(first, ast.Call) and call_name(first) == 'list' and first.args:
        first = first.args[0]
    first_txt = unparse(first)
    X0 = sp.Symbol('X0', positive=True)
    EPS = sp.Symbol('eps', positive=True)
    C = sp.Symbol('C', real=True)
    cexpr = {}

    def atoms(node):
        t = unparse(node)
        if isinstance(node, ast.Subscript) and isinstance(node.value, ast.Name) and node.value.id == v and const(node.slice) == 0:
            return X0
        if isinstance(node, ast.Attribute) and node.attr == 'value':
            b = unparse(node.value)
            if b in ('%s[0]' % first_txt, '%s.ravel()[0]' % first_txt, '%s.reshape(-1)[0]' % first_txt) or \
                    (first_txt.endswith('.ravel()') and b == first_txt + '[0]') or (first_txt.endswith('.reshape(-1)') and b == first_txt + '[0]'):
                return X0
            raise Unrecognised('carrier divides by %s which is not element 0 of the data list %s' % (t, unparse(data)))
        if isinstance(node, ast.Attribute) and node.attr == 'eps':
            return EPS
        if isinstance(node, ast.Subscript) and not (isinstance(node.value, ast.Name) and node.value.id == v):
            cexpr['c'] = node
            return C
        if isinstance(node, ast.Name) and node.id != v:
            cexpr['c'] = node
            return C
        return None
    try:
        got = Translator(mod, atoms=atoms, free='error', positive=False).tr(lam.body)
    except Unrecognised as e:
        msg = str(e)
        if 'not element 0' in msg:
            ctx.violated(rule, key, msg, mod.loc(call))
        else:
            ctx.unrec(rule, key, msg, mod.loc(call))
        return None
    ok = sp.simplify(got - C) == 0
    ctx.check(rule, key, ok, 'value carrier evaluates to %s exactly (element 0 of the data list divided by its own value)' % (unparse(cexpr.get('c')) if cexpr.get('c') is not None else 'C'),
              'value carrier evaluates to %s instead of the fitted value' % got, mod.loc(call))
    return cexpr.get('c')


def d1_layout(ctx, fits, rule='C07-D1', rule2='C07-D2', rule5='C07-D5'):
    f = fits.func('least_squares')
    env = {}
    n = sx(ast.Name(id='n_parms'), env)
    # compact function
    comp = [(q, nd) for q, nd in fits.functions() if q.startswith('least_squares.') and any(isinstance(c, ast.Call) and unparse(c.func) == 'general_chisqfunc' for c in walk(nd))
            and len(nd.args.args) == 1 and any(isinstance(x, ast.Slice) for x in walk(nd))]
    if len(comp) != 1:
        ctx.unrec(rule, 'fits.py:least_squares#compact', 'expected one compact chi-square function slicing its argument, found %d' % len(comp))
        return
    cq, cf = comp[0]
    dname = cf.args.args[0].arg
    call = [c for c in walk(cf) if isinstance(c, ast.Call) and unparse(c.func) == 'general_chisqfunc'][0]
    names = [a for a in call.args if isinstance(a, ast.Name)]
    if names:
        ctx.violated(rule, 'fits.py:%s#slices' % cq, 'the compact chi-square passes %s from the enclosing scope instead of a slice of its argument: the mixed second '
                     'derivative with respect to that block is lost' % [unparse(a) for a in names], fits.loc(call))
        return
    try:
        sl = [slice_bounds(a, env) for a in call.args]
    except Unrecognised as e:
        ctx.unrec(rule, 'fits.py:%s#slices' % cq, str(e), fits.loc(call))
        return
    if any(s[0] != dname for s in sl) or len(sl) != 3:
        ctx.unrec(rule, 'fits.py:%s#slices' % cq, 'arguments are not three slices of %s' % dname, fits.loc(call))
        return
    # concatenation handed to the Hessian of the compact function
    hcalls = [c for c in walk(f) if isinstance(c, ast.Call) and isinstance(c.func, ast.Call) and unparse(c.func.func) == 'hessian' and unparse(c.func.args[0]) == cf.name]
    if len(hcalls) != 1:
        ctx.unrec(rule, 'fits.py:least_squares#hessian-compact', 'hessian(%s)(...) not found' % cf.name)
        return
    try:
        segs = concat_segments(hcalls[0].args[0])
    except Unrecognised as e:
        ctx.unrec(rule, 'fits.py:least_squares#concat', str(e))
        return
    seg_txt = [unparse(s) for s in segs]
    # lengths of the segments: fitp -> n_parms (fit_result.x of a fit with n_parms parameters), y_f -> len(y_f)
    lens = []
    for s in segs:
        t = unparse(s)
        if t == 'fitp':
            lens.append(n)
        else:
            lens.append(sx(ast.Call(func=ast.Name(id='len'), args=[s], keywords=[]), env))
    # len_y = len(y_f)
    for nm, sym in list(env.items()):
        d = find_def(f, nm) if isinstance(nm, str) and nm.isidentifier() else []
        if len(d) == 1 and isinstance(d[0].value, ast.Call) and call_name(d[0].value) == 'len':
            k = 'len(%s)' % unparse(d[0].value.args[0])
            if k in env:
                lens = [l.subs(env[k], sym) if l is not None else l for l in lens]
    msg = check_partition(lens[:2] + [None], [(s[1], s[2]) for s in sl])
    ctx.check(rule, 'fits.py:%s#slices-vs-concat' % cq, msg is None,
              'slices %s of the compact argument are exactly the segments (%s)' % ([unparse(a) for a in call.args], ' | '.join(seg_txt)),
              'slices of the compact chi-square do not partition concatenate(%s): %s' % (', '.join(seg_txt), msg), fits.loc(call))
    # roles: general_chisqfunc(p, ivars, pr) is otherwise called with (p, y_f, p_f)
    ref = [c for c in walk(f, skip_nested_defs=False) if isinstance(c, ast.Call) and unparse(c.func) == 'general_chisqfunc' and c is not call and len(c.args) == 3]
    okr = bool(ref) and all(unparse(c.args[1]) == seg_txt[1] and unparse(c.args[2]) == seg_txt[2] for c in ref)
    ctx.check(rule, 'fits.py:least_squares#roles', okr, 'segments 1 and 2 are the data and prior vectors that the chi-square receives in the plain call',
              'plain chi-square is called with %s but the compact vector is (%s)' % ([[unparse(a) for a in c.args] for c in ref], ', '.join(seg_txt)))
    # block
    key = 'fits.py:least_squares#mixed-block'
    dv = find_def(f, 'deriv_y')
    if len(dv) != 1:
        ctx.unrec(rule, key, 'deriv_y not single-assigned')
        return
    v = dv[0].value
    neg = isinstance(v, ast.UnaryOp) and isinstance(v.op, ast.USub)
    inner = v.operand if neg else v
    # a truncating solver is not the inverse: pinv / pinvh / lstsq drop every singular value below rcond * largest, so for a regular
    # but badly scaled Hessian (a prior or data point weighted ~1e15 above the flattest direction) whole parameter directions of
    # H^-1 B are lost, while LU with pivoting (solve) or inv keeps them.  The GLS solution needs (A^T W A)^-1.
    trunc = [c for c in walk(inner) if isinstance(c, ast.Call) and (fits.dotted(c.func) or unparse(c.func)).split('.')[-1] in ('pinv', 'pinvh', 'pinv2', 'lstsq')]
    if trunc:
        ctx.violated(rule2, 'fits.py:least_squares#ift-solver', 'deriv_y = %s applies a truncating pseudo-inverse (%s) where the inverse of the Hessian is required: singular values below the '
                     'cut-off are dropped, so for a regular badly scaled Hessian (e.g. a parameter pinned by a very tight prior) the fluctuations and covariance gradients of the other '
                     'parameters are not those of the GLS solution' % (unparse(v)[:90], unparse(trunc[0].func)), fits.loc(dv[0]))
        return
    if not (isinstance(inner, ast.Call) and (fits.dotted(inner.func) or '').endswith('linalg.solve') and len(inner.args) == 2):
        ctx.unrec(rule, key, 'deriv_y is not (-)solve(H, B): %s' % unparse(v))
        return
    ctx.check(rule2, 'fits.py:least_squares#ift-sign', neg, 'deriv_y = - H^-1 B (implicit function theorem)', 'deriv_y = %s has the wrong sign' % unparse(v), fits.loc(dv[0]))
    H, B = inner.args
    hd = find_def(f, unparse(H))
    okh = len(hd) == 1 and unparse(hd[0].value) == 'hessian(chisqfunc)(fitp)'
    ctx.check(rule2, 'fits.py:least_squares#hessian', okh, 'H = hessian(chisq)(fitp)', 'H = %s' % [unparse(h.value) for h in hd], fits.loc(dv[0]))
    if isinstance(B, ast.Name):
        # the block goes through a local: every definition of it has to be the block of the Hessian of the compact chi-square; a
        # definition by another formula (a closed form for a special case) is not the derivative of the function that was minimised
        bdefs = find_def(f, B.id)
        good = [d_ for d_ in bdefs if isinstance(d_.value, ast.Subscript) and isinstance(d_.value.slice, ast.Tuple)]
        other = [d_ for d_ in bdefs if d_ not in good]
        for d_ in other:
            ctx.violated(rule, key + '#alternative[%s]' % unparse(d_.value)[:40], 'on one path the mixed derivative d(grad chi2)/d(data) is not taken from hessian(%s) but built as `%s` (guards %s): '
                         'the sensitivities are then not those of the chi-square that defines the fit (e.g. its correlation matrix / priors)' % (
                             cf.name, unparse(d_.value)[:60], [unparse(t) for t, pol in guards_of(fits, d_, stop=f) if pol]), fits.loc(d_))
        if len(good) != 1:
            if not other:
                ctx.unrec(rule, key, 'mixed block %s has %d definitions' % (B.id, len(bdefs)))
            return
        B = good[0].value
    if not (isinstance(B, ast.Subscript) and isinstance(B.slice, ast.Tuple) and len(B.slice.elts) == 2 and all(isinstance(e, ast.Slice) for e in B.slice.elts)):
        ctx.unrec(rule, key, 'mixed block is not M[a:b, c:d]: %s' % unparse(B))
        return
    jd = find_def(f, unparse(B.value)) if isinstance(B.value, ast.Name) else []
    okj = len(jd) == 1 and jd[0].value is hcalls[0]
    if not okj and any(d_.value is hcalls[0] for d_ in jd):
        # the matrix has a second definition on another path: one that does not even mention the compact chi-square is a formula
        # for a special case (uncorrelated data, no priors ...), not the derivative of the function that was minimised
        alt = [d_ for d_ in jd if d_.value is not hcalls[0] and not any(isinstance(n_, ast.Name) and n_.id == cf.name for n_ in ast.walk(d_.value))]
        for d_ in alt:
            ctx.violated(rule, key + '#alternative[%s]' % unparse(d_.value)[:40], 'on one path the matrix of mixed derivatives `%s` is not hessian(%s)(...) but built as `%s` (guards %s): '
                         'the sensitivities are then not those of the chi-square that defines the fit (e.g. its correlation matrix / priors)' % (
                             unparse(B.value), cf.name, unparse(d_.value)[:60], [unparse(t) for t, pol in guards_of(fits, d_, stop=f) if pol]), fits.loc(d_))
        if alt:
            return
    if not okj:
        ctx.unrec(rule, key, 'mixed block is not taken directly from hessian(%s)(...): %s' % (cf.name, unparse(B)))
        return
    r, c = B.slice.elts
    r0 = sx(r.lower, env) if r.lower is not None else 0
    r1 = sx(r.upper, env) if r.upper is not None else None
    c0 = sx(c.lower, env) if c.lower is not None else 0
    c1 = sx(c.upper, env) if c.upper is not None else None
    okb = okj and r0 == 0 and r1 is not None and sp.simplify(r1 - n) == 0 and sp.simplify(c0 - n) == 0 and c1 is None
    ctx.check(rule, key, okb, 'block rows = parameter segment [0, n_parms), columns = (data | priors) segment [n_parms, end) of the Hessian of the compact chi-square',
              'mixed block %s does not select rows [0,n_parms) and columns [n_parms,end) of hessian(%s)' % (unparse(B), cf.name), fits.loc(dv[0]))
    # data list and man_grad row
    key = 'fits.py:least_squares#data-list'
    dc = [c for c in walk(f) if isinstance(c, ast.Call) and call_name(c) == 'derived_observable']
    if len(dc) != 1:
        ctx.unrec(rule, key, 'derived_observable call not found')
        return
    dc = dc[0]
    data = dc.args[1]
    parts = []
    nd = data
    while isinstance(nd, ast.BinOp) and isinstance(nd.op, ast.Add):
        parts.insert(0, nd.right)
        nd = nd.left
    parts.insert(0, nd)
    ptxt = [unparse(p.args[0]) if isinstance(p, ast.Call) and call_name(p) == 'list' else unparse(p) for p in parts]
    # values of the segments come from these lists
    src = []
    for s in segs[1:]:
        d = find_def(f, unparse(s))
        got = None
        for dd in d:
            if isinstance(dd.value, ast.ListComp) and unparse(dd.value.elt) == '%s.value' % unparse(dd.value.generators[0].target):
                got = unparse(dd.value.generators[0].iter)
        src.append(got)
    ctx.check(rule, key, ptxt == src, 'observables handed to derived_observable are (%s) = the sources of the (data | priors) segments in the same order' % ', '.join(ptxt),
              'data list is (%s) but the differentiated segments come from (%s)' % (', '.join(ptxt), ', '.join(map(str, src))), fits.loc(dc))
    mg = kwarg(dc, 'man_grad')
    loop = fits.parents.get(dc)
    while loop is not None and not isinstance(loop, ast.For):
        loop = fits.parents.get(loop)
    iv = unparse(loop.target) if loop is not None else '?'
    # `for p, g in zip(fitp, deriv_y)` is the index loop over the parameters with p = fitp[i], g = deriv_y[i] (both have n_parms rows)
    subst = {}
    zipped = False
    if loop is not None and isinstance(loop.iter, ast.Call) and call_name(loop.iter) == 'zip' and isinstance(loop.target, ast.Tuple) and len(loop.target.elts) == len(loop.iter.args) \
            and all(isinstance(x_, ast.Name) for x_ in loop.target.elts) and all(unparse(a_) in ('fitp', 'deriv_y', 'deriv_y[:n_parms]', 'fit_result.x') for a_ in loop.iter.args) \
            and any(unparse(a_) in ('fitp', 'fit_result.x') for a_ in loop.iter.args):
        iv = 'i'
        zipped = True
        subst = {x_.id: '%s[i]' % unparse(a_).replace('[:n_parms]', '').replace('fit_result.x', 'fitp') for x_, a_ in zip(loop.target.elts, loop.iter.args)}
    from .C14 import _subst as _sub14
    mg_ = _sub14(mg, subst) if mg is not None else None
    okm = mg_ is not None and unparse(mg_) in ('list(deriv_y[%s])' % iv, 'deriv_y[%s]' % iv)
    ctx.check(rule, 'fits.py:least_squares#man_grad-row', okm, 'parameter i gets row i of deriv_y', 'man_grad is %s in a loop over %s' % (unparse(mg), unparse(loop.target) if loop is not None else '?'), fits.loc(dc))
    c = carrier_check(ctx, rule5, 'fits.py:least_squares#carrier', fits, f, dc, iv)
    if c is not None:
        c_ = _sub14(c, subst)
        ctx.check(rule5, 'fits.py:least_squares#carrier-index', unparse(c_) == 'fitp[%s]' % iv, 'carrier value is fitp[i] for the same i as the gradient row', 'carrier value %s vs gradient row %s' % (unparse(c), iv), fits.loc(dc))
    okr = loop is not None and (unparse(loop.iter) in ('range(n_parms)', 'range(len(deriv_y))', 'range(len(fitp))') or zipped)      # deriv_y has one row per parameter
    ctx.check(rule, 'fits.py:least_squares#all-parameters', okr, 'one result per parameter', 'result loop runs over %s' % (unparse(loop.iter) if loop is not None else None))


def d3_bookkeeping(ctx, fits):
    rule = 'C07-D3'
    f = fits.func('least_squares')
    NY, NP, PR, CH, DOF, NC = sp.symbols('Ny n_parms n_priors chisq dof n_cov', positive=True)
    Fchi = sp.Function('chi2cdf')
    Ff = sp.Function('Fcdf')

    def atoms(node):
        t = unparse(node)
        if t in ('y_all.shape[-1]', 'len(y_all)', 'len(y_f)', 'len_y'):
            return NY
        if t == 'n_parms':
            return NP
        if t in ('len(loc_priors)', 'len(p_f)'):
            return PR
        if t in ('output.chisquare', 'chisquare'):
            return CH
        if t == 'output.dof':
            return DOF
        if t == 'n_cov':
            return NC
        if isinstance(node, ast.Call):
            d = fits.dotted(node.func) or ''
            if d == 'scipy.stats.chi2.cdf' and len(node.args) == 2:
                return Fchi(tr.tr(node.args[0]), tr.tr(node.args[1]))
            if d == 'scipy.stats.f.cdf' and len(node.args) == 3:
                return Ff(tr.tr(node.args[0]), tr.tr(node.args[1]), tr.tr(node.args[2]))
        return None
    tr = Translator(fits, atoms=atoms, free='error')
    want = {
        'dof': NY - NP + PR,
        'p_value': 1 - Fchi(CH, DOF),
        'chisquare_by_dof': CH / DOF,
        't2_p_value': 1 - Ff((NC - DOF) / (DOF * (NC - 1)) * CH, DOF, NC - DOF),
    }
    for attr, w in want.items():
        key = 'fits.py:least_squares#output.%s' % attr
        st = [s for s in statements(f) if isinstance(s, ast.Assign) and unparse(s.targets[0]) == 'output.' + attr and not (isinstance(s.value, ast.Call) and call_name(s.value) == 'float')]
        if len(st) != 1:
            ctx.unrec(rule, key, 'expected one defining assignment, found %d' % len(st))
            continue
        try:
            got = tr.tr(st[0].value)
        except Unrecognised as e:
            ctx.unrec(rule, key, str(e), fits.loc(st[0]))
            continue
        r = decide_equal(got, w, ctx.seed)
        if r is None:
            ctx.unrec(rule, key, 'undecided %s vs %s' % (got, w))
        else:
            ctx.check(rule, key, r, 'output.%s = %s' % (attr, w), 'output.%s = %s, documented %s' % (attr, got, w), fits.loc(st[0]))
    # chisquare is the residual norm at the solution
    st = [s for s in statements(f) if isinstance(s, ast.Assign) and unparse(s.targets[0]) == 'chisquare']
    vals = sorted(unparse(s.value) for s in st)
    ctx.check(rule, 'fits.py:least_squares#chisquare', vals == ['fit_result.fun', 'np.sum(fit_result.fun ** 2)'], 'chi-square = minimiser objective (scalar methods) / squared residual norm (Levenberg-Marquardt)',
              'chisquare assigned from %s' % vals)
    nc = [s for s in statements(f) if isinstance(s, ast.Assign) and unparse(s.targets[0]) == 'n_cov']
    ctx.check(rule, 'fits.py:least_squares#n_cov', len(nc) == 1 and 'np.min(' in unparse(nc[0].value) and '.N' in unparse(nc[0].value), 'n_cov = smallest sample count of the data', 'n_cov = %s' % [unparse(s.value) for s in nc])


def d4_keyorder(ctx, fits):
    rule = 'C07-D4'
    f = fits.func('least_squares')
    dicts = {'x', 'y', 'func', 'xd', 'yd', 'funcd'}
    n = 0
    bad = []
    for node in walk(f, skip_nested_defs=False):
        iters = []
        if isinstance(node, ast.For):
            iters.append((node.iter, node, False))
        elif isinstance(node, (ast.ListComp, ast.GeneratorExp, ast.SetComp)):
            iters += [(g.iter, node, False) for g in node.generators]
        elif isinstance(node, ast.DictComp):
            iters += [(g.iter, node, True) for g in node.generators]
        for it, holder, keyed in iters:
            base = it
            if isinstance(base, ast.Call) and isinstance(base.func, ast.Attribute) and base.func.attr in ('keys', 'items', 'values'):
                base = base.func.value
            if isinstance(base, ast.Call) and call_name(base) in ('list',) and base.args:
                base = base.args[0]
            if isinstance(base, ast.Name) and base.id in dicts:
                n += 1
                if not keyed:
                    bad.append((it, holder))
            elif isinstance(base, ast.Name) and base.id == 'key_ls':
                n += 1
    for it, holder in bad:
        ctx.violated(rule, 'fits.py:least_squares#iterates[%s]' % unparse(it), 'an order-sensitive traversal iterates the dictionary %s directly instead of the sorted key list: the result depends on the '
                     'insertion order of the keys' % unparse(it), fits.loc(holder))
    if not bad:
        ctx.holds(rule, 'fits.py:least_squares#dict-traversals', '%d traversals of the x/y/func dictionaries all go through the sorted key list (or build a dict)' % n)
    ctx.floor('dictionary traversals in least_squares', n, 8)
    kd = find_def(f, 'key_ls')
    ctx.check(rule, 'fits.py:least_squares#key_ls', len(kd) == 1 and unparse(kd[0].value) in ('sorted(list(xd.keys()))', 'sorted(xd.keys())', 'sorted(xd)'), 'key_ls is the sorted key list', 'key_ls = %s' % [unparse(k.value) for k in kd])
    # user supplied inverse covariance must come with the same key order
    g = [s for s in statements(f) if isinstance(s, ast.Raise) and any('chol_inv[1] != key_ls' in unparse(t) for t, pol in guards_of(fits, s, stop=f))]
    ctx.check(rule, 'fits.py:least_squares#inv-cov-keys', bool(g), 'a user supplied inverse covariance with another key order is rejected', 'no key-order test for inv_chol_cov_matrix')


def d6_chisq(ctx, fits, rule='C07-D6'):
    Y, M, DY, P, PR, DP = sp.symbols('ivars model dy p_masked prior dprior', real=True)
    L = sp.Symbol('chol_inv', commutative=False)
    for q, nd in fits.functions():
        if not q.startswith('least_squares.general_chisqfunc'):
            continue
        pn = [a.arg for a in nd.args.args]
        ret = [s for s in statements(nd) if isinstance(s, ast.Return)][0]
        parts = concat_segments(ret.value) if isinstance(ret.value, ast.Call) and call_name(ret.value) == 'concatenate' else [ret.value]

        def atoms(node):
            t = unparse(node)
            if t == pn[1]:
                return Y
            if t == 'model':
                return M
            if t == 'dy_f':
                return DY
            if t == '%s[prior_mask]' % pn[0]:
                return P
            if t == pn[2]:
                return PR
            if t == 'dp_f':
                return DP
            if isinstance(node, ast.Call) and (fits.dotted(node.func) or '').endswith('numpy.dot') and len(node.args) == 2:
                return tr.tr(node.args[0]) * tr.tr(node.args[1])
            if t == 'chol_inv':
                return L
            return None
        tr = Translator(fits, atoms=atoms, free='error', positive=False)
        # the residual must read data and priors from its arguments: a closure variable breaks the mixed derivative of the compact chi-square
        closure = [n_.id for n_ in ast.walk(ret.value) if isinstance(n_, ast.Name) and n_.id in ('y_f', 'p_f', 'y_all', 'loc_priors')]
        if closure:
            ctx.violated(rule, 'fits.py:%s#reads-arguments' % q, 'the residual reads %s from the enclosing scope instead of its argument (%s): chi-square and minimum are unchanged but the '
                         'sensitivity d(parameters)/d(data or priors) obtained from the compact chi-square loses that dependence' % (sorted(set(closure)), ', '.join(pn[1:])), fits.loc(ret))
            continue
        ctx.holds(rule, 'fits.py:%s#reads-arguments' % q, 'data and priors enter only through the arguments', fits.loc(ret))
        try:
            got = [tr.tr(p) for p in parts]
        except Unrecognised as e:
            ctx.unrec(rule, 'fits.py:%s#residual' % q, str(e), fits.loc(ret))
            continue
        corr = 'chol_inv' in unparse(ret.value)
        want0 = L * (Y - M) if corr else (Y - M) / DY
        ok0 = sp.simplify(sp.expand(got[0] - want0)) == 0
        ctx.check(rule, 'fits.py:%s#data-residual' % q, ok0, 'data rows = %s' % want0, 'data residual is %s, defined as %s' % (got[0], want0), fits.loc(ret))
        if len(got) > 1:
            ok1 = sp.simplify(got[1] - (P - PR) / DP) == 0
            ctx.check(rule, 'fits.py:%s#prior-rows' % q, ok1, 'prior rows = (p[mask] - prior)/dprior', 'prior residual is %s' % got[1], fits.loc(ret))
        # model built through the sorted key list in the order of y_all
        md = [s for s in statements(nd) if isinstance(s, ast.Assign) and unparse(s.targets[0]) == 'model']
        okm = len(md) == 1 and 'for key in key_ls' in unparse(md[0].value) and 'funcd[key](%s, xd[key])' % pn[0] in unparse(md[0].value)
        ctx.check(rule, 'fits.py:%s#model' % q, okm, 'model = concatenation over sorted keys of func[key](p, x[key])', 'model = %s' % [unparse(m.value) for m in md], fits.loc(ret))
    f = fits.func('least_squares')
    ya = find_def(f, 'y_all')
    ctx.check(rule, 'fits.py:least_squares#y_all', len(ya) == 1 and 'for key in key_ls' in unparse(ya[0].value) and 'yd[key]' in unparse(ya[0].value), 'data vector = concatenation over sorted keys', 'y_all = %s' % [unparse(s.value) for s in ya])
    for q in ('least_squares.chisqfunc', 'least_squares.chisqfunc_uncorr'):
        nd = fits.func(q)
        ret = [s for s in statements(nd) if isinstance(s, ast.Return)][0]
        t = unparse(ret.value)
        ok = t.startswith('anp.sum(general_chisqfunc') and t.endswith('** 2)') and '(p, y_f, p_f)' in t
        ctx.check(rule, 'fits.py:%s#sum-of-squares' % q, ok, 'chi-square = sum of squared residual rows at (p, y_f, p_f)', 'chi-square is %s' % t, fits.loc(ret))
    ctx.floor('chi-square residual definitions', sum(1 for o in ctx.obs if o.rule == rule), 9)


def d9_priors(ctx, fits):
    rule = 'C07-D9'
    f = fits.func('least_squares')
    t = fits.text(f)
    # list form: one prior per parameter, mask = all positions in order
    ok = 'loc_priors.append(_construct_prior_obs(i_prior, i_n))' in t and 'for i_n, i_prior in enumerate(priors):' in t and 'prior_mask = np.arange(len(priors))' in t
    ctx.check(rule, 'fits.py:least_squares#priors-list', ok, 'list priors: prior k constrains parameter k', 'list prior handling differs')
    g = [unparse(guards_of(fits, s_, stop=f)[-1][0]) for s_ in statements(f) if isinstance(s_, ast.Raise) and guards_of(fits, s_, stop=f)]
    ctx.check(rule, 'fits.py:least_squares#priors-length', 'n_parms != len(priors)' in g, 'a prior list of the wrong length is rejected', 'guards %s' % [x for x in g if 'prior' in x])
    # dict form: position and prior appended in the same iteration
    lp = [s_ for s_ in statements(f) if isinstance(s_, ast.For) and unparse(s_.iter) == 'priors.items()']
    ok = False
    if len(lp) == 1 and isinstance(lp[0].target, ast.Tuple):
        pos, pr = [unparse(e) for e in lp[0].target.elts]
        body = ' ; '.join(unparse(x) for x in lp[0].body)
        ok = 'prior_mask.append(%s)' % pos in body and 'loc_priors.append(_construct_prior_obs(%s, %s))' % (pr, pos) in body
    ctx.check(rule, 'fits.py:least_squares#priors-dict', ok, 'dict priors: position and prior are appended in the same iteration', 'dict prior handling differs')
    ctx.check(rule, 'fits.py:least_squares#priors-range', 'max(prior_mask) >= n_parms' in g, 'prior positions outside the parameter range are rejected', 'guards %s' % [x for x in g if 'prior' in x])
    pf, dpf = find_def(f, 'p_f'), find_def(f, 'dp_f')
    ok = any(unparse(s_.value) == '[o.value for o in loc_priors]' for s_ in pf) and any(unparse(s_.value) == '[o.dvalue for o in loc_priors]' for s_ in dpf)
    ctx.check(rule, 'fits.py:least_squares#prior-values', ok, 'prior central values and errors in the order of loc_priors', 'p_f / dp_f differ')
    c = fits.func('_construct_prior_obs')
    t = fits.text(c)
    ok = 'isinstance(i_prior, Obs)' in t and 'return i_prior' in t and 'isinstance(i_prior, str)' in t and "raise TypeError($$A)" in t
    ctx.check(rule, 'fits.py:_construct_prior_obs#dispatch', ok, 'Obs priors are used as they are, strings are parsed, anything else is rejected', 'prior construction differs')
    # no priors: empty vectors, the chi-square has no prior rows
    t = fits.text(f)
    ok = 'p_f = dp_f = np.array([])' in t and 'prior_mask = []' in t and 'loc_priors = []' in t
    ctx.check(rule, 'fits.py:least_squares#no-priors', ok, 'without priors all prior vectors are empty', 'no-prior defaults differ')


def d10_objectives(ctx, fits):
    """every minimiser branch: stage 1 minimises the uncorrelated objective from the initial guess; for correlated fits a second stage
    minimises the correlated objective starting from the stage-1 solution (sibling rule over migrad / scipy.minimize / Levenberg-Marquardt)"""
    rule = 'C07-D10'
    f = fits.func('least_squares')
    calls = []
    for c in walk(f):
        if isinstance(c, ast.Call):
            d = fits.dotted(c.func) or ''
            if d in ('iminuit.minimize', 'scipy.optimize.minimize', 'scipy.optimize.least_squares') and len(c.args) >= 2:
                calls.append((d, c))
    ctx.floor('minimiser calls in least_squares', len(calls), 6)

    def objective_kind(e):
        """'corr' / 'uncorr' for the objective expression"""
        if not isinstance(e, ast.Name):
            return None
        nm = e.id
        if nm in ('chisqfunc_uncorr',):
            return 'uncorr'
        if nm == 'chisqfunc':
            return 'corr'          # bound to the correlated cost function inside the correlated branch (alias of the uncorrelated one otherwise)
        for q, nd in fits.functions():
            if q == 'least_squares.' + nm:
                body = unparse(nd)
                if 'general_chisqfunc_uncorr(' in body:
                    return 'uncorr'
                if 'general_chisqfunc(' in body:
                    return 'corr'
        return None
    per_branch = {}
    for d, c in calls:
        corr_guard = any(pol and unparse(t) == "kwargs.get('correlated_fit') is True" for t, pol in guards_of(fits, c, stop=f))
        kind = objective_kind(c.args[0])
        start = unparse(c.args[1])
        key = 'fits.py:least_squares#%s[%s]' % (d.split('.', 1)[-1], 'refinement for correlated fits' if corr_guard else 'first stage')
        per_branch.setdefault(d, []).append(corr_guard)
        if kind is None:
            ctx.unrec(rule, key, 'cannot classify the objective %s' % unparse(c.args[0]), fits.loc(c))
            continue
        if corr_guard:
            ctx.check(rule, key, kind == 'corr' and start == 'fit_result.x', 'correlated fits are refined with the correlated chi-square, starting from the first-stage solution',
                      'under correlated_fit the minimiser %s is given the %s objective `%s` (start %s): the returned parameters do not minimise the correlated chi-square' % (
                          d, 'uncorrelated' if kind == 'uncorr' else kind, unparse(c.args[0]), start), fits.loc(c))
        else:
            ctx.check(rule, key, kind == 'uncorr' and start == 'x0', 'first stage: uncorrelated chi-square from the initial guess', 'first stage uses %s from %s' % (unparse(c.args[0]), start), fits.loc(c))
    for d, gs in per_branch.items():
        ctx.check(rule, 'fits.py:least_squares#%s-two-stages' % d.split('.', 1)[-1], sorted(gs) == [False, True], 'has a first stage and a correlated refinement', 'stages found: %s' % gs)
    # the alias in the uncorrelated case and the definitions in the correlated case
    al = [s_ for s_ in statements(f) if isinstance(s_, ast.Assign) and unparse(s_.targets[0]) in ('chisqfunc', 'general_chisqfunc') and isinstance(s_.value, ast.Name)]
    vals = sorted((unparse(s_.targets[0]), s_.value.id) for s_ in al)
    okg = all(any((not pol) and unparse(t) == "kwargs.get('correlated_fit') is True" for t, pol in guards_of(fits, s_, stop=f)) for s_ in al)
    ctx.check(rule, 'fits.py:least_squares#uncorrelated-alias', vals == [('chisqfunc', 'chisqfunc_uncorr'), ('general_chisqfunc', 'general_chisqfunc_uncorr')] and okg,
              'without correlated_fit the generic names are aliases of the uncorrelated functions', 'aliases %s' % vals)
    # the reported chi-square is that of the last minimisation
    cs = [s_ for s_ in statements(f) if isinstance(s_, ast.Assign) and unparse(s_.targets[0]) == 'chisquare']

    def lm_branch(node):
        for t, pol in guards_of(fits, node, stop=f):
            if 'Levenberg-Marquardt' in unparse(t):
                return pol
        return None
    ok = bool(cs)
    for s_ in cs:
        same = [c for d, c in calls if lm_branch(c) == lm_branch(s_)]
        if not same or s_.lineno <= max(c.lineno for c in same):
            ok = False
    ctx.check(rule, 'fits.py:least_squares#chisquare-after-refinement', ok, 'chi-square is taken from the final minimisation of its branch', 'chisquare is read before the refinement')


def d12_no_reanalysis(ctx, fits):
    """the weights of a fit are the errors the caller determined: no fitting function runs the error analysis of an input (that
    would replace the caller's analysis parameters by the defaults and modify the caller's objects); only Fit_result.gamma_method
    analyses anything, namely the fit parameters it owns"""
    rule = 'C07-D9'
    n = 0
    for q, f in fits.functions():
        for c in walk(f):
            if isinstance(c, ast.Call) and isinstance(c.func, ast.Attribute) and c.func.attr in ('gamma_method', 'gm') and fits.enclosing_func(c) is f:
                n += 1
                own = q.startswith('Fit_result.') and 'self.fit_parameters' in unparse(fits.parents.get(c, c)) or q.startswith('Fit_result.')
                ctx.check(rule, 'fits.py:%s#reanalysis[%s]' % (q, unparse(c.func.value)[:30]), bool(own), 'Fit_result analyses its own parameters',
                          '%s calls %s: the input is re-analysed with default parameters inside the fit (its error - the weight of that point - changes and the caller\'s object is modified)' % (q, unparse(c)), fits.loc(c))
    ctx.floor('error-analysis calls in fits.py (canary: Fit_result.gamma_method)', n, 1)


def explicit_range_wins(ctx, rule, cm, qual, param):
    """the stored prange is only a default: every assignment `<param> = self.prange` is reachable only when the caller gave no range"""
    from ..srcmodel import established_false
    f = cm.func(qual)

    def mentions_prange(v):
        if 'self.prange' in unparse(v):
            return True
        for y in walk(v):       # through a local that only holds self.prange
            if isinstance(y, ast.Name):
                d_ = find_def(f, y.id)
                if len(d_) == 1 and unparse(d_[0].value) == 'self.prange':
                    return True
        return False
    st = [s_ for s_ in statements(f) if isinstance(s_, ast.Assign) and unparse(s_.targets[0]) == param and mentions_prange(s_.value) and not isinstance(s_.value, ast.BoolOp)]
    boolop = [s_ for s_ in statements(f) if isinstance(s_, ast.Assign) and unparse(s_.targets[0]) == param and isinstance(s_.value, ast.BoolOp) and mentions_prange(s_.value)]
    for s_ in boolop:
        first = unparse(s_.value.values[0])
        ctx.check(rule, 'correlators.py:%s#explicit-range-wins' % qual, first == param and isinstance(s_.value.op, ast.Or), 'explicit range first, stored range as fallback',
                  '`%s`: the stored prange overrides an explicitly passed range' % unparse(s_), cm.loc(s_))
    for s_ in st:
        pos = [unparse(t) for t, pol in guards_of(cm, s_, stop=f) if pol]
        neg = [unparse(t) for t, pol in guards_of(cm, s_, stop=f) if not pol] + [unparse(t) for t in established_false(cm, f, s_)]
        ok = any(x in ('%s is None' % param, 'not %s' % param) for x in pos) or any(x in ('%s is not None' % param, param) for x in neg)
        ctx.check(rule, 'correlators.py:%s#explicit-range-wins' % qual, ok, 'the stored prange is used only when no range was passed',
                  '`%s = self.prange` is reached under %s / not %s: a stored prange overrides the range the caller passed' % (param, pos, neg), cm.loc(s_))
    return len(st) + len(boolop)


def d7_corrfit(ctx):
    rule = 'C07-D7'
    cm = ctx.repo.mod('correlators')
    f = cm.func('Corr.fit')
    n_ = explicit_range_wins(ctx, rule, cm, 'Corr.fit', 'fitrange')
    ctx.floor('default range assignments in Corr.fit', n_, 1)
    # the range is the caller's list or the stored prange: it is read, never updated in place
    muts = [s_ for s_ in statements(f) if (isinstance(s_, ast.AugAssign) and isinstance(s_.target, ast.Subscript) and unparse(s_.target.value) in ('fitrange', 'self.prange'))
            or (isinstance(s_, ast.Assign) and any(isinstance(t_, ast.Subscript) and unparse(t_.value) in ('fitrange', 'self.prange') for t_ in s_.targets))
            or (isinstance(s_, ast.Expr) and isinstance(s_.value, ast.Call) and isinstance(s_.value.func, ast.Attribute) and unparse(s_.value.func.value) in ('fitrange', 'self.prange')
                and s_.value.func.attr in ('append', 'extend', 'insert', 'pop', 'remove', 'reverse', 'sort', 'clear'))]
    ctx.check(rule, 'correlators.py:Corr.fit#range-not-modified', not muts, 'the fit range is only read',
              '`%s` changes the list of the caller (or the stored prange) in place: every later fit through the same list uses a different range' % (unparse(muts[0]) if muts else ''), cm.loc(muts[0]) if muts else None)
    xs, ys = find_def(f, 'xs'), find_def(f, 'ys')
    if len(xs) != 1 or len(ys) != 1:
        ctx.unrec(rule, 'correlators.py:Corr.fit#xs-ys', 'xs / ys definitions not found')
        return
    cx = [n for n in walk(xs[0].value) if isinstance(n, ast.ListComp)]
    cy = [n for n in walk(ys[0].value) if isinstance(n, ast.ListComp)]
    if len(cy) == 1 and len(cx) == 0 and any(isinstance(n, ast.Call) and call_name(n) in ('arange', 'range', 'linspace') for n in walk(xs[0].value)):
        # y is selected by a filter but x is generated independently of it
        ctx.violated(rule, 'correlators.py:Corr.fit#same-selection', 'the abscissae are generated as `%s` while the ordinates skip undefined timeslices (%s): with an undefined slice inside the '
                     'fit range the points are paired with the wrong t' % (unparse(xs[0].value), [unparse(i) for i in cy[0].generators[0].ifs]), cm.loc(xs[0]))
        return
    if len(cx) != 1 or len(cy) != 1:
        ctx.unrec(rule, 'correlators.py:Corr.fit#xs-ys', 'comprehensions not found')
        return
    gx, gy = cx[0].generators[0], cy[0].generators[0]
    same = unparse(gx.iter) == unparse(gy.iter) and [unparse(i) for i in gx.ifs] == [unparse(i) for i in gy.ifs] and unparse(gx.target) == unparse(gy.target)
    ctx.check(rule, 'correlators.py:Corr.fit#same-selection', same, 'x and y are selected by the same range and the same defined-slice filter', 'x from %s if %s ; y from %s if %s' % (
        unparse(gx.iter), [unparse(i) for i in gx.ifs], unparse(gy.iter), [unparse(i) for i in gy.ifs]), cm.loc(xs[0]))
    it = gx.iter
    oki = isinstance(it, ast.Call) and call_name(it) == 'range' and len(it.args) == 2 and unparse(it.args[0]) == 'fitrange[0]' and unparse(it.args[1]) == 'fitrange[1] + 1'
    ctx.check(rule, 'correlators.py:Corr.fit#inclusive-range', oki, 'fit range is inclusive [start, stop]', 'range is %s' % unparse(it), cm.loc(xs[0]))
    okf = len(gx.ifs) == 1 and unparse(gx.ifs[0]) == 'self.content[%s] is not None' % unparse(gx.target)
    ctx.check(rule, 'correlators.py:Corr.fit#filter', okf, 'undefined slices are skipped', 'filter is %s' % [unparse(i) for i in gx.ifs], cm.loc(xs[0]))
    oke = unparse(cx[0].elt) == unparse(gx.target) and unparse(cy[0].elt) == 'self.content[%s][0]' % unparse(gy.target)
    ctx.check(rule, 'correlators.py:Corr.fit#elements', oke, 'x = timeslice index, y = the observable at that timeslice', 'elements %s / %s' % (unparse(cx[0].elt), unparse(cy[0].elt)), cm.loc(xs[0]))


def d13_points_in_given_order(ctx, fits, rule='C07-D7'):
    """the data points enter the fit in the order they are given: x, y and the optional whitening matrix of the caller are index-aligned,
    so re-ordering x and y inside least_squares (sorting by abscissa) mis-aligns a supplied inv_chol_cov_matrix"""
    f = fits.func('least_squares')
    params = [a.arg for a in f.args.args][:2]
    sorts = []
    for c in walk(f):
        if isinstance(c, ast.Call):
            nm = (fits.dotted(c.func) or call_name(c) or '').rpartition('.')[2]
            if nm in ('argsort', 'lexsort', 'sort', 'sorted') and c.args and any(isinstance(y, ast.Name) and y.id in params for y in ast.walk(c.args[0])):
                sorts.append(c)
            if isinstance(c.func, ast.Attribute) and c.func.attr in ('sort', 'argsort') and any(isinstance(y, ast.Name) and y.id in params for y in ast.walk(c.func.value)):
                sorts.append(c)
    realigned = any("inv_chol_cov_matrix" in unparse(s_) and ('ix_' in unparse(s_) or '[order' in unparse(s_)) for s_ in statements(f))
    ctx.check(rule, 'fits.py:least_squares#points-in-given-order', not sorts or realigned, 'abscissae and ordinates are used in the order given (aligned with a supplied inv_chol_cov_matrix)',
              'the data points are re-ordered by `%s` while a supplied inv_chol_cov_matrix stays in the order of the caller: the whitening matrix is applied to the wrong points' % (unparse(sorts[0]) if sorts else ''),
              fits.loc(sorts[0]) if sorts else None)


def run(ctx):
    from . import C19 as _C19
    ctx.rule('C07-D9' if False else 'C07-D19', 'prior strings value(error) are read exactly (shared evaluation with C19-D2)')
    ctx.guarded('C07-D19', 'fits.py:_extract_val_and_dval', _C19.d2_prior, ctx, 'C07-D19')
    ctx.rule('C07-D1', 'layout agreement (concat | slices | Hessian block | data list | gradient row)')
    ctx.rule('C07-D2', 'implicit-function sign and Hessian')
    ctx.rule('C07-D3', 'dof, p-value, chisquare/dof, Hotelling')
    ctx.rule('C07-D4', 'sorted-key traversal only')
    ctx.rule('C07-D5', 'value carrier')
    ctx.rule('C07-D6', 'chi-square residual definitions')
    ctx.rule('C07-D7', 'Corr.fit selection')
    ctx.not_decided += ['that the minimiser finds the GLS solution', 'equality of fluctuations with (A^T W A)^-1 A^T W y', 'agreement between minimisers / differentiation modes']
    fits = ctx.repo.mod('fits')
    ctx.guarded('C07-D7', 'fits.py:least_squares@point-order', d13_points_in_given_order, ctx, fits)
    ctx.guarded('C07-D1', 'fits.py:least_squares@layout', d1_layout, ctx, fits)
    ctx.guarded('C07-D3', 'fits.py:least_squares@bookkeeping', d3_bookkeeping, ctx, fits)
    ctx.guarded('C07-D4', 'fits.py:least_squares@keyorder', d4_keyorder, ctx, fits)
    ctx.guarded('C07-D6', 'fits.py:least_squares@chisq', d6_chisq, ctx, fits)
    ctx.rule('C07-D8', 'no hidden state shared between fits')
    ctx.guarded('C07-D8', 'fits@hidden-state', hiddenstate.check, ctx, 'C07-D8', fits, [q for q, _ in fits.functions() if '.' not in q], 'the fit result')
    ctx.guarded('C07-D7', 'correlators.py:Corr.fit', d7_corrfit, ctx)
    ctx.guarded('C07-D9', 'fits.py@no-reanalysis', d12_no_reanalysis, ctx, fits)
    ctx.rule('C07-D9', 'prior bookkeeping (positions, order, validation)')
    ctx.guarded('C07-D9', 'fits.py:least_squares@priors', d9_priors, ctx, fits)
    from . import C19
    ctx.guarded('C07-D9', 'fits.py:_extract_val_and_dval', C19.d2_prior, ctx, 'C07-D9')
    ctx.rule('C07-D10', 'minimiser objectives: uncorrelated first stage, correlated refinement (sibling rule)')
    ctx.guarded('C07-D10', 'fits.py:least_squares@objectives', d10_objectives, ctx, fits)
    from .. import unusedparams, leakedloop
    ctx.rule('C07-D11', 'every accepted option is read (no silently ignored parameter); no loop variable read after its loop')
    for mn_ in ('fits',):
        ctx.guarded('C07-D11', mn_ + '@parameters', unusedparams.check, ctx, 'C07-D11', ctx.repo.mod(mn_))
        ctx.guarded('C07-D11', mn_ + '@loop-variables', leakedloop.check, ctx, 'C07-D11', ctx.repo.mod(mn_))



SELFTEST = [
    ('points-sorted-by-x', 'pyerrors/fits.py', '        x = np.asarray(x)\n        xd = {"": x}\n', '        x = np.asarray(x)\n        order = np.argsort(x, kind=\'stable\')\n        x = x[order]\n        y = [y[i] for i in order]\n        xd = {"": x}\n', 'C07-D7'),
    ('prior-reanalysed', 'pyerrors/fits.py', "    if isinstance(i_prior, Obs):\n        return i_prior", "    if isinstance(i_prior, Obs):\n        i_prior.gm()\n        return i_prior", 'C07-D9'),
    ('corr-fit-x-from-count', 'pyerrors/correlators.py', "        xs = np.array([x for x in range(fitrange[0], fitrange[1] + 1) if self.content[x] is not None])", "        xs = np.arange(fitrange[0], fitrange[1] + 1)", 'C07-D7'),
    ('block-rows-all', 'pyerrors/fits.py', "deriv_y = -scipy.linalg.solve(hess, jac_jac_y[:n_parms, n_parms:])", "deriv_y = -scipy.linalg.solve(hess, jac_jac_y[:n_parms, :-n_parms])", 'C07-D1'),
    ('block-short', 'pyerrors/fits.py', "deriv_y = -scipy.linalg.solve(hess, jac_jac_y[:n_parms, n_parms:])", "deriv_y = -scipy.linalg.solve(hess, jac_jac_y[:n_parms, n_parms + 1:])", 'C07-D1'),
    ('ift-pinv', 'pyerrors/fits.py', "deriv_y = -scipy.linalg.solve(hess, jac_jac_y[:n_parms, n_parms:])", "deriv_y = -np.linalg.pinv(hess, hermitian=True) @ jac_jac_y[:n_parms, n_parms:]", 'C07-D2'),
    ('ift-sign', 'pyerrors/fits.py', "deriv_y = -scipy.linalg.solve(hess, jac_jac_y[:n_parms, n_parms:])", "deriv_y = scipy.linalg.solve(hess, jac_jac_y[:n_parms, n_parms:])", 'C07-D2'),
    ('concat-order', 'pyerrors/fits.py', "hessian(chisqfunc_compact)(np.concatenate((fitp, y_f, p_f)))", "hessian(chisqfunc_compact)(np.concatenate((fitp, p_f, y_f)))", 'C07-D1'),
    ('compact-slices', 'pyerrors/fits.py', "general_chisqfunc(d[:n_parms], d[n_parms: n_parms + len_y], d[n_parms + len_y:])", "general_chisqfunc(d[:n_parms], d[n_parms: n_parms + len_y], d[n_parms + len_y - 1:])", 'C07-D1'),
    ('data-list-order', 'pyerrors/fits.py', "list(y_all) + loc_priors, man_grad=list(deriv_y[i])", "loc_priors + list(y_all), man_grad=list(deriv_y[i])", None),
    ('dof-no-priors', 'pyerrors/fits.py', "output.dof = y_all.shape[-1] - n_parms + len(loc_priors)", "output.dof = y_all.shape[-1] - n_parms", 'C07-D3'),
    ('pvalue-cdf', 'pyerrors/fits.py', "output.p_value = 1 - scipy.stats.chi2.cdf(output.chisquare, output.dof)\n    if output.dof > 0:", "output.p_value = scipy.stats.chi2.cdf(output.chisquare, output.dof)\n    if output.dof > 0:", 'C07-D3'),
    ('hotelling', 'pyerrors/fits.py', "(n_cov - output.dof) / (output.dof * (n_cov - 1)) * output.chisquare", "(n_cov - output.dof) / (output.dof * n_cov) * output.chisquare", 'C07-D3'),
    ('dict-iteration', 'pyerrors/fits.py', "y_all = np.concatenate([np.array(yd[key]) for key in key_ls])", "y_all = np.concatenate([np.array(yd[key]) for key in yd])", 'C07-D4'),
    ('carrier-wrong-element', 'pyerrors/fits.py', "(y_all[0].value + np.finfo(np.float64).eps) * fitp[i]", "(y_all[1].value + np.finfo(np.float64).eps) * fitp[i]", 'C07-D5'),
    ('carrier-wrong-index', 'pyerrors/fits.py', "(y_all[0].value + np.finfo(np.float64).eps) * fitp[i], list(y_all) + loc_priors, man_grad=list(deriv_y[i])", "(y_all[0].value + np.finfo(np.float64).eps) * fitp[i], list(y_all) + loc_priors, man_grad=list(deriv_y[0])", 'C07-D1'),
    ('prior-sign', 'pyerrors/fits.py', "            return anp.concatenate(((ivars - model) / dy_f, (p[prior_mask] - pr) / dp_f))", "            return anp.concatenate(((ivars - model) / dy_f, (p[prior_mask] - pr) / dp_f ** 2))", 'C07-D6'),
    ('corr-residual-unwhitened', 'pyerrors/fits.py', "anp.concatenate((anp.dot(chol_inv, (ivars - model)), (p[prior_mask] - pr) / dp_f))", "anp.concatenate((anp.dot(chol_inv, (ivars - model)) / dy_f, (p[prior_mask] - pr) / dp_f))", 'C07-D6'),
    ('corrfit-range', 'pyerrors/correlators.py', "xs = np.array([x for x in range(fitrange[0], fitrange[1] + 1) if self.content[x] is not None])", "xs = np.array([x for x in range(fitrange[0], fitrange[1]) if self.content[x] is not None])", 'C07-D7'),
    ('compact-closure-data', 'pyerrors/fits.py', "general_chisqfunc(d[:n_parms], d[n_parms: n_parms + len_y], d[n_parms + len_y:])", "general_chisqfunc(d[:n_parms], y_f, d[n_parms + len_y:])", 'C07-D1'),
    ('prior-mask-shift', 'pyerrors/fits.py', "            prior_mask = np.arange(len(priors))", "            prior_mask = np.arange(1, len(priors) + 1) % len(priors)", 'C07-D9'),
    ('prior-range-check', 'pyerrors/fits.py', "            if max(prior_mask) >= n_parms:", "            if max(prior_mask) > n_parms:", 'C07-D9'),
    ('scipy-refinement-uncorr', 'pyerrors/fits.py', "fit_result = scipy.optimize.minimize(chisqfunc, fit_result.x, method=kwargs.get('method'), tol=tolerance)", "fit_result = scipy.optimize.minimize(chisqfunc_uncorr, fit_result.x, method=kwargs.get('method'), tol=tolerance)", 'C07-D10'),
    ('lm-refinement-restart', 'pyerrors/fits.py', "fit_result = scipy.optimize.least_squares(chisqfunc_residuals, fit_result.x, method='lm'", "fit_result = scipy.optimize.least_squares(chisqfunc_residuals_uncorr, fit_result.x, method='lm'", 'C07-D10'),
    ('residual-closure-prior', 'pyerrors/fits.py', "anp.concatenate((anp.dot(chol_inv, (ivars - model)), (p[prior_mask] - pr) / dp_f))", "anp.concatenate((anp.dot(chol_inv, (ivars - model)), (p[prior_mask] - p_f) / dp_f))", 'C07-D6'),
    ('benign-dof-reorder', 'pyerrors/fits.py', "output.dof = y_all.shape[-1] - n_parms + len(loc_priors)", "output.dof = len(loc_priors) + y_all.shape[-1] - n_parms", 'BENIGN'),
]
