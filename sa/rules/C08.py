"""C08  Non-linear and total least-squares fits obey the implicit-function rule.

Decides only (total_least_squares, fit_lin):
  D1 layout agreement of both implicit-function steps: concatenations (fitp | xplus | x_f) and (fitp | xplus | y_f), the slices in the
     two compact chi-squares, the Hessian blocks [:n+m, n+m:], the gradient rows, the data list (x.ravel() | y)
  D2 sign / Hessian of the implicit-function rule
  D3 the chi-square has the x-residual term and all three chi-square functions are the same function of (p, x+, x, y)
  D4 value carrier, dof, p-value
  D5 fit_lin dispatch
"""
import ast

import sympy as sp

from ..srcmodel import Unrecognised, unparse, call_name, kwarg, walk, statements, guards_of, const
from ..layout import sx, slice_bounds, concat_segments, check_partition, strip_ravel
from ..symx import Translator, decide_equal
from .C07 import find_def, carrier_check

LEVEL = 'other'
EXPLANATION = ('layout agreement between concatenated argument vectors, slices, mixed-Hessian blocks, gradient rows and the data list of total_least_squares; '
               'symbolic comparison of the three chi-square definitions; dispatch table of fit_lin')
LEVEL_TEXT = ('decides only structural necessary conditions of the implicit-function propagation in total_least_squares: consistent (parameters | fitted x | data) layout in both '
              'mixed Hessians, negative sign, identical chi-square (incl. x-residual term) in the plain and the two compact forms, gradient = x-row + y-row against data (x | y), '
              'value carrier, dof/p-value, fit_lin dispatch. Stationarity of the ODR solution is numerical and not decided.')
TECHNIQUE = 'layout/slice partition analysis with symbolic bounds; sympy comparison of chi-square definitions under the slice substitution'


def chisq_term(fits, nd, env, roles):
    """Translate the chi-square returned by `nd` into sympy over role symbols.
    roles: dict slice-text -> role symbol, plus names."""
    P, XP, XF, YF, DX, DY = sp.symbols('P XP XF YF DX DY', real=True)
    F = sp.Function('model')
    loc = {}
    for s in statements(nd):
        if isinstance(s, ast.Assign) and isinstance(s.targets[0], ast.Name):
            loc[s.targets[0].id] = s.value
    ret = [s for s in statements(nd) if isinstance(s, ast.Return)][0]

    def atoms(node):
        t = unparse(strip_ravel(node)) if isinstance(node, ast.Call) else unparse(node)
        if t in roles:
            return roles[t]
        if isinstance(node, ast.Call) and isinstance(node.func, ast.Attribute) and node.func.attr in ('reshape', 'ravel'):
            return tr.tr(node.func.value)
        if isinstance(node, ast.Name) and node.id in loc:
            return tr.tr(loc[node.id])
        if t == 'x_f':
            return XF
        if t == 'y_f':
            return YF
        if t == 'dx_f':
            return DX
        if t == 'dy_f':
            return DY
        if isinstance(node, ast.Call) and unparse(node.func) == 'func' and len(node.args) == 2:
            return F(tr.tr(node.args[0]), tr.tr(node.args[1]))
        if isinstance(node, ast.Call) and (fits.dotted(node.func) or '') in ('autograd.numpy.sum', 'numpy.sum') and len(node.args) == 1:
            return tr.tr(node.args[0])     # elementwise representative
        return None
    tr = Translator(fits, atoms=atoms, free='error', positive=False)
    return tr.tr(ret.value), (P, XP, XF, YF, DX, DY, F)


def d_layout(ctx, fits):
    rule = 'C08-D1'
    f = fits.func('total_least_squares')
    env = {}
    n = sx(ast.Name(id='n_parms'), env)
    m = sx(ast.Name(id='m'), env)
    P, XP, XF, YF, DX, DY = sp.symbols('P XP XF YF DX DY', real=True)
    F = sp.Function('model')
    ref_chi = (YF - F(P, XP)) ** 2 / DY ** 2 + (XF - XP) ** 2 / DX ** 2
    md = find_def(f, 'm')
    ctx.check(rule, 'fits.py:total_least_squares#m', len(md) == 1 and unparse(md[0].value) == 'x_f.size', 'm = number of x values', 'm = %s' % [unparse(s.value) for s in md])
    # plain chi-square
    plain = fits.func('total_least_squares.odr_chisquare')
    pa = plain.args.args[0].arg
    roles = {}
    for sub in walk(plain):
        if isinstance(sub, ast.Subscript) and isinstance(sub.slice, ast.Slice) and unparse(sub.value) == pa:
            nm, lo, hi = slice_bounds(sub, env)
            if lo == 0 and hi is not None and sp.simplify(hi - n) == 0:
                roles[unparse(sub)] = P
            elif sp.simplify(lo - n) == 0 and hi is None:
                roles[unparse(sub)] = XP
            else:
                ctx.violated('C08-D3', 'fits.py:total_least_squares.odr_chisquare#slices', 'slice %s is neither the parameter block [:n_parms] nor the fitted-x block [n_parms:]' % unparse(sub), fits.loc(sub))
    try:
        got, _ = chisq_term(fits, plain, env, roles)
        r = decide_equal(got, ref_chi, ctx.seed)
        ctx.check('C08-D3', 'fits.py:total_least_squares.odr_chisquare#definition', bool(r), 'chi2 = sum((y-f(p,x+))/dy)^2 + sum((x-x+)/dx)^2 (x-residual term present)',
                  'chi-square is %s, documented %s' % (got, ref_chi), fits.loc(plain))
    except Unrecognised as e:
        ctx.unrec('C08-D3', 'fits.py:total_least_squares.odr_chisquare#definition', str(e))
    hp = [c for c in walk(f) if isinstance(c, ast.Call) and isinstance(c.func, ast.Call) and unparse(c.func.func) == 'hessian' and unparse(c.func.args[0]) == 'odr_chisquare']
    okh = len(hp) == 1 and [unparse(strip_ravel(s)) for s in concat_segments(hp[0].args[0])] == ['fitp', 'out.xplus']
    ctx.check('C08-D2', 'fits.py:total_least_squares#hessian', okh, 'H = hessian(chi2)(fitp | xplus)', 'H evaluated at %s' % ([unparse(a) for a in hp[0].args] if hp else None))

    for which, third, role3 in (('x', 'x_f', XF), ('y', 'y_f', YF)):
        cq = 'total_least_squares.odr_chisquare_compact_%s' % which
        if not fits.has_func(cq):
            ctx.unrec(rule, 'fits.py:%s' % cq, 'compact chi-square not found')
            continue
        cf = fits.func(cq)
        d = cf.args.args[0].arg
        roles = {}
        okparts = True
        for sub in walk(cf):
            if isinstance(sub, ast.Subscript) and isinstance(sub.slice, ast.Slice) and unparse(sub.value) == d:
                nm, lo, hi = slice_bounds(sub, env)
                if lo == 0 and hi is not None and sp.simplify(hi - n) == 0:
                    roles[unparse(sub)] = P
                elif sp.simplify(lo - n) == 0 and hi is not None and sp.simplify(hi - n - m) == 0:
                    roles[unparse(sub)] = XP
                elif sp.simplify(lo - n - m) == 0 and hi is None:
                    roles[unparse(sub)] = role3
                else:
                    okparts = False
                    ctx.violated(rule, 'fits.py:%s#slices' % cq, 'slice %s does not match a segment of (n_parms | m | rest)' % unparse(sub), fits.loc(sub))
        if okparts:
            ctx.holds(rule, 'fits.py:%s#slices' % cq, 'slices are the segments [0,n) [n,n+m) [n+m,end)', fits.loc(cf))
        uses_closure = [nd_ for nd_ in walk(cf) if isinstance(nd_, ast.Name) and nd_.id == third]
        ctx.check('C08-D3', 'fits.py:%s#differentiated-data' % cq, role3 in roles.values() and not uses_closure,
                  'the %s data enter only through the third segment of the argument vector (so the mixed Hessian sees them)' % which,
                  'the compact chi-square reads %s from the enclosing scope%s: its derivative with respect to the %s data is lost' % (
                      third, '' if role3 in roles.values() else ' and never uses the third segment', which), fits.loc(cf))
        # concat handed to hessian
        hc = [c for c in walk(f) if isinstance(c, ast.Call) and isinstance(c.func, ast.Call) and unparse(c.func.func) == 'hessian' and unparse(c.func.args[0]) == cf.name]
        if len(hc) != 1:
            ctx.unrec(rule, 'fits.py:total_least_squares#hessian-compact-%s' % which, 'hessian(%s)(...) not found' % cf.name)
            continue
        segs = [unparse(strip_ravel(s)) for s in concat_segments(hc[0].args[0])]
        fp_ = find_def(f, 'fitp')
        if len(fp_) == 1 and unparse(fp_[0].value) == 'out.beta':
            segs = ['fitp' if x_ == 'out.beta' else x_ for x_ in segs]          # fitp is out.beta
        ctx.check(rule, 'fits.py:total_least_squares#concat-%s' % which, segs == ['fitp', 'out.xplus', third],
                  'compact vector = (fitp | xplus | %s)' % third, 'compact vector is (%s), the slices assume (fitp | xplus | %s)' % (' | '.join(segs), third), fits.loc(hc[0]))
        # same chi-square when the third segment is substituted for the data
        try:
            got, _ = chisq_term(fits, cf, env, roles)
            r = decide_equal(got, ref_chi, ctx.seed)
            ctx.check('C08-D3', 'fits.py:%s#definition' % cq, bool(r), 'compact chi-square = the plain chi-square with %s taken from the argument vector' % third,
                      'compact chi-square is %s, which differs from the fitted chi-square %s' % (got, ref_chi), fits.loc(cf))
        except Unrecognised as e:
            ctx.unrec('C08-D3', 'fits.py:%s#definition' % cq, str(e))
        # block and sign
        dn = 'deriv_%s' % which
        dv = find_def(f, dn)
        key = 'fits.py:total_least_squares#block-%s' % which
        if len(dv) != 1:
            ctx.unrec(rule, key, '%s not single-assigned' % dn)
            continue
        v = dv[0].value
        neg = isinstance(v, ast.UnaryOp) and isinstance(v.op, ast.USub)
        inner = v.operand if neg else v
        if not (isinstance(inner, ast.Call) and (fits.dotted(inner.func) or '').endswith('linalg.solve') and len(inner.args) == 2):
            approx = [c for c in walk(v) if isinstance(c, ast.Call) and (fits.dotted(c.func) or '').rpartition('.')[2] in ('lstsq', 'pinv', 'pinvh')]
            if approx:
                ctx.violated(rule, key, '%s is computed with `%s`: a singular-value cut-off (relative to the largest singular value) removes the parameter directions of the Hessian once its '
                             'x-block 2/dx^2 dwarfs the parameter block - the implicit-function theorem needs the exact solution of H d = -B' % (dn, unparse(approx[0].func)), fits.loc(dv[0]))
            else:
                ctx.unrec(rule, key, '%s is not (-)solve(H, B)' % dn)
            continue
        ctx.check('C08-D2', 'fits.py:total_least_squares#ift-sign-%s' % which, neg, '%s = -H^-1 B' % dn, '%s = %s has the wrong sign' % (dn, unparse(v)), fits.loc(dv[0]))
        H, B = inner.args
        ctx.check('C08-D2', 'fits.py:total_least_squares#H-%s' % which, unparse(H) == 'hess', 'same Hessian H', 'solved against %s' % unparse(H), fits.loc(dv[0]))
        jd = find_def(f, unparse(B.value)) if isinstance(B, ast.Subscript) and isinstance(B.value, ast.Name) else []
        if not (len(jd) == 1 and jd[0].value is hc[0] and isinstance(B.slice, ast.Tuple) and len(B.slice.elts) == 2 and all(isinstance(e, ast.Slice) for e in B.slice.elts)):
            ctx.unrec(rule, key, 'block is not M[a:b, c:d] of hessian(%s)(...): %s' % (cf.name, unparse(B)))
            continue
        r_, c_ = B.slice.elts
        r0 = sx(r_.lower, env) if r_.lower is not None else 0
        r1 = sx(r_.upper, env) if r_.upper is not None else None
        c0 = sx(c_.lower, env) if c_.lower is not None else 0
        c1 = sx(c_.upper, env) if c_.upper is not None else None
        okb = r0 == 0 and r1 is not None and sp.simplify(r1 - n - m) == 0 and sp.simplify(c0 - n - m) == 0 and c1 is None
        ctx.check(rule, key, okb, 'rows = (parameters | fitted x), columns = data segment', 'block %s is not [:n_parms+m, n_parms+m:]' % unparse(B), fits.loc(dv[0]))

    # data list and gradient
    dc = [c for c in walk(f) if isinstance(c, ast.Call) and call_name(c) == 'derived_observable']
    if len(dc) != 1:
        ctx.unrec(rule, 'fits.py:total_least_squares#data-list', 'derived_observable call not found')
        return
    dc = dc[0]
    loop = fits.parents.get(dc)
    while loop is not None and not isinstance(loop, ast.For):
        loop = fits.parents.get(loop)
    iv = unparse(loop.target) if loop is not None else '?'
    # `for p, gx, gy in zip(out.beta, deriv_x[:n_parms], deriv_y[:n_parms])` is the index loop over the parameters
    subst, zipped = {}, False
    if loop is not None and isinstance(loop.iter, ast.Call) and call_name(loop.iter) == 'zip' and isinstance(loop.target, ast.Tuple) and len(loop.target.elts) == len(loop.iter.args) \
            and all(isinstance(x_, ast.Name) for x_ in loop.target.elts) \
            and all(unparse(a_) in ('fitp', 'out.beta', 'deriv_x', 'deriv_y', 'deriv_x[:n_parms]', 'deriv_y[:n_parms]') for a_ in loop.iter.args) \
            and any(unparse(a_) in ('fitp', 'out.beta') for a_ in loop.iter.args):
        iv, zipped = 'i', True
        subst = {x_.id: '%s[i]' % unparse(a_).replace('[:n_parms]', '') for x_, a_ in zip(loop.target.elts, loop.iter.args)}
    from .C14 import _subst as _sub14
    ctx.check(rule, 'fits.py:total_least_squares#data-list', unparse(dc.args[1]) == 'list(x.ravel()) + list(y)', 'data = (x.ravel() | y)', 'data list is %s' % unparse(dc.args[1]), fits.loc(dc))
    mg = kwarg(dc, 'man_grad')
    ctx.check(rule, 'fits.py:total_least_squares#man_grad', mg is not None and unparse(_sub14(mg, subst)) == 'list(deriv_x[%s]) + list(deriv_y[%s])' % (iv, iv),
              'gradient = (row i of deriv_x | row i of deriv_y), same order as the data list', 'man_grad is %s' % unparse(mg), fits.loc(dc))
    ctx.check(rule, 'fits.py:total_least_squares#all-parameters', loop is not None and (unparse(loop.iter) == 'range(n_parms)' or zipped), 'one result per parameter', 'loop over %s' % (unparse(loop.iter) if loop else None))
    # x_f / y_f are the central values of x / y in the order of the data list
    xf, yf = find_def(f, 'x_f'), find_def(f, 'y_f')
    okv = len(xf) == 1 and 'o.value' in unparse(xf[0].value) and unparse(xf[0].value).endswith('(x)') and len(yf) == 1 and unparse(yf[0].value) == 'np.array([o.value for o in y])'
    ctx.check(rule, 'fits.py:total_least_squares#central-values', okv, 'x_f, y_f = central values of x, y', 'x_f=%s y_f=%s' % ([unparse(s.value) for s in xf], [unparse(s.value) for s in yf]))
    c = carrier_check(ctx, 'C08-D4', 'fits.py:total_least_squares#carrier', fits, f, dc, iv)
    if c is not None:
        ctx.check('C08-D4', 'fits.py:total_least_squares#carrier-index', unparse(_sub14(c, subst)) in ('out.beta[%s]' % iv, 'fitp[%s]' % iv), 'carrier value is beta[i] for the same i', 'carrier value %s' % unparse(c), fits.loc(dc))
    fp = find_def(f, 'fitp')
    ctx.check('C08-D4', 'fits.py:total_least_squares#fitp', len(fp) == 1 and unparse(fp[0].value) == 'out.beta', 'fitp = ODR solution', 'fitp = %s' % [unparse(s.value) for s in fp])
    # dof / p-value
    NX, NP = sp.symbols('Nx n_parms', positive=True)
    st = [s for s in statements(f) if isinstance(s, ast.Assign) and unparse(s.targets[0]) == 'output.dof']
    ok = len(st) == 1 and unparse(st[0].value) in ('x.shape[-1] - n_parms', 'len(y) - n_parms', 'x_shape[-1] - n_parms')
    ctx.check('C08-D4', 'fits.py:total_least_squares#dof', ok, 'dof = points - parameters', 'dof = %s' % [unparse(s.value) for s in st])
    st = [s for s in statements(f) if isinstance(s, ast.Assign) and unparse(s.targets[0]) == 'output.p_value']
    ok = len(st) == 1 and unparse(st[0].value) == '1 - scipy.stats.chi2.cdf(output.odr_chisquare, output.dof)'
    ctx.check('C08-D4', 'fits.py:total_least_squares#p_value', ok, 'p = 1 - chi2cdf(chi2, dof)', 'p_value = %s' % [unparse(s.value) for s in st])
    st = [s for s in statements(f) if isinstance(s, ast.Assign) and unparse(s.targets[0]) == 'output.odr_chisquare']
    ok = len(st) == 1 and unparse(st[0].value) == 'odr_chisquare(np.concatenate((out.beta, out.xplus.ravel())))'
    ctx.check('C08-D4', 'fits.py:total_least_squares#chisquare', ok, 'reported chi-square = chi2(beta, xplus)', 'odr_chisquare = %s' % [unparse(s.value) for s in st])
    # ODR is given the errors as weights
    rd = [c for c in walk(f) if isinstance(c, ast.Call) and call_name(c) == 'RealData']
    ok = len(rd) == 1 and [unparse(a) for a in rd[0].args] == ['x_f', 'y_f'] and unparse(kwarg(rd[0], 'sx')) == 'dx_f' and unparse(kwarg(rd[0], 'sy')) == 'dy_f'
    ctx.check('C08-D3', 'fits.py:total_least_squares#odr-weights', ok, 'ODR minimises with sx=dx, sy=dy: the same chi-square that is differentiated', 'RealData(%s)' % (unparse(rd[0]) if rd else None))


def d_fit_lin(ctx, fits):
    rule = 'C08-D5'
    f = fits.func('fit_lin')
    rets = [s for s in statements(f) if isinstance(s, ast.Return) and mod_enclosing(fits, s) is f]
    table = {}
    for s in statements(f):
        if fits.enclosing_func(s) is not f:
            continue
        # the fitter is either called in the branch or selected there (`fit = total_least_squares`) and called afterwards
        picked = None
        if isinstance(s, (ast.Assign, ast.Return)) and s.value is not None:
            for c in ast.walk(s.value):
                if isinstance(c, ast.Call) and call_name(c) in ('total_least_squares', 'least_squares'):
                    picked = call_name(c)
            if picked is None and isinstance(s, ast.Assign) and isinstance(s.value, ast.Name) and s.value.id in ('total_least_squares', 'least_squares'):
                picked = s.value.id
        if picked:
            g = ' && '.join(('' if pol else 'NOT ') + unparse(t) for t, pol in guards_of(fits, s, stop=f))
            table[picked] = g
    # every call: the dispatch depends on the TYPE of the abscissae only (an Obs without error analysis has dvalue 0 as well)
    for s in statements(f):
        if fits.enclosing_func(s) is not f or not isinstance(s, (ast.Assign, ast.Return)) or s.value is None:
            continue
        for c in ast.walk(s.value):
            if isinstance(c, ast.Call) and call_name(c) in ('total_least_squares', 'least_squares'):
                gs = [unparse(t) for t, pol in guards_of(fits, s, stop=f)]
                valued = [g_ for g_ in gs if '.dvalue' in g_ or '.value' in g_ or 'is_zero' in g_]
                ctx.check(rule, 'fits.py:fit_lin#dispatch-by-type[%s]' % call_name(c), not valued, 'chosen by the type of x only',
                          '%s is chosen under the value dependent condition %s: observables whose error analysis has not been run (dvalue = 0) are fitted without their x fluctuations' % (call_name(c), valued), fits.loc(s))
    ok1 = 'total_least_squares' in table and table['total_least_squares'] == 'all((isinstance(n, Obs) for n in x))'
    ctx.check(rule, 'fits.py:fit_lin#obs-x', ok1, 'all-Obs abscissae -> total least squares', 'dispatch: %s' % table)
    g2 = table.get('least_squares', '')
    ok2 = g2.startswith('NOT all((isinstance(n, Obs) for n in x))') and ('isinstance(n, float)' in g2 or 'isinstance(n, (float, int))' in g2 or 'isinstance(n, (int, float))' in g2) and 'np.ndarray' in g2
    ctx.check(rule, 'fits.py:fit_lin#number-x', ok2, 'numbers / ndarray -> ordinary least squares', 'dispatch: %s' % table)
    rs = [s for s in statements(f) if isinstance(s, ast.Raise) and fits.enclosing_func(s) is f]
    ctx.check(rule, 'fits.py:fit_lin#else-raises', len(rs) == 1 and 'TypeError' in unparse(rs[0]), 'anything else raises TypeError', 'raises: %s' % [unparse(r) for r in rs])
    inner = fits.func('fit_lin.f')
    a, b = sp.symbols('a0 a1', real=True)
    X = sp.Symbol('x', real=True)
    pn = [p.arg for p in inner.args.args]
    loc = {s.targets[0].id: s.value for s in statements(inner) if isinstance(s, ast.Assign) and isinstance(s.targets[0], ast.Name)}
    ret = [s for s in statements(inner) if isinstance(s, ast.Return)][0]

    def atoms(node):
        if isinstance(node, ast.Subscript) and unparse(node.value) == pn[0] and const(node.slice) in (0, 1):
            return (a, b)[const(node.slice)]
        if isinstance(node, ast.Name) and node.id == pn[1]:
            return X
        if isinstance(node, ast.Name) and node.id in loc:
            return tr.tr(loc[node.id])
        return None
    tr = Translator(fits, atoms=atoms, free='error', positive=False)
    try:
        got = tr.tr(ret.value)
        ctx.check(rule, 'fits.py:fit_lin.f#model', sp.simplify(got - (a + b * X)) == 0, 'model y = n + m x', 'model is %s' % got, fits.loc(inner))
    except Unrecognised as e:
        ctx.unrec(rule, 'fits.py:fit_lin.f#model', str(e))


def mod_enclosing(mod, node):
    return mod.enclosing_func(node)


def d_convergence_gate(ctx, fits):
    """the sensitivities are those of the implicit-function theorem AT A STATIONARY POINT: both fitters must refuse to go on
    when the minimiser reports that it stopped without converging.  scipy.odr: info 1, 2, 3 = converged (sum of squares /
    parameters / both), 4 = iteration limit reached, >= 5 = questionable or fatal.  scipy.optimize / iminuit: .success."""
    rule = 'C08-D8'
    f = fits.func('total_least_squares')
    raises = [s_ for s_ in statements(f) if isinstance(s_, ast.Raise)]
    gate = []
    for r in raises:
        gs = guards_of(fits, r, stop=f)
        if len(gs) == 1 and gs[0][1] and any(isinstance(x, ast.Attribute) and x.attr == 'info' for x in ast.walk(gs[0][0])):
            gate.append((r, gs[0][0]))
    key = 'fits.py:total_least_squares#odr-info-gate'
    if len(gate) != 1:
        ctx.check(rule, key, False, '', 'no top-level raise guarded by a test of the ODR stop code (.info) found: a fit abandoned at the iteration limit is returned as a result', fits.loc(f))
    else:
        r, t = gate[0]
        info_nodes = [x for x in ast.walk(t) if isinstance(x, ast.Attribute) and x.attr == 'info']
        wrong = []
        for code in range(1, 9):
            expr = ast.Expression(body=ast.fix_missing_locations(_subst(t, info_nodes, code)))
            try:
                fires = bool(eval(compile(expr, '<guard>', 'eval'), {'__builtins__': {}}, {}))
            except Exception as e:
                raise Unrecognised('cannot evaluate %s: %s' % (unparse(t), e))
            if fires != (code >= 4):
                wrong.append(code)
        ctx.check(rule, key, not wrong, 'stop codes 1..3 (converged) pass, 4 (iteration limit) and above raise: `%s`' % unparse(t),
                  'guard `%s` treats ODR stop code(s) %s wrongly (1-3 = converged, 4 = iteration limit reached, >=5 = error): the derivatives would be taken at a point that is not a minimum' % (unparse(t), wrong), fits.loc(r))
        # the gate precedes the derivative computation
        hess = [s_ for s_ in statements(f) if isinstance(s_, ast.Assign) and any(isinstance(c, ast.Call) and call_name(c) in ('hessian', 'jacobian') for c in ast.walk(s_.value))]
        ctx.check(rule, key + '-before-derivatives', bool(hess) and all(r.lineno < h.lineno for h in hess), 'the gate is passed before any Hessian is evaluated', 'a Hessian is evaluated before the convergence gate', fits.loc(r))
    g = fits.func('least_squares')
    gate = []
    for r in [s_ for s_ in statements(g) if isinstance(s_, ast.Raise)]:
        gs = guards_of(fits, r, stop=g)
        if len(gs) == 1 and unparse(gs[0][0]) in ('not fit_result.success', 'fit_result.success is False', 'fit_result.success == False') and gs[0][1]:
            gate.append(r)
    ctx.check(rule, 'fits.py:least_squares#success-gate', len(gate) == 1, 'a minimiser result without .success raises', 'no raise guarded by `not fit_result.success`', fits.loc(g))


def _subst(test, nodes, value):
    import copy
    t = copy.deepcopy(test)
    ids = {unparse(n) for n in nodes}

    class R(ast.NodeTransformer):
        def visit_Attribute(self, n):
            if unparse(n) in ids:
                return ast.Constant(value=value)
            return self.generic_visit(n)
    return R().visit(t)


def d_minimised_function(ctx, fits, rule='C08-D6'):
    """the derivatives of the result (Hessian, mixed derivatives) are taken of `chisqfunc`; the point they are taken at has to be its
    minimum: the last minimiser call on every path minimises the same function - the correlated one under `correlated_fit`"""
    f = fits.func('least_squares')
    mins = [c for c in walk(f) if isinstance(c, ast.Call) and (fits.dotted(c.func) or '').rpartition('.')[2] in ('minimize', 'least_squares') and c.args
            and ((fits.dotted(c.func) or '').startswith(('scipy.', 'iminuit')))]
    n = 0
    for c in mins:
        corr = [unparse(t) for t, pol in guards_of(fits, c, stop=f) if pol and 'correlated_fit' in unparse(t)]
        if not corr:
            continue
        n += 1
        a0 = unparse(c.args[0])
        ctx.check(rule, 'fits.py:least_squares#refit[%s]' % (fits.dotted(c.func) or '').rpartition('.')[0], isinstance(c.args[0], ast.Name) and 'uncorr' not in a0 and a0.startswith(('chisqfunc', 'chisqfunc_residuals')),
                  'under correlated_fit the final minimisation is that of the correlated chi-square',
                  'the pass run for correlated_fit minimises `%s`: the returned parameters are the minimum of the uncorrelated chi-square while Hessian and mixed derivatives are those of the '
                  'correlated one' % a0, fits.loc(c))
    ctx.floor('second-pass minimisations under correlated_fit', n, 3)


def run(ctx):
    from . import C19 as _C19
    ctx.rule('C08-D9' if False else 'C08-D19', 'prior strings value(error) are read exactly (shared evaluation with C19-D2)')
    ctx.guarded('C08-D19', 'fits.py:_extract_val_and_dval', _C19.d2_prior, ctx, 'C08-D19')
    ctx.rule('C08-D1', 'layout agreement of the two implicit-function steps')
    ctx.rule('C08-D2', 'sign and Hessian')
    ctx.rule('C08-D3', 'chi-square definitions agree (x-residual term present)')
    ctx.rule('C08-D4', 'value carrier, dof, p-value')
    ctx.rule('C08-D5', 'fit_lin dispatch')
    ctx.not_decided += ['stationarity of the returned point', 'first-order re-fit prediction']
    fits = ctx.repo.mod('fits')
    ctx.guarded('C08-D1', 'fits.py:total_least_squares@layout', d_layout, ctx, fits)
    ctx.guarded('C08-D5', 'fits.py:fit_lin', d_fit_lin, ctx, fits)
    # non-linear models fitted with least_squares obey the same implicit-function rule: its layout / sign / residual obligations are part of C08
    from . import C07
    ctx.rule('C08-D6', 'least_squares: implicit-function layout, sign and residual definitions (shared analysis with C07)')
    ctx.guarded('C08-D6', 'fits.py:least_squares@layout', C07.d1_layout, ctx, fits, 'C08-D6', 'C08-D6', 'C08-D6')
    ctx.guarded('C08-D6', 'fits.py:least_squares@chisq', C07.d6_chisq, ctx, fits, 'C08-D6')
    ctx.guarded('C08-D6', 'fits.py:least_squares@refit', d_minimised_function, ctx, fits)
    ctx.rule('C08-D8', 'convergence gate: no result from a minimiser that did not converge')
    ctx.guarded('C08-D8', 'fits.py@convergence', d_convergence_gate, ctx, fits)
    from .. import unusedparams, leakedloop
    ctx.rule('C08-D7', 'every accepted option is read (no silently ignored parameter); no loop variable read after its loop')
    for mn_ in ('fits',):
        ctx.guarded('C08-D7', mn_ + '@parameters', unusedparams.check, ctx, 'C08-D7', ctx.repo.mod(mn_))
        ctx.guarded('C08-D7', mn_ + '@loop-variables', leakedloop.check, ctx, 'C08-D7', ctx.repo.mod(mn_))

    ctx.floor('C08 obligations', len(ctx.obs), 28)


SELFTEST = [
    ('refit-uncorrelated', 'pyerrors/fits.py', '                fit_result = iminuit.minimize(chisqfunc, fit_result.x, tol=tolerance)', '                fit_result = iminuit.minimize(chisqfunc_uncorr, fit_result.x, tol=tolerance)', 'C08-D6'),
    ('odr-iteration-limit-accepted', 'pyerrors/fits.py', "    if out.info > 3:", "    if out.info >= 5:", 'C08-D8'),
    ('benign-odr-gate-ge', 'pyerrors/fits.py', "    if out.info > 3:", "    if out.info >= 4:", 'BENIGN'),
    ('success-gate-removed', 'pyerrors/fits.py', "    if not fit_result.success:\n        raise Exception('The minimization procedure did not converge.')\n", "", 'C08-D8'),
    ('x-residual-dropped', 'pyerrors/fits.py', "        chisq = anp.sum(((y_f - model) / dy_f) ** 2) + anp.sum(((x_f - p[n_parms:].reshape(x_shape)) / dx_f) ** 2)", "        chisq = anp.sum(((y_f - model) / dy_f) ** 2)", 'C08-D3'),
    ('compact-x-uses-xf', 'pyerrors/fits.py', "anp.sum(((d[n_parms + m:].reshape(x_shape) - d[n_parms:n_parms + m].reshape(x_shape)) / dx_f) ** 2)", "anp.sum(((x_f - d[n_parms:n_parms + m].reshape(x_shape)) / dx_f) ** 2)", 'C08-D3'),
    ('compact-y-weights', 'pyerrors/fits.py', "chisq = anp.sum(((d[n_parms + m:] - model) / dy_f) ** 2)", "chisq = anp.sum(((d[n_parms + m:] - model) / dx_f) ** 2)", 'C08-D3'),
    ('block-x', 'pyerrors/fits.py', "deriv_x = -scipy.linalg.solve(hess, jac_jac_x[:n_parms + m, n_parms + m:])", "deriv_x = -scipy.linalg.solve(hess, jac_jac_x[:n_parms + m, n_parms:])", 'C08-D1'),
    ('sign-y', 'pyerrors/fits.py', "deriv_y = -scipy.linalg.solve(hess, jac_jac_y[:n_parms + m, n_parms + m:])", "deriv_y = scipy.linalg.solve(hess, jac_jac_y[:n_parms + m, n_parms + m:])", 'C08-D2'),
    ('concat-y', 'pyerrors/fits.py', "hessian(odr_chisquare_compact_y)(np.concatenate((fitp, out.xplus.ravel(), y_f)))", "hessian(odr_chisquare_compact_y)(np.concatenate((fitp, x_f.ravel(), y_f)))", 'C08-D1'),
    ('grad-order', 'pyerrors/fits.py', "man_grad=list(deriv_x[i]) + list(deriv_y[i])))", "man_grad=list(deriv_y[i]) + list(deriv_x[i])))", 'C08-D1'),
    ('carrier', 'pyerrors/fits.py', "(x.ravel()[0].value + np.finfo(np.float64).eps) * out.beta[i]", "(y[0].value + np.finfo(np.float64).eps) * out.beta[i]", 'C08-D4'),
    ('dof', 'pyerrors/fits.py', "output.dof = x.shape[-1] - n_parms", "output.dof = x.shape[-1] - n_parms - 1", 'C08-D4'),
    ('fitlin-dispatch', 'pyerrors/fits.py', "    if all(isinstance(n, Obs) for n in x):\n        out = total_least_squares(x, y, f, **kwargs)", "    if any(isinstance(n, Obs) for n in x):\n        out = total_least_squares(x, y, f, **kwargs)", 'C08-D5'),
    ('fitlin-model', 'pyerrors/fits.py', "        y = a[0] + a[1] * x\n        return y", "        y = a[1] + a[0] * x\n        return y", 'C08-D5'),
    ('odr-weights', 'pyerrors/fits.py', "data = RealData(x_f, y_f, sx=dx_f, sy=dy_f)", "data = RealData(x_f, y_f, sx=dy_f, sy=dy_f)", 'C08-D3'),
    ('benign-chisq-reorder', 'pyerrors/fits.py', "        chisq = anp.sum(((y_f - model) / dy_f) ** 2) + anp.sum(((x_f - p[n_parms:].reshape(x_shape)) / dx_f) ** 2)", "        chisq = anp.sum(((p[n_parms:].reshape(x_shape) - x_f) / dx_f) ** 2) + anp.sum(((model - y_f) / dy_f) ** 2)", 'BENIGN'),
]
