"""C09  Roots and integrals of observable-dependent functions propagate errors exactly.

Decides only the wiring of the implicit-function / Leibniz rules in find_root and quad:
  D1 find_root: deriv = -(df/dd)/(df/dx); dx differentiates func in its first argument at (root, d), da differentiates the
     argument-swapped function in the data argument; the swap and its call are consistent; value carrier = root
  D2 quad: lower limit contributes -f(a), upper +f(b) (one index for sign, bound and value); parameter derivatives are integrals of
     d f/d p_i over the same limits; gradient order = data order (parameters, then limits); value carrier = val
"""
import ast

import sympy as sp

from ..srcmodel import Unrecognised, unparse, call_name, kwarg, walk, statements, guards_of, const
from ..symx import Translator, decide_equal
from .C07 import find_def
from .C07 import find_def, carrier_check
from .. import hiddenstate

LEVEL = 'other'
EXPLANATION = 'structural/def-use analysis of find_root and quad: which function is differentiated in which argument at which point, sign tables, order agreement of gradient and data lists'
LEVEL_TEXT = ('decides only the wiring of the error propagation in find_root (implicit function: -(df/dd)/(df/dx) at the root, consistent argument swap, value carrier) and quad '
              '(Leibniz rule: -f(a) / +f(b) by one index, integrals of df/dp_i over the same limits, gradient order = data order, value carrier). The accuracy of fsolve / quad is not decided.')
TECHNIQUE = 'def-use and call-shape analysis (including the dataflow from the data argument to the start value of the root search) with sympy evaluation of the sign/index tables and value carriers'


def jac_call(mod, node):
    """jacobian(F)(A, B) -> (F node, [A, B]) or None"""
    if isinstance(node, ast.Call) and isinstance(node.func, ast.Call) and (mod.dotted(node.func.func) or '') in ('autograd.jacobian', 'jacobian') and node.func.args:
        return node.func.args[0], node.args
    return None


def d1_root(ctx):
    rule = 'C09-D1'
    m = ctx.repo.mod('roots')
    f = m.func('find_root')
    p = [a.arg for a in f.args.args]
    d_, func_ = p[0], p[1]
    # root = fsolve(func, guess, d_val)
    rt = [s for s in statements(f) if isinstance(s, ast.Assign) and isinstance(s.value, ast.Call) and (m.dotted(s.value.func) or '').endswith('optimize.fsolve')]
    if len(rt) != 1:
        ctx.unrec(rule, 'roots.py:find_root#solve', 'fsolve call not found')
        return
    root = unparse(rt[0].targets[0])
    a = rt[0].value.args
    dval = unparse(a[2]) if len(a) > 2 else (unparse(kwarg(rt[0].value, 'args')) if kwarg(rt[0].value, 'args') is not None else None)
    ctx.check(rule, 'roots.py:find_root#solve', unparse(a[0]) == func_ and dval is not None, 'root of func(x, d_val) in x', 'fsolve called as %s' % unparse(rt[0].value), m.loc(rt[0]))
    # the start value of the search: the caller's guess, independent of the data (a data-derived start lies outside the domain
    # of func for members of the quantified families - log / fractional powers with negative d)
    x0 = a[1] if len(a) > 1 else kwarg(rt[0].value, 'x0')
    if x0 is not None and len(p) > 2:
        seen, todo, tainted = set(), [n_.id for n_ in ast.walk(x0) if isinstance(n_, ast.Name)], []
        while todo:
            nm = todo.pop()
            if nm in seen:
                continue
            seen.add(nm)
            if nm == d_:
                tainted.append(nm)
            for df in find_def(f, nm):
                if df.lineno < rt[0].lineno:
                    todo += [n_.id for n_ in ast.walk(df.value) if isinstance(n_, ast.Name)]
        dflt = f.args.defaults[-(len(p) - p.index(p[2])):][:1] if len(f.args.defaults) >= len(p) - 2 else []
        okc = not dflt or (const(dflt[0]) is not None) or (isinstance(dflt[0], ast.Constant) and dflt[0].value is None and bool(find_def(f, p[2])))
        ctx.check(rule, 'roots.py:find_root#start', not tainted and p[2] in seen and okc, 'the search starts at the caller\'s guess (numeric default), independent of the data',
                  'the start value `%s` of the root search %s: for log / fractional-power families with negative d the start lies outside the domain of func and no root is found'
                  % (unparse(x0), 'is derived from the data %s' % d_ if tainted else ('does not come from the parameter %s' % p[2] if p[2] not in seen else 'has the non-numeric default %s' % unparse(dflt[0]))), m.loc(rt[0]))
    dv = find_def(f, dval) if dval else []
    okd = len(dv) == 1 and '.value' in unparse(dv[0].value) and d_ in unparse(dv[0].value)
    ctx.check(rule, 'roots.py:find_root#d_val', okd, 'd_val = central values of d', 'd_val = %s' % [unparse(s.value) for s in dv])
    # deriv = -da/dx
    dr = find_def(f, 'deriv')
    key = 'roots.py:find_root#ift'
    if len(dr) != 1:
        ctx.unrec(rule, key, 'deriv not single-assigned')
        return
    A, X = sp.symbols('dA dX', real=True)
    names = {}

    def atoms(node):
        if isinstance(node, ast.Name):
            names.setdefault(node.id, sp.Symbol(node.id, real=True))
            return names[node.id]
        return None
    try:
        got = Translator(m, atoms=atoms, free='error', positive=False).tr(dr[0].value)
    except Unrecognised as e:
        ctx.unrec(rule, key, str(e))
        return
    if len(names) != 2:
        ctx.unrec(rule, key, 'deriv depends on %s' % sorted(names))
        return
    # identify which local is df/dx and which is df/dd from their definitions
    role = {}
    for nm in names:
        dd = find_def(f, nm)
        if len(dd) != 1:
            ctx.unrec(rule, key, '%s not single-assigned' % nm)
            return
        jc = jac_call(m, dd[0].value)
        if jc is None:
            ctx.unrec(rule, key, '%s is not jacobian(F)(...)' % nm)
            return
        F, args = jc
        if isinstance(F, ast.Name) and F.id == func_:
            # differentiates func in its first argument
            ok = len(args) == 2 and unparse(args[0]) in (root + '[0]', root) and unparse(args[1]) == dval
            ctx.check(rule, 'roots.py:find_root#df/dx', ok, '%s = d func/d x at (root, d_val)' % nm, '%s = jacobian(func)(%s)' % (nm, ', '.join(unparse(x) for x in args)), m.loc(dd[0]))
            role[nm] = 'dx'
        elif isinstance(F, ast.Lambda) and len(F.args.args) == 2 and isinstance(F.body, ast.Call) and unparse(F.body.func) == func_:
            u, v = F.args.args[0].arg, F.args.args[1].arg
            inner = [unparse(x) for x in F.body.args]
            swapped = inner == [v, u]
            # first argument of the lambda is differentiated: it must be bound to d_val, and func must receive it in the data position
            ok = swapped and len(args) == 2 and unparse(args[0]) == dval and unparse(args[1]) in (root + '[0]', root)
            ctx.check(rule, 'roots.py:find_root#df/dd', ok, '%s = d func/d d at (root, d_val) through the argument swap (u,v)->func(v,u) called with (d_val, root)' % nm,
                      '%s = jacobian(lambda %s, %s: %s(%s))(%s): the swap and its call are inconsistent' % (nm, u, v, func_, ', '.join(inner), ', '.join(unparse(x) for x in args)), m.loc(dd[0]))
            role[nm] = 'da'
        else:
            ctx.unrec(rule, key, 'cannot classify %s = %s' % (nm, unparse(dd[0].value)))
            return
    if sorted(role.values()) != ['da', 'dx']:
        ctx.violated(rule, key, 'deriv is built from %s: needs one derivative in x and one in the data' % role, m.loc(dr[0]))
        return
    sub = {names[nm]: (A if role[nm] == 'da' else X) for nm in names}
    got = got.subs(sub)
    ctx.check(rule, key, sp.simplify(got + A / X) == 0, 'deriv = -(df/dd)/(df/dx)', 'deriv = %s, the implicit function theorem gives -(df/dd)/(df/dx)' % got, m.loc(dr[0]))
    # result
    dc = [c for c in walk(f) if isinstance(c, ast.Call) and call_name(c) == 'derived_observable']
    if len(dc) != 1:
        ctx.unrec(rule, 'roots.py:find_root#result', 'derived_observable call not found')
        return
    dc = dc[0]
    mg = kwarg(dc, 'man_grad')
    okm = mg is not None and 'deriv' in unparse(mg) and unparse(dc.args[1]) in ('np.array(%s).reshape(-1)' % d_, d_)
    ctx.check(rule, 'roots.py:find_root#gradient', okm, 'fluctuations of d are multiplied by deriv', 'data=%s man_grad=%s' % (unparse(dc.args[1]), unparse(mg)), m.loc(dc))
    c = carrier_check(ctx, rule, 'roots.py:find_root#carrier', m, f, dc, None)
    if c is not None:
        ctx.check(rule, 'roots.py:find_root#carrier-value', unparse(c) in (root + '[0]',), 'central value = root', 'carrier value is %s' % unparse(c), m.loc(dc))


def _def_before(f, name, node):
    """the assignment to `name` that reaches `node`: the last one written before it (straight-line reading, as the reference code has it)"""
    ds = [d for d in find_def(f, name) if d.lineno < node.lineno]
    return ds[-1] if ds else None


def _len_of(f, expr, seq, depth=0):
    """True when `expr` evaluates to len(seq): len(seq) itself, a name bound once to such an expression, the literal length of the
    list display `seq` is bound to, or the length of an array built element by element over range(len(seq))"""
    if depth > 4 or expr is None:
        return False
    if isinstance(expr, ast.Call) and call_name(expr) == 'len' and len(expr.args) == 1:
        a = expr.args[0]
        if unparse(a) == seq:
            return True
        if isinstance(a, ast.Name):
            ds = find_def(f, a.id)
            if len(ds) == 1:
                v = ds[0].value
                if isinstance(v, ast.Call) and call_name(v) in ('array', 'asarray', 'list') and v.args:
                    v = v.args[0]
                if isinstance(v, ast.ListComp) and len(v.generators) == 1 and not v.generators[0].ifs:
                    it = v.generators[0].iter
                    if unparse(it) == seq:
                        return True
                    if isinstance(it, ast.Call) and call_name(it) == 'range' and len(it.args) == 1:
                        return _len_of(f, it.args[0], seq, depth + 1)
        return False
    if isinstance(expr, ast.Name):
        ds = find_def(f, expr.id)
        return len(ds) == 1 and _len_of(f, ds[0].value, seq, depth + 1)
    if isinstance(expr, ast.Constant) and isinstance(expr.value, int):
        ds = find_def(f, seq)
        return len(ds) == 1 and isinstance(ds[0].value, (ast.List, ast.Tuple)) and len(ds[0].value.elts) == expr.value and not any(isinstance(e, ast.Starred) for e in ds[0].value.elts)
    return False


def _range_over(f, it, seq):
    return isinstance(it, ast.Call) and call_name(it) == 'range' and len(it.args) == 1 and not it.keywords and _len_of(f, it.args[0], seq)


def _selects(f, defs, seq, mask):
    """`[seq[i] for i in range(len(seq)) if mask[i]]`"""
    if len(defs) != 1 or not isinstance(defs[0].value, ast.ListComp) or len(defs[0].value.generators) != 1:
        return False
    c = defs[0].value
    g = c.generators[0]
    if not isinstance(g.target, ast.Name) or len(g.ifs) != 1:
        return False
    i = g.target.id
    return unparse(c.elt) == '%s[%s]' % (seq, i) and unparse(g.ifs[0]) == '%s[%s]' % (mask, i) and _range_over(f, g.iter, seq)


def d2_quad(ctx):
    rule = 'C09-D2'
    m = ctx.repo.mod('integrate')
    f = m.func('quad')
    p = [a.arg for a in f.args.args]
    func_, p_, a_, b_ = p[:4]
    bd = find_def(f, 'bounds')
    ctx.check(rule, 'integrate.py:quad#bounds', len(bd) == 1 and unparse(bd[0].value) == '[%s, %s]' % (a_, b_), 'bounds = [a, b]', 'bounds = %s' % [unparse(s.value) for s in bd])
    bs = find_def(f, 'bsign')
    key = 'integrate.py:quad#leibniz-signs'
    if len(bs) != 1 or not isinstance(bs[0].value, ast.List):
        ctx.unrec(rule, key, 'bsign table not found')
    else:
        vals = [const(e) for e in bs[0].value.elts]
        ctx.check(rule, key, vals == [-1, 1], 'd/da = -f(a), d/db = +f(b)', 'sign table is %s for bounds [a, b]' % vals, m.loc(bs[0]))
    # options for scipy.integrate.quad: every option the caller gives is forwarded as given (also falsy values such as epsabs=0)
    ik = find_def(f, 'ikwargs')
    if len(ik) == 1:
        try:
            kw_ = {'epsabs': 0, 'limit': 50, 'epsrel': 0.0, 'foreign': 1, 'full_output': False}
            pars_ = ('epsabs', 'epsrel', 'limit', 'full_output', 'points')
            got_ = eval(compile(ast.Expression(body=ik[0].value), '<ikwargs>', 'eval'), {'__builtins__': {'dict': dict, 'len': len}, 'intpars': pars_, 'kwargs': dict(kw_)})
            want_ = {k_: kw_[k_] for k_ in pars_ if k_ in kw_}
            ctx.check(rule, 'integrate.py:quad#options-forwarded', got_ == want_, 'the options of the caller that scipy.integrate.quad knows are forwarded as given',
                      'for the options %s the integrator receives %s: options with a false value (epsabs=0: purely relative tolerance) are dropped and scipy falls back to its defaults' % (kw_, got_), m.loc(ik[0]))
        except Exception as ex_:
            ctx.unrec(rule, 'integrate.py:quad#options-forwarded', 'cannot evaluate %s: %r' % (unparse(ik[0].value), ex_), m.loc(ik[0]))
    # the list of derivative integrals / boundary terms starts empty and only grows by the terms checked below: a branch that fills it with
    # constants (e.g. zeros 'because the range is empty') drops the boundary terms, which do not vanish for equal limits
    dass = [s_ for s_ in statements(f) if isinstance(s_, ast.Assign) and any(unparse(t_) == 'derivint' for t_ in s_.targets)]
    nonempty = [s_ for s_ in dass if not (isinstance(s_.value, ast.List) and not s_.value.elts)]
    ctx.check(rule, 'integrate.py:quad#derivint-only-appended', len(dass) >= 1 and not nonempty, 'derivint = [] and then one appended term per observable parameter / limit',
              'derivint is assigned `%s`: the contributions -f(a) da + f(b) db of observable limits are replaced by constants' % (unparse(nonempty[0].value) if nonempty else ''),
              m.loc(nonempty[0]) if nonempty else None)
    # limit contributions: bsign[i] * func(pval, bval[i]) for i with isobs_b[i]
    apps = [c for c in walk(f) if isinstance(c, ast.Call) and isinstance(c.func, ast.Attribute) and c.func.attr == 'append' and unparse(c.func.value) == 'derivint']
    lim = [c for c in apps if 'bsign' in unparse(c)]
    par = [c for c in apps if 'bsign' not in unparse(c)]
    key = 'integrate.py:quad#limit-term'
    if len(lim) != 1:
        ctx.unrec(rule, key, 'limit contribution not found')
    else:
        loop = m.parents.get(lim[0])
        while not isinstance(loop, ast.For):
            loop = m.parents[loop]
        i = unparse(loop.target)
        g = [unparse(t) for t, pol in guards_of(m, lim[0], stop=f) if pol]
        t = unparse(lim[0].args[0])
        ok = t == 'bsign[%s] * %s(pval, bval[%s])' % (i, func_, i) and g == ['isobs_b[%s]' % i] and _range_over(f, loop.iter, 'bounds')
        ctx.check(rule, key, ok, 'limit i contributes bsign[i] * f(p, bound_i) iff bound i is an observable (one index i)', 'limit term is %s under %s in loop %s' % (t, g, unparse(loop.iter)), m.loc(lim[0]))
    key = 'integrate.py:quad#parameter-term'
    if len(par) != 1:
        ctx.unrec(rule, key, 'parameter contribution not found')
    else:
        loop = m.parents.get(par[0])
        while not isinstance(loop, ast.For):
            loop = m.parents[loop]
        i = unparse(loop.target)
        g = [unparse(t) for t, pol in guards_of(m, par[0], stop=f) if pol]
        t = unparse(par[0].args[0])
        # integrand: np.vectorize(lambda x: jac(pval, x)[i])
        import copy as _copy
        integ = [s for s in loop.body[0].body if isinstance(s, ast.Assign)] if isinstance(loop.body[0], ast.If) else []
        lims = par[0].args[0]
        sq_call = lims.value if isinstance(lims, ast.Subscript) and isinstance(lims.value, ast.Call) and call_name(lims.value) == 'squad' else None
        # the integrand: through a temporary or written into the call; a loop index bound as lambda default (i=i) is the same function
        iexpr = integ[0].value if len(integ) == 1 else (sq_call.args[0] if sq_call is not None and sq_call.args else None)
        itxt = None
        if iexpr is not None:
            ie = _copy.deepcopy(iexpr)
            for lam in ast.walk(ie):
                if isinstance(lam, ast.Lambda) and lam.args.defaults:
                    nd = len(lam.args.defaults)
                    pairs = list(zip(lam.args.args[-nd:], lam.args.defaults))
                    if all(isinstance(d_, ast.Name) and d_.id == a_.arg for a_, d_ in pairs):
                        lam.args.args = lam.args.args[:-nd]
                        lam.args.defaults = []
            itxt = unparse(ie)
        oki = itxt == 'np.vectorize(lambda x: jac(pval, x)[%s])' % i
        okl = False
        if oki and sq_call is not None and const(lims.slice) == 0:
            la = [unparse(x) for x in sq_call.args[1:3]]
            kwl = {k_.arg: unparse(k_.value) for k_ in sq_call.keywords if k_.arg in ('a', 'b')}
            if len(la) < 2 and set(kwl) == {'a', 'b'}:
                la = [kwl['a'], kwl['b']]
            okl = la in (['bounds[0]', 'bounds[1]'], ['bval[0]', 'bval[1]']) and (len(integ) != 1 or unparse(sq_call.args[0]) == unparse(integ[0].targets[0]))
        ok = oki and okl and g == ['isobs[%s]' % i] and _range_over(f, loop.iter, p_)
        ctx.check(rule, key, bool(ok), 'parameter i contributes the integral over [a, b] of (d f/d p)[i] iff p[i] is an observable', 'parameter term is %s (integrand %s) under %s' % (t, itxt, g), m.loc(par[0]))
        jd = find_def(f, 'jac')
        ctx.check(rule, 'integrate.py:quad#jacobian', len(jd) == 1 and unparse(jd[0].value) == 'jacobian(%s)' % func_, 'jac differentiates func in its parameter argument', 'jac = %s' % [unparse(s.value) for s in jd])
    # order: parameters first then limits, as in pobs + bobs
    if len(lim) == 1 and len(par) == 1:
        dc = [c for c in walk(f) if isinstance(c, ast.Call) and call_name(c) == 'derived_observable']
        if len(dc) != 1:
            ctx.unrec(rule, 'integrate.py:quad#order', 'derived_observable call not found')
            return
        dc = dc[0]
        order_code = par[0].lineno < lim[0].lineno
        data = unparse(dc.args[1])
        ok = (data == 'pobs + bobs' and order_code) or (data == 'bobs + pobs' and not order_code)
        ctx.check(rule, 'integrate.py:quad#order', ok and unparse(kwarg(dc, 'man_grad')) == 'derivint', 'gradient entries are appended in the order of the data list (parameters, then limits)',
                  'data list %s but gradients appended %s' % (data, 'parameters first' if order_code else 'limits first'), m.loc(dc))
        po, bo = find_def(f, 'pobs'), find_def(f, 'bobs')
        okp = _selects(f, po, p_, 'isobs') and _selects(f, bo, 'bounds', 'isobs_b')
        ctx.check(rule, 'integrate.py:quad#data-selection', okp, 'data lists select exactly the observable parameters / limits in index order', 'pobs=%s bobs=%s' % ([unparse(s.value) for s in po], [unparse(s.value) for s in bo]))
        # value carrier: 0 * (...) + val
        lam = dc.args[0]
        V = sp.Symbol('val', real=True)
        X0, P0, E = sp.symbols('x0 p0 eps', positive=True)

        def atoms(node):
            t = unparse(node)
            if t == '%s[0]' % lam.args.args[0].arg:
                return X0
            if t == 'pval[0]':
                return P0
            if isinstance(node, ast.Attribute) and node.attr == 'eps':
                return E
            if t == 'val':
                return V
            return None
        try:
            got = Translator(m, atoms=atoms, free='error', positive=False).tr(lam.body)
            ctx.check(rule, 'integrate.py:quad#carrier', sp.simplify(got - V) == 0, 'central value = val', 'carrier evaluates to %s' % got, m.loc(dc))
        except Unrecognised as e:
            ctx.unrec(rule, 'integrate.py:quad#carrier', str(e))
        vd = find_def(f, 'val')
        ir = find_def(f, 'integration_result')
        okv = len(vd) == 1 and unparse(vd[0].value) == 'integration_result[0]' and len(ir) == 1 and isinstance(ir[0].value, ast.Call) and call_name(ir[0].value) == 'squad'
        if okv:
            c_ = ir[0].value
            a0 = c_.args[0] if c_.args else kwarg(c_, 'func')
            if isinstance(a0, ast.Name):
                d_ = _def_before(f, a0.id, ir[0])
                a0 = d_.value if d_ is not None else None
            lims_ = [unparse(x) for x in c_.args[1:3]] + [unparse(kwarg(c_, k_)) for k_ in ('a', 'b')[len(c_.args[1:3]):] if kwarg(c_, k_) is not None]
            okv = a0 is not None and unparse(a0) == 'np.vectorize(lambda x: %s(pval, x))' % func_ and lims_ == ['bval[0]', 'bval[1]']
        ctx.check(rule, 'integrate.py:quad#value', okv, 'val = scipy quad of f(pval, x) over [bval[0], bval[1]]', 'val=%s' % [unparse(s.value) for s in vd])
        # no observable involved -> scipy's result unchanged
        rets = [s for s in statements(f) if isinstance(s, ast.Return)]
        plain = [s for s in rets if any(pol and unparse(t) in ('len(derivint) == 0', 'not derivint', 'not pobs and (not bobs)', 'not bobs and (not pobs)', 'len(pobs) + len(bobs) == 0',
                                                          'len(pobs) == 0 and len(bobs) == 0') for t, pol in guards_of(m, s, stop=f))]
        # every return that is not the propagated observable needs the 'nothing is an observable' guard
        for r_ in rets:
            if r_ in plain:
                continue
            if isinstance(r_.value, ast.Name) or (isinstance(r_.value, ast.Call) and call_name(r_.value) == 'derived_observable'):
                continue
            if any(isinstance(x, ast.Name) and any(isinstance(d_.value, ast.Call) and call_name(d_.value) == 'derived_observable' for d_ in find_def(f, x.id)) for x in ast.walk(r_.value)):
                continue        # contains the propagated observable
            ctx.violated(rule, 'integrate.py:quad#unpropagated-return[%s]' % unparse(r_.value)[:30], 'quad returns `%s` under %s without error propagation although parameters or limits may be observables' % (
                unparse(r_.value), [unparse(t) for t, pol in guards_of(m, r_, stop=f) if pol]), m.loc(r_))
        ctx.check(rule, 'integrate.py:quad#plain', len(plain) == 1 and unparse(plain[0].value) == 'integration_result', 'without observables scipy\'s result is returned', 'plain return: %s' % [unparse(s.value) for s in plain])
    # sibling agreement: the integral of the value and the integrals of the parameter derivatives are the same integral
    # (same weight function, same singular points, same accuracy): every call of the integrator forwards the same options
    sq = [c for c in walk(f) if isinstance(c, ast.Call) and call_name(c) == 'squad']
    opts = {tuple(sorted((k.arg or '**', unparse(k.value)) for k in c.keywords if k.arg not in ('a', 'b', 'func'))) for c in sq}     # the limits may be passed by keyword
    ctx.check(rule, 'integrate.py:quad#same-options', len(sq) >= 2 and len(opts) == 1 and any(k[0] == '**' for k in next(iter(opts))),
              'all %d integrator calls forward the same option dictionary' % len(sq),
              'the integrator calls differ in their options: %s (a weight / singular-point option that reaches only the value integral gives a gradient of a different integral)' % sorted(opts), m.loc(f))
    pv = find_def(f, 'pval')
    ctx.check(rule, 'integrate.py:quad#pval', len(pv) == 1 and 'p[i].value if isobs[i] else p[i]' in unparse(pv[0].value), 'pval = central values of the parameters', 'pval=%s' % [unparse(s.value) for s in pv])
    bv = find_def(f, 'bval')
    ctx.check(rule, 'integrate.py:quad#bval', len(bv) == 1 and 'bounds[i].value if isobs_b[i] else bounds[i]' in unparse(bv[0].value), 'bval = central values of the limits', 'bval=%s' % [unparse(s.value) for s in bv])


def run(ctx):
    ctx.rule('C09-D1', 'find_root: implicit-function wiring')
    ctx.rule('C09-D2', 'quad: Leibniz-rule wiring')
    ctx.not_decided += ['correctness of fsolve / scipy quad', 'equality with analytic inverses / antiderivatives']
    ctx.guarded('C09-D1', 'roots.py:find_root', d1_root, ctx)
    ctx.guarded('C09-D2', 'integrate.py:quad', d2_quad, ctx)
    ctx.rule('C09-D3', 'no hidden state shared between calls (memoisation keyed by code object / name / length); no loop variable read after its loop')
    for mn_ in ('roots', 'integrate'):
        mm_ = ctx.repo.mod(mn_)
        ctx.guarded('C09-D3', mn_ + '@hidden-state', hiddenstate.check, ctx, 'C09-D3', mm_, [q for q, _ in mm_.functions() if '.' not in q], 'the propagated derivative')
    from .. import unusedparams, leakedloop
    for mn_ in ('roots', 'integrate'):
        ctx.guarded('C09-D3', mn_ + '@parameters', unusedparams.check, ctx, 'C09-D3', ctx.repo.mod(mn_))
        ctx.guarded('C09-D3', mn_ + '@loop-variables', leakedloop.check, ctx, 'C09-D3', ctx.repo.mod(mn_))
    ctx.floor('C09 obligations', len(ctx.obs), 20)


SELFTEST = [
    ('quad-options-truthy-only', 'pyerrors/integrate.py', '    ikwargs = {k: kwargs[k] for k in intpars if k in kwargs}', '    ikwargs = {k: kwargs[k] for k in intpars if kwargs.get(k)}', 'C09-D2'),
    ('derivint-zeros-for-empty-range', 'pyerrors/integrate.py', '    derivint = []\n', '    derivint = []\n    if bval[0] == bval[1]:\n        derivint = [0.0] * (len(pobs) + len(bobs))\n', 'C09-D2'),
    ('start-from-data', 'pyerrors/roots.py', '    root = scipy.optimize.fsolve(func, guess, d_val)', '    if guess is None:\n        guess = d_val.ravel()[0]\n    root = scipy.optimize.fsolve(func, guess, d_val)', 'C09-D1'),
    ('benign-start-none-default', 'pyerrors/roots.py', 'def find_root(d, func, guess=1.0, **kwargs):', 'def find_root(d, func, guess=None, **kwargs):\n    if guess is None:\n        guess = 1.0', 'BENIGN'),
    ('derivative-integrals-lose-options', 'pyerrors/integrate.py', "derivint.append(squad(ifunc, bounds[0], bounds[1], **ikwargs)[0])", "derivint.append(squad(ifunc, bounds[0], bounds[1])[0])", 'C09-D2'),
    ('root-sign', 'pyerrors/roots.py', "    deriv = - da / dx", "    deriv = da / dx", 'C09-D1'),
    ('root-inverted', 'pyerrors/roots.py', "    deriv = - da / dx", "    deriv = - dx / da", 'C09-D1'),
    ('root-swap-call', 'pyerrors/roots.py', "da = jacobian(lambda u, v: func(v, u))(d_val, root[0])", "da = jacobian(lambda u, v: func(v, u))(root[0], d_val)", 'C09-D1'),
    ('root-noswap', 'pyerrors/roots.py', "da = jacobian(lambda u, v: func(v, u))(d_val, root[0])", "da = jacobian(lambda u, v: func(u, v))(d_val, root[0])", 'C09-D1'),
    ('root-dx-point', 'pyerrors/roots.py', "dx = jacobian(func)(root[0], d_val)", "dx = jacobian(func)(guess, d_val)", 'C09-D1'),
    ('root-carrier', 'pyerrors/roots.py', "np.finfo(np.float64).eps) * root[0],", "np.finfo(np.float64).eps) * guess,", 'C09-D1'),
    ('quad-signs', 'pyerrors/integrate.py', "    bsign = [-1, 1]", "    bsign = [1, -1]", 'C09-D2'),
    ('quad-limit-index', 'pyerrors/integrate.py', "derivint.append(bsign[i] * func(pval, bval[i]))", "derivint.append(bsign[i] * func(pval, bval[1 - i]))", 'C09-D2'),
    ('quad-order', 'pyerrors/integrate.py', "pobs + bobs, man_grad=derivint)", "bobs + pobs, man_grad=derivint)", 'C09-D2'),
    ('quad-param-index', 'pyerrors/integrate.py', "ifunc = np.vectorize(lambda x: jac(pval, x)[i])", "ifunc = np.vectorize(lambda x: jac(pval, x)[0])", 'C09-D2'),
    ('quad-carrier', 'pyerrors/integrate.py', "(pval[0] + np.finfo(np.float64).eps) + val, pobs", "(pval[0] + np.finfo(np.float64).eps) + val + x[0], pobs", 'C09-D2'),
    ('quad-bounds', 'pyerrors/integrate.py', "    bounds = [a, b]", "    bounds = [b, a]", 'C09-D2'),
]

SELFTEST += [
    ('quad-kwargs-dropped', 'pyerrors/integrate.py', "    ikwargs = {k: kwargs[k] for k in intpars if k in kwargs}", "    ikwargs = {}", 'C09-D3'),
    ('jacobian-cache-by-code', 'pyerrors/roots.py', "from .obs import derived_observable\n", "from .obs import derived_observable\n\n_jac_cache = {}\n\n\ndef _jac(func):\n    key = getattr(func, '__code__', func)\n    if key not in _jac_cache:\n        _jac_cache[key] = func\n    return _jac_cache[key]\n", 'C09-D3'),
]
