"""C10  Matrix operations on observable matrices satisfy their defining identities.

Decides only:
  D1 autograd discipline of every function linalg hands to derived_observable (shared engine with C01-D2)
  D2 complex matrix product: (R R' - I I') + i (R I' + I R') with non-commuting factors, operand layout (re, im, re, im, ...), part selection
  D3 real block representation [[A, -B], [B, A]] agrees with the extraction slices; _scalar_mat_op rebuilds the matrix row-major
  D4 each public function applies the numpy.linalg function (and result component) its name denotes; array_mode where arrays map to arrays
  D5 jackknife product / einsum keep operand order and convert with the matching exporter
"""
import ast

from ..srcmodel import Unrecognised, unparse, call_name, kwarg, walk, statements, guards_of, const
from ..matx import MatX, show
from . import C01
from .C07 import find_def

LEVEL = 'other'
EXPLANATION = ('autograd discipline (alias resolved), non-commutative normal form of the complex product, layout agreement of block construction and extraction slices, '
               'row-major reconstruction index, naming/dispatch agreement with numpy.linalg')
LEVEL_TEXT = ('decides only: functions differentiated by autograd use autograd.numpy; complex product formula with non-commuting symbols and the (re, im) operand layout; '
              'block [[A,-B],[B,A]] vs extraction slices; row-major index j + dim*i; name -> numpy.linalg function table; operand order in the jackknife products. '
              'The identities A A^-1 = 1 etc. between observables are numerical and not decided.')
TECHNIQUE = 'alias-resolved call analysis, matrix-expression normal form with non-commuting factors, layout/slice agreement'

S = lambda n: ('sym', n)


def d1(ctx, lin):
    n = 0
    for call, qual in C01.mangrad_sites(lin):
        if kwarg(call, 'man_grad') is None:
            n += 1
            ctx.guarded('C10-D1', 'linalg.py:%s@autograd' % qual, C01.autograd_discipline, ctx, lin, call, qual, 'C10-D1')
    ctx.floor('functions differentiated by autograd in linalg.py', n, 14)


def _assembles(mod, f, call, re_arr, im_arr):
    """`res[IDX] = CObs(re_arr[IDX], im_arr[IDX])` for every index IDX of the arrays: the loop runs over np.ndenumerate of one of them (the
    entry it yields may stand for that array's element) and the same index addresses the store and both parts"""
    if len(call.args) != 2 or call.keywords:
        return False
    st = mod.parents.get(call)
    if not (isinstance(st, ast.Assign) and st.value is call and len(st.targets) == 1 and isinstance(st.targets[0], ast.Subscript)):
        return False
    loop = mod.parents.get(st)
    if not (isinstance(loop, ast.For) and isinstance(loop.iter, ast.Call) and call_name(loop.iter) == 'ndenumerate' and len(loop.iter.args) == 1
            and isinstance(loop.target, ast.Tuple) and len(loop.target.elts) == 2 and isinstance(loop.target.elts[1], ast.Name)):
        return False
    over = unparse(loop.iter.args[0])
    it = loop.target.elts[0]
    def itext(n_):
        return ', '.join(unparse(e) for e in n_.elts) if isinstance(n_, ast.Tuple) else unparse(n_)
    idx = itext(it)
    val = loop.target.elts[1].id
    if over not in (re_arr, im_arr) or itext(st.targets[0].slice) != idx:
        return False
    # neither the index nor the entry is rebound in the body
    if any(isinstance(w, ast.Name) and isinstance(w.ctx, ast.Store) and (w.id == val or w.id in idx.split(', ')) for b in loop.body for w in ast.walk(b)):
        return False
    a, b = ['%s[%s]' % (unparse(x.value), itext(x.slice)) if isinstance(x, ast.Subscript) else unparse(x) for x in call.args]
    return a in ('%s[%s]' % (re_arr, idx),) + ((val,) if over == re_arr else ()) and b in ('%s[%s]' % (im_arr, idx),) + ((val,) if over == im_arr else ())


def d2_complex_product(ctx, lin):
    rule = 'C10-D2'
    f = lin.func('matmul')
    cands = [nd for q, nd in lin.functions() if q.startswith('matmul.') and q.count('.') == 1
             and any(isinstance(s_, ast.For) and isinstance(s_.target, ast.Tuple) for s_ in nd.body)]
    inner = [nd for nd in cands if nd.name == 'multi_dot']
    own_loop = {nd.name: nd for nd in cands if nd.name in ('multi_dot_r', 'multi_dot_i')}
    if len(inner) != 1 and len(own_loop) != 2:
        ctx.unrec(rule, 'linalg.py:matmul.multi_dot#complex', 'complex product (a nested function with the loop over (re, im) operand pairs) not found')
        return

    def product_checks(md):
        ops, part = md.args.args[0].arg, (md.args.args[1].arg if len(md.args.args) > 1 else None)
        loops = [s for s in md.body if isinstance(s, ast.For)]
        if len(loops) != 1 or not isinstance(loops[0].target, ast.Tuple):
            ctx.unrec(rule, 'linalg.py:matmul.multi_dot#complex', 'loop over operand pairs not found')
            return None
        lp = loops[0]
        o_r, o_i = [unparse(e) for e in lp.target.elts]
        it = unparse(lp.iter)
        ctx.check(rule, 'linalg.py:matmul.multi_dot#operand-layout', it == 'zip(%s[2::2], %s[3::2])' % (ops, ops), 'operands are consumed as (re, im) pairs: even positions real, odd positions imaginary',
                  'pairs are taken from %s' % it, lin.loc(lp))
        init = {unparse(s.targets[0]): unparse(s.value) for s in md.body if isinstance(s, ast.Assign)}
        names = list(init)
        okinit = len(names) >= 2 and init[names[0]] == '%s[0]' % ops and init[names[1]] == '%s[1]' % ops
        sr, si = names[0], names[1]
        ctx.check(rule, 'linalg.py:matmul.multi_dot#start', okinit, 'running product starts with (operands[0], operands[1]) = (re, im)', 'initialisation %s' % init, lin.loc(md) if md is not None else None)
        mx = MatX(lin, None, inline=False)
        asg = {unparse(s.targets[0]): s for s in lp.body if isinstance(s, ast.Assign)}
        # tmp_r, tmp_i then stack_r = tmp_r ...
        upd = {}
        for tgt, s in asg.items():
            upd[tgt] = s.value
        # resolve: stack_r := value of the temp it is assigned from
        def resolved(nm):
            v = upd.get(nm)
            if isinstance(v, ast.Name) and v.id in upd:
                return upd[v.id]
            return v
        vr, vi = resolved(sr), resolved(si)
        if vr is None or vi is None:
            ctx.unrec(rule, 'linalg.py:matmul.multi_dot#formula', 'updates of the running product not found')
            return None
        R, I, Or, Oi = S(sr), S(si), S(o_r), S(o_i)
        want_r = ('sub', ('matmul', R, Or), ('matmul', I, Oi))
        want_i = ('add',) + tuple(sorted([('matmul', R, Oi), ('matmul', I, Or)], key=repr))
        gr, gi = mx.t(vr), mx.t(vi)
        ctx.check(rule, 'linalg.py:matmul.multi_dot#real-part', gr == want_r, 'Re = R R\' - I I\' (factor order kept)', 'real part is %s' % show(gr), lin.loc(lp))
        ctx.check(rule, 'linalg.py:matmul.multi_dot#imag-part', gi == want_i, 'Im = R I\' + I R\' (factor order kept)', 'imaginary part is %s' % show(gi), lin.loc(lp))
        # both updates use the OLD values: temporaries assigned before the running product is overwritten
        order = [unparse(s.targets[0]) for s in lp.body if isinstance(s, ast.Assign)]
        ok_tmp = order.index(sr) > max(i for i, t in enumerate(order) if t not in (sr, si)) if any(t not in (sr, si) for t in order) else False
        ctx.check(rule, 'linalg.py:matmul.multi_dot#simultaneous-update', ok_tmp, 'both parts are computed from the previous product before either is overwritten', 'assignment order %s' % order, lin.loc(lp))
        return sr, si
    if len(inner) != 1:
        # no shared function: each wrapper carries the complex product itself (e.g. after a tuple-returning helper was inlined)
        for nm_, want_idx in (('multi_dot_r', 0), ('multi_dot_i', 1)):
            w_ = own_loop[nm_]
            res = product_checks(w_)
            if res is None:
                continue
            rr = [s_ for s_ in statements(w_) if isinstance(s_, ast.Return)]
            v_ = rr[0].value if len(rr) == 1 else None
            if isinstance(v_, ast.Subscript) and isinstance(v_.value, ast.Tuple) and isinstance(v_.slice, ast.Constant) and isinstance(v_.slice.value, int) and -len(v_.value.elts) <= v_.slice.value < len(v_.value.elts):
                v_ = v_.value.elts[v_.slice.value]
            ctx.check(rule, 'linalg.py:matmul.%s#part-selection' % nm_, v_ is not None and unparse(v_) == res[want_idx],
                      'the wrapper returns the %s running product' % ('real', 'imaginary')[want_idx], 'returns %s, the %s part is %s' % (unparse(v_) if v_ is not None else None, ('real', 'imaginary')[want_idx], res[want_idx]), lin.loc(w_))
        md = None
        sr = si = None
    else:
        md = inner[0]
        res = product_checks(md)
        if res is None:
            return
        sr, si = res
        part = md.args.args[1].arg if len(md.args.args) > 1 else None
    # part selection: what the two wrappers hand to derived_observable, resolved through multi_dot's returns
    rets = [s for s in statements(md) if isinstance(s, ast.Return)] if md is not None else []
    wr = {q.split('.')[-1]: nd for q, nd in lin.functions() if q in ('matmul.multi_dot_r', 'matmul.multi_dot_i')}

    def selected(wrapper):
        rr = [s_ for s_ in statements(wrapper) if isinstance(s_, ast.Return)]
        if len(rr) != 1 or rr[0].value is None:
            return None
        v = rr[0].value
        idx = None
        if isinstance(v, ast.Subscript) and isinstance(v.slice, ast.Constant) and isinstance(v.slice.value, int):
            idx, v = v.slice.value, v.value
        if not (isinstance(v, ast.Call) and call_name(v) == 'multi_dot' and v.args and unparse(v.args[0]) == wrapper.args.args[0].arg):
            return None
        tag = v.args[1].value if len(v.args) > 1 and isinstance(v.args[1], ast.Constant) else (kwarg(v, part).value if part and isinstance(kwarg(v, part), ast.Constant) else None)
        out = None
        for r in rets:
            ok_ = True
            for t_, pol in guards_of(lin, r, stop=md):
                if not (part and isinstance(t_, ast.Compare) and len(t_.ops) == 1 and isinstance(t_.ops[0], (ast.Eq, ast.NotEq)) and unparse(t_.left) == part and isinstance(t_.comparators[0], ast.Constant)):
                    return None
                eq = (tag == t_.comparators[0].value)
                if isinstance(t_.ops[0], ast.NotEq):
                    eq = not eq
                if eq != pol:
                    ok_ = False
            if ok_:
                out = r.value
                break
        if out is None:
            return None
        if idx is not None:
            if not (isinstance(out, ast.Tuple) and -len(out.elts) <= idx < len(out.elts)):
                return None
            out = out.elts[idx]
        return unparse(out)
    sel = {k_: selected(w_) for k_, w_ in wr.items()} if md is not None else {}
    ok = md is None or (sel.get('multi_dot_r') == sr and sel.get('multi_dot_i') == si)
    ctx.check(rule, 'linalg.py:matmul.multi_dot#part-selection', ok, "the wrapper for the real part returns the real running product, the one for the imaginary part the imaginary one", 'selection %s' % sel, lin.loc(md) if md is not None else None)
    ctx.check(rule, 'linalg.py:matmul#wrappers', len(wr) == 2, 'multi_dot_r / multi_dot_i wrappers', 'wrappers differ')
    nr, ni = find_def(f, 'Nr'), find_def(f, 'Ni')
    okn = len(nr) == 1 and len(ni) == 1 and unparse(nr[0].value).startswith('derived_observable(multi_dot_r, extended_operands') and unparse(ni[0].value).startswith('derived_observable(multi_dot_i, extended_operands')
    ctx.check(rule, 'linalg.py:matmul#parts', okn, 'Nr from the real wrapper, Ni from the imaginary wrapper, same operands', 'Nr=%s Ni=%s' % ([unparse(s.value) for s in nr], [unparse(s.value) for s in ni]))
    cc = [c for c in walk(f) if isinstance(c, ast.Call) and call_name(c) == 'CObs']
    ok = len(cc) == 1 and _assembles(lin, f, cc[0], 'Nr', 'Ni')
    ctx.check(rule, 'linalg.py:matmul#assemble', ok, 'result[n, m] = CObs(Nr[n, m], Ni[n, m])', 'assembled as %s' % [unparse(c) for c in cc])
    # extended operands: real appended before imaginary, tmp = (np.real, np.imag)
    ap = [c for c in walk(f) if isinstance(c, ast.Call) and isinstance(c.func, ast.Attribute) and c.func.attr == 'append' and unparse(c.func.value) == 'extended_operands']
    tm = find_def(f, 'tmp')
    ok = [unparse(a.args[0]) for a in ap] == ['tmp[0]', 'tmp[1]'] and len(tm) == 1 and 'lambda x: (np.real(x), np.imag(x))' in unparse(tm[0].value)
    ctx.check(rule, 'linalg.py:matmul#extended-operands', ok, 'operands are split into (re, im) and appended in that order', 'extended operands built by %s from %s' % ([unparse(a) for a in ap], [unparse(s.value) for s in tm]))
    # real case
    real = [nd for q, nd in lin.functions() if q.startswith('matmul.multi_dot') and len(nd.args.args) == 1 and nd.name == 'multi_dot' and nd is not md]
    if len(real) == 1:
        lp2 = [s for s in real[0].body if isinstance(s, ast.For)]
        ok = len(lp2) == 1 and unparse(lp2[0].iter) == '%s[1:]' % real[0].args.args[0].arg and unparse(lp2[0].body[0]) == 'stack = stack @ %s' % unparse(lp2[0].target)
        ctx.check(rule, 'linalg.py:matmul.multi_dot#real', ok, 'real product multiplies the operands from the left to the right', 'real product loop differs')
    else:
        ctx.unrec(rule, 'linalg.py:matmul.multi_dot#real', 'real multi_dot not found')
    am = [c for c in walk(f) if isinstance(c, ast.Call) and call_name(c) == 'derived_observable']
    ok = len(am) == 3 and all(kwarg(c, 'array_mode') is not None and unparse(kwarg(c, 'array_mode')) == 'True' for c in am)
    ctx.check('C10-D4', 'linalg.py:matmul#array_mode', ok, 'matrix products use array_mode', 'array_mode missing at some call')


def d3_blocks(ctx, lin):
    rule = 'C10-D3'
    f = lin.func('_mat_mat_op')
    bm = find_def(f, 'big_matrix')
    key = 'linalg.py:_mat_mat_op#block'
    if len(bm) != 1:
        ctx.unrec(rule, key, 'big_matrix not found')
        return
    v = bm[0].value
    ok = isinstance(v, ast.Call) and (lin.dotted(v.func) or '') == 'numpy.block' and unparse(v.args[0]) == '[[A, -B], [B, A]]'
    ctx.check(rule, key, ok, 'real representation [[A, -B], [B, A]]', 'block is %s' % unparse(v), lin.loc(bm[0]))
    asg = [s for s in statements(f) if isinstance(s, ast.Assign) and isinstance(s.targets[0], ast.Subscript) and unparse(s.targets[0].value) in ('A', 'B')]
    vals = sorted((unparse(s.targets[0].value), unparse(s.value)) for s in asg)
    ctx.check(rule, 'linalg.py:_mat_mat_op#parts', vals == [('A', 'entry'), ('A', 'entry.real'), ('B', '0.0'), ('B', 'entry.imag')], 'A = real parts, B = imaginary parts (0 for real entries)', 'parts %s' % vals)
    # entries with a real and an imaginary part (CObs, complex numbers, numpy complex scalars) must go through .real/.imag
    cond = [s_ for s_ in statements(f) if isinstance(s_, ast.If) and any(isinstance(x, ast.Assign) and unparse(x.targets[0]).startswith('A[') for x in s_.body)]
    if len(cond) != 1:
        ctx.unrec(rule, 'linalg.py:_mat_mat_op#entry-dispatch', 'entry dispatch not found')
    else:
        kinds = {'CObs': {'hasattr': True, 'classes': {'CObs'}}, 'complex': {'hasattr': True, 'classes': {'complex'}}, 'Obs': {'hasattr': False, 'classes': {'Obs'}},
                 'float': {'hasattr': True, 'classes': {'float'}}}

        def ev(e, kind):
            if isinstance(e, ast.BoolOp):
                vs = [ev(v, kind) for v in e.values]
                if any(v is None for v in vs):
                    return None
                return all(vs) if isinstance(e.op, ast.And) else any(vs)
            if isinstance(e, ast.Call) and call_name(e) == 'hasattr' and len(e.args) == 2 and isinstance(e.args[1], ast.Constant) and e.args[1].value in ('real', 'imag'):
                return kinds[kind]['hasattr']
            if isinstance(e, ast.Call) and call_name(e) == 'isinstance' and len(e.args) == 2:
                cls = e.args[1]
                names = {unparse(x) for x in (cls.elts if isinstance(cls, ast.Tuple) else [cls])}
                return bool(names & kinds[kind]['classes'])
            return None
        res = {k: ev(cond[0].test, k) for k in kinds}
        bad = [k for k in ('CObs', 'complex') if res[k] is False] + [k for k in ('Obs',) if res[k] is True]
        if any(v is None for v in res.values()):
            ctx.unrec(rule, 'linalg.py:_mat_mat_op#entry-dispatch', 'cannot evaluate %s' % unparse(cond[0].test))
        else:
            ctx.check(rule, 'linalg.py:_mat_mat_op#entry-dispatch', not bad, 'every entry with a real and an imaginary part is split through .real / .imag, plain observables are taken as real',
                      'entries of kind %s take the wrong branch of `%s`' % (bad, unparse(cond[0].test)), lin.loc(cond[0]))
    oa, ob = find_def(f, 'op_A'), find_def(f, 'op_B')
    dm = find_def(f, 'dim')
    ok = len(oa) == 1 and len(ob) == 1 and unparse(oa[0].value) == 'op_big_matrix[0:dim // 2, 0:dim // 2]' and unparse(ob[0].value) == 'op_big_matrix[dim // 2:, 0:dim // 2]' \
        and len(dm) == 1 and unparse(dm[0].value) == 'op_big_matrix.shape[0]'
    ctx.check(rule, 'linalg.py:_mat_mat_op#extraction', ok, 'result real part = top-left block, imaginary part = bottom-left block (where +B sits)',
              'extraction %s / %s' % ([unparse(s.value) for s in oa], [unparse(s.value) for s in ob]))
    cc = [c for c in walk(f) if isinstance(c, ast.Call) and call_name(c) == 'CObs']
    ok = len(cc) == 1 and _assembles(lin, f, cc[0], 'op_A', 'op_B')
    ctx.check(rule, 'linalg.py:_mat_mat_op#assemble', ok, 'result[n, m] = CObs(op_A[n, m], op_B[n, m])', 'assembled as %s' % [unparse(c) for c in cc])
    dcs = [c for c in walk(f) if isinstance(c, ast.Call) and call_name(c) == 'derived_observable']
    ok = len(dcs) == 2 and all(unparse(kwarg(c, 'array_mode')) == 'True' for c in dcs if kwarg(c, 'array_mode') is not None) and all(kwarg(c, 'array_mode') is not None for c in dcs) \
        and all(isinstance(lin.parents.get(c), ast.Subscript) and const(lin.parents[c].slice) == 0 for c in dcs) and sorted(unparse(c.args[1]) for c in dcs) == ['[big_matrix]', '[obs]']
    ctx.check('C10-D4', 'linalg.py:_mat_mat_op#array_mode', ok, 'op is applied to the whole matrix in array_mode and component [0] is taken', 'derived_observable calls %s' % [unparse(c)[:80] for c in dcs])
    # _scalar_mat_op
    g = lin.func('_scalar_mat_op._mat')
    ap = [c for c in walk(g) if isinstance(c, ast.Call) and isinstance(c.func, ast.Attribute) and c.func.attr == 'append' and unparse(c.func.value) == 'row']
    key = 'linalg.py:_scalar_mat_op._mat#row-major'
    if len(ap) != 1:
        ctx.unrec(rule, key, 'row.append not found')
    else:
        lj = lin.parents.get(lin.parents.get(ap[0]))
        li = lin.parents.get(lj)
        x = g.args.args[0].arg
        ok = isinstance(lj, ast.For) and isinstance(li, ast.For) and unparse(ap[0].args[0]) in ('%s[%s + dim * %s]' % (x, unparse(lj.target), unparse(li.target)), '%s[dim * %s + %s]' % (x, unparse(li.target), unparse(lj.target))) \
            and unparse(li.iter) == 'range(dim)' and unparse(lj.iter) == 'range(dim)'
        ctx.check(rule, key, ok, 'element (i, j) = x[j + dim*i]: row-major, as ravel() produced it', 'element is %s in loops %s/%s' % (unparse(ap[0].args[0]), unparse(li.target) if isinstance(li, ast.For) else None, unparse(lj.target) if isinstance(lj, ast.For) else None))
    so = lin.func('_scalar_mat_op')
    rv = find_def(so, 'raveled_obs')
    ok = len(rv) == 1 and '.ravel()' in unparse(rv[0].value) and 'order' not in unparse(rv[0].value)
    ctx.check(rule, 'linalg.py:_scalar_mat_op#ravel', ok, 'input flattened in C order', 'raveled_obs = %s' % [unparse(s.value) for s in rv])
    dm = find_def(g, 'dim')
    ctx.check(rule, 'linalg.py:_scalar_mat_op._mat#dim', len(dm) == 1 and unparse(dm[0].value) == 'int(np.sqrt(len(%s)))' % g.args.args[0].arg, 'dim = sqrt(number of entries)', 'dim = %s' % [unparse(s.value) for s in dm])


NAMING = {
    'inv': ('_mat_mat_op', 'autograd.numpy.linalg.inv', None),
    'cholesky': ('_mat_mat_op', 'autograd.numpy.linalg.cholesky', None),
    'det': ('_scalar_mat_op', 'autograd.numpy.linalg.det', None),
}
DIRECT = {
    'eigh': [('autograd.numpy.linalg.eigh', 0), ('autograd.numpy.linalg.eigh', 1)],
    'eigv': [('autograd.numpy.linalg.eigh', 1)],
    'pinv': [('autograd.numpy.linalg.pinv', None)],
    'svd': [('autograd.numpy.linalg.svd', 0), ('autograd.numpy.linalg.svd', 1), ('autograd.numpy.linalg.svd', 2)],
    'eig': [('autograd.numpy.linalg.eig', 0)],
}


def d4_naming(ctx, lin):
    rule = 'C10-D4'
    for name, (helper, fn, _) in NAMING.items():
        f = lin.func(name)
        r = [s for s in statements(f) if isinstance(s, ast.Return)]
        ok = len(r) == 1 and isinstance(r[0].value, ast.Call) and call_name(r[0].value) == helper and (lin.dotted(r[0].value.args[0]) or '') == fn
        ctx.check(rule, 'linalg.py:%s#applies' % name, ok, '%s applies %s' % (name, fn), '%s returns %s' % (name, [unparse(x.value) for x in r]), lin.loc(f))
    for name, comps in DIRECT.items():
        f = lin.func(name)
        got = []
        for c in walk(f):
            if isinstance(c, ast.Call) and call_name(c) == 'derived_observable' and isinstance(c.args[0], ast.Lambda):
                body = c.args[0].body
                idx = None
                inner = body
                # strip wrappers like anp.real(...)
                if isinstance(inner, ast.Call) and (lin.dotted(inner.func) or '') in ('autograd.numpy.real',) and inner.args:
                    inner = inner.args[0]
                if isinstance(inner, ast.Subscript):
                    idx = const(inner.slice)
                    inner = inner.value
                if isinstance(inner, ast.Call):
                    got.append((lin.dotted(inner.func) or '', idx))
        ctx.check(rule, 'linalg.py:%s#applies' % name, got == comps, '%s applies %s' % (name, comps), '%s applies %s, its name/documentation denotes %s' % (name, got, comps), lin.loc(f))
    f = lin.func('svd')
    fm = [c for c in walk(f) if isinstance(c, ast.Call) and (lin.dotted(c.func) or '') == 'autograd.numpy.linalg.svd']
    ok = len(fm) == 3 and all(kwarg(c, 'full_matrices') is not None and unparse(kwarg(c, 'full_matrices')) == 'False' for c in fm)
    ctx.check(rule, 'linalg.py:svd#reduced', ok, 'reduced SVD in all three components (U S V^h = A)', 'full_matrices differs between components')
    r = [s for s in statements(f) if isinstance(s, ast.Return)]
    ctx.check(rule, 'linalg.py:svd#order', len(r) == 1 and unparse(r[0].value) == '(u, s, vh)', 'returns (u, s, vh)', 'returns %s' % [unparse(x.value) for x in r])
    f = lin.func('eigh')
    r = [s for s in statements(f) if isinstance(s, ast.Return)]
    ctx.check(rule, 'linalg.py:eigh#order', len(r) == 1 and unparse(r[0].value) == '(w, v)', 'returns (w, v)', 'returns %s' % [unparse(x.value) for x in r])
    # cholesky rejects complex input
    f = lin.func('cholesky')
    rs = [s for s in statements(f) if isinstance(s, ast.Raise)]
    ctx.check(rule, 'linalg.py:cholesky#complex-rejected', len(rs) == 1 and 'CObs' in unparse(guards_of(lin, rs[0], stop=f)[0][0]), 'complex matrices rejected', 'no guard')


def d5_jack(ctx, lin):
    rule = 'C10-D5'
    f = lin.func('jack_matmul')
    loops = [s for s in statements(f) if isinstance(s, ast.For) and unparse(s.iter) == 'operands[1:]']
    ctx.check(rule, 'linalg.py:jack_matmul#order', len(loops) == 2, 'both branches multiply operands[1:] in order', 'loops found %d' % len(loops))
    for lp in loops:
        upd = [s for s in walk(lp) if isinstance(s, ast.Assign)]
        ok = all(unparse(s.targets[0]) == 'r' and isinstance(s.value, ast.BinOp) and isinstance(s.value.op, ast.MatMult) and unparse(s.value.left) == 'r' for s in upd) and len(upd) == 2
        cplx = any('_exp_to_jack_c' in unparse(s.value) for s in upd)
        ctx.check(rule, 'linalg.py:jack_matmul#right-multiplication[%s]' % ('complex' if cplx else 'real'), ok, 'r = r @ next operand', 'updates %s' % [unparse(s) for s in upd], lin.loc(lp))
    # exporter pairing
    ec = lin.func('jack_matmul._exp_to_jack_c')
    ok = 'entry.real.export_jackknife() + 1j * entry.imag.export_jackknife()' in unparse(ec)
    ctx.check(rule, 'linalg.py:jack_matmul._exp_to_jack_c', ok, 'complex samples = re + i im', 'complex exporter differs')
    ic = lin.func('jack_matmul._imp_from_jack_c')
    ok = 'CObs(import_jackknife(entry.real, name, [idl]), import_jackknife(entry.imag, name, [idl]))' in unparse(ic)
    ctx.check(rule, 'linalg.py:jack_matmul._imp_from_jack_c', ok, 'complex import = CObs(import(re), import(im))', 'complex importer differs')
    rets = [s for s in statements(f) if isinstance(s, ast.Return) and lin.enclosing_func(s) is f]
    vals = sorted(unparse(r.value) for r in rets)
    ctx.check(rule, 'linalg.py:jack_matmul#import', vals == ['_imp_from_jack(r, name, idl)', '_imp_from_jack_c(r, name, idl)'], 'result imported with the name and idl of the first operand', 'returns %s' % vals)
    e = lin.func('einsum')
    js = find_def(e, 'jack_einsum')
    ok = len(js) == 1 and unparse(js[0].value).startswith('np.einsum(extended_subscripts, *conv_operands')
    ctx.check(rule, 'linalg.py:einsum#operands', ok, 'einsum over the converted operands in the given order', 'jack_einsum = %s' % [unparse(s.value) for s in js])
    ap = [c for c in walk(e) if isinstance(c, ast.Call) and isinstance(c.func, ast.Attribute) and c.func.attr == 'append' and unparse(c.func.value) == 'conv_operands']
    vals = [unparse(c.args[0]) for c in ap]
    ctx.check(rule, 'linalg.py:einsum#conversion', vals == ['_exp_to_jack_c(op)', '_exp_to_jack(op)', 'op'], 'each operand is converted once with the exporter of its kind', 'conversions %s' % vals)


def d6_einsum_importer(ctx, lin, rule='C10-D5'):
    """jackknife einsum: whether the result is complex is a property of the contracted jackknife samples (one complex operand, in any
    position, makes it complex): the importer is chosen by the dtype of the result, not by the first Obs-valued operand"""
    f = lin.func('einsum')
    calls = [c for c in walk(f) if isinstance(c, ast.Call) and call_name(c) in ('_imp_from_jack', '_imp_from_jack_c') and mod_stmt_is_toplevel(lin, c, f)]
    ok = bool(calls)
    why = ''
    for c in calls:
        g = [unparse(t) for t, pol in guards_of(lin, c, stop=f)]
        if not any('.dtype' in x for x in g):
            ok = False
            why = '`%s` is reached under %s' % (unparse(c), g)
    indirect = [c for c in walk(f) if isinstance(c, ast.Call) and isinstance(c.func, ast.Name) and c.func.id not in ('_imp_from_jack', '_imp_from_jack_c')
                and any(isinstance(s_, ast.Assign) and unparse(s_.targets[0]) == c.func.id and unparse(s_.value) in ('_imp_from_jack', '_imp_from_jack_c') for s_ in statements(f))]
    if indirect:
        ok = False
        why = 'the importer `%s` is chosen while the operands are scanned' % unparse(indirect[0].func)
    ctx.check(rule, 'linalg.py:einsum#importer-by-result-dtype', ok, 'complex result -> complex importer, real result -> real importer (decided on jack_einsum.dtype)',
              'the importer of the result is not selected by the dtype of the contracted samples (%s): a real Obs operand listed before a complex one sends complex samples through the real importer' % why, lin.loc(f))


def mod_stmt_is_toplevel(lin, c, f):
    q = lin.parents.get(c)
    while q is not None and q is not f:
        if isinstance(q, (ast.FunctionDef, ast.Lambda)):
            return False
        q = lin.parents.get(q)
    return True


def run(ctx):
    ctx.rule('C10-D1', 'autograd discipline of functions handed to derived_observable')
    ctx.rule('C10-D2', 'complex matrix product (non-commuting), operand layout, part selection')
    ctx.rule('C10-D3', 'block representation vs extraction; row-major reconstruction')
    ctx.rule('C10-D4', 'name -> numpy.linalg function/component table; array_mode')
    ctx.rule('C10-D5', 'jackknife product / einsum operand order and conversion')
    ctx.not_decided += ['A A^-1 = 1, L L^T = A, A v = lambda v ... as identities between observables', 'O(1/N) agreement of jackknife products']
    lin = ctx.repo.mod('linalg')
    d1(ctx, lin)
    ctx.guarded('C10-D2', 'linalg.py:matmul', d2_complex_product, ctx, lin)
    ctx.guarded('C10-D3', 'linalg.py@blocks', d3_blocks, ctx, lin)
    ctx.guarded('C10-D4', 'linalg.py@naming', d4_naming, ctx, lin)
    # the array_mode branch of derived_observable carries every matrix operation: per-element alignment and scale factor
    from . import C01
    ctx.guarded('C10-D4', 'obs.py:derived_observable@array_mode', C01.derived_alignment, ctx, ctx.repo.mod('obs'), 'C10-D4')
    ctx.guarded('C10-D5', 'linalg.py@jack', d5_jack, ctx, lin)
    ctx.guarded('C10-D5', 'linalg.py:einsum@importer', d6_einsum_importer, ctx, lin)
    # elements are visited in index order: np.nditer walks in MEMORY order unless order='C' is given, so a transposed / Fortran-ordered
    # operand is exported in another order than the reshape to matrix.shape assumes
    for c_ in walk(lin.tree):
        if isinstance(c_, ast.Call) and call_name(c_) == 'nditer' and not (kwarg(c_, 'order') is not None and const(kwarg(c_, 'order')) == 'C'):
            ctx.violated('C10-D5', 'linalg.py:%s#memory-order-iteration' % lin.enclosing_qualname(c_), '`%s` visits the elements in memory order, not in index order: for a transposed view or a '
                         'Fortran-ordered array the exported elements land at the wrong positions after the reshape' % unparse(c_)[:70], lin.loc(c_))
    from .. import unusedparams, leakedloop
    ctx.rule('C10-D6', 'every accepted option is read (no silently ignored parameter); no loop variable read after its loop')
    for mn_ in ('linalg',):
        ctx.guarded('C10-D6', mn_ + '@parameters', unusedparams.check, ctx, 'C10-D6', ctx.repo.mod(mn_))
        ctx.guarded('C10-D6', mn_ + '@loop-variables', leakedloop.check, ctx, 'C10-D6', ctx.repo.mod(mn_))



SELFTEST = [
    ('complex-product-sign', 'pyerrors/linalg.py', "tmp_r = stack_r @ op_r - stack_i @ op_i", "tmp_r = stack_r @ op_r + stack_i @ op_i", 'C10-D2'),
    ('complex-product-order', 'pyerrors/linalg.py', "tmp_i = stack_r @ op_i + stack_i @ op_r", "tmp_i = op_i @ stack_r + stack_i @ op_r", 'C10-D2'),
    ('operand-layout', 'pyerrors/linalg.py', "for op_r, op_i in zip(operands[2::2], operands[3::2]):", "for op_i, op_r in zip(operands[2::2], operands[3::2]):", None),
    ('no-temporaries', 'pyerrors/linalg.py', "                tmp_r = stack_r @ op_r - stack_i @ op_i\n                tmp_i = stack_r @ op_i + stack_i @ op_r\n\n                stack_r = tmp_r\n                stack_i = tmp_i", "                stack_r = stack_r @ op_r - stack_i @ op_i\n                stack_i = stack_r @ op_i + stack_i @ op_r", None),
    ('part-selection', 'pyerrors/linalg.py', "            return multi_dot(operands, 'Imag')", "            return multi_dot(operands, 'Real')", 'C10-D2'),
    ('block-sign', 'pyerrors/linalg.py', "big_matrix = np.block([[A, -B], [B, A]])", "big_matrix = np.block([[A, B], [-B, A]])", 'C10-D3'),
    ('block-extraction', 'pyerrors/linalg.py', "op_B = op_big_matrix[dim // 2:, 0: dim // 2]", "op_B = op_big_matrix[0: dim // 2, dim // 2:]", 'C10-D3'),
    ('entry-dispatch-isinstance', 'pyerrors/linalg.py', "            if hasattr(entry, 'real') and hasattr(entry, 'imag'):\n                A[n, m] = entry.real", "            if isinstance(entry, CObs):\n                A[n, m] = entry.real", 'C10-D3'),
    ('row-major', 'pyerrors/linalg.py', "row.append(x[j + dim * i])", "row.append(x[i + dim * j])", 'C10-D3'),
    ('det-is-inv', 'pyerrors/linalg.py', "return _scalar_mat_op(anp.linalg.det, x)", "return _scalar_mat_op(anp.linalg.slogdet, x)", 'C10-D4'),
    ('eigv-component', 'pyerrors/linalg.py', "    v = derived_observable(lambda x, **kwargs: anp.linalg.eigh(x)[1], obs)\n    return v", "    v = derived_observable(lambda x, **kwargs: anp.linalg.eigh(x)[0], obs)\n    return v", 'C10-D4'),
    ('svd-full', 'pyerrors/linalg.py', "s = derived_observable(lambda x, **kwargs: anp.linalg.svd(x, full_matrices=False)[1], obs)", "s = derived_observable(lambda x, **kwargs: anp.linalg.svd(x, full_matrices=True)[1], obs)", 'C10-D4'),
    ('np-in-mat', 'pyerrors/linalg.py', "        return op(anp.array(mat))", "        return op(np.array(mat))", 'C10-D1'),
    ('jack-order', 'pyerrors/linalg.py', "            if isinstance(op.flat[0], Obs):\n                r = r @ _exp_to_jack(op)", "            if isinstance(op.flat[0], Obs):\n                r = _exp_to_jack(op) @ r", 'C10-D5'),
    ('jack-imag', 'pyerrors/linalg.py', "            base_matrix[index] = entry.real.export_jackknife() + 1j * entry.imag.export_jackknife()\n        return base_matrix\n\n    def _imp_from_jack_c", "            base_matrix[index] = entry.real.export_jackknife() - 1j * entry.imag.export_jackknife()\n        return base_matrix\n\n    def _imp_from_jack_c", 'C10-D5'),
]
