"""C11  JSON serialisation round-trips losslessly and conforms to the shipped schema.

Decides only:
  D1 the abstract document built by create_json_string is contained in examples/json_schema.json (required keys always written, value types allowed)
  D2 keys read by _parse_json_dict are keys the writer produces; type tags written = tags dispatched on, both with a rejecting else
  D3 sibling agreement: the three writers emit the same key set under the same conditions, the three readers restore the same slot set
  D4 the replica-mean encoding is inverted exactly (algebra)
  D5 reader / writer do not mutate their inputs (effects)
  D6 transports: every encoder is paired with its decoder
"""
import ast
import json as pyjson
import os

import sympy as sp

from ..srcmodel import established_false, Unrecognised, AnchorMissing, unparse, call_name, kwarg, walk, statements, guards_of, const
from ..effects import Analyzer, clean_path, significant
from .C04 import _bool_typed
from .C07 import find_def

LEVEL = 'other'
EXPLANATION = ('abstract interpretation of the dict-building code of the JSON writer (key -> JSON type, conditional or not) checked against the schema file read from the repository; '
               'key/tag table agreement between writer and reader; sibling cross-check of the three writers and readers; sympy proof that the offset encoding is inverted; '
               'effect analysis; encoder/decoder pairing of the transports')
LEVEL_TEXT = ('decides only: every key the writer emits has a schema-allowed JSON type and all schema-required keys are written unconditionally; reader keys are a subset of writer keys and '
              'type tags agree; Obs/List/Array writers and readers are consistent siblings (incl. reweighted, tag, covobs, replica means); reader(writer(x)) restores fluctuations and replica '
              'means algebraically; user objects are not mutated; gzip/pickle/utf-8 encoders are paired with their decoders. Bit-exact float text round trips are rapidjson\'s contract and not decided.')
TECHNIQUE = 'abstract document-shape inference vs JSON schema, writer/reader table agreement, sibling cross-check, sympy algebra, effect analysis'


def jtype(mod, func, e, ctx_slots):
    """JSON type of the value expression e (abstract)"""
    if isinstance(e, ast.Constant):
        v = e.value
        if isinstance(v, bool):
            return 'boolean'
        if isinstance(v, str):
            return 'string'
        if isinstance(v, (int, float)):
            return 'number'
        if v is None:
            return 'null'
    if isinstance(e, (ast.List, ast.ListComp)):
        return 'array'
    if isinstance(e, (ast.Dict, ast.DictComp)):
        return 'object'
    if isinstance(e, ast.JoinedStr):
        return 'string'
    if isinstance(e, ast.BinOp) and isinstance(e.op, ast.Mod) and isinstance(e.left, ast.Constant) and isinstance(e.left.value, str):
        return 'string'
    if isinstance(e, ast.BinOp) and isinstance(e.op, ast.Add):
        a, b = jtype(mod, func, e.left, ctx_slots), jtype(mod, func, e.right, ctx_slots)
        if 'string' in (a, b):
            return 'string'
    if isinstance(e, ast.Call):
        cn = call_name(e)
        if cn in ('str', 'strftime', 'getuser', 'gethostname', 'platform', 'rstrip', 'lstrip', 'strip', 'join'):
            return 'string'
        if cn in ('list', 'tolist'):
            return 'array'
        if cn in ('_gen_data_d_from_list', '_gen_cdata_d_from_list'):
            return 'array'
    if isinstance(e, ast.Attribute) and e.attr == 'reweighted':
        return 'boolean' if ctx_slots.get('reweighted_is_bool') else 'numpy-bool-or-boolean'
    if isinstance(e, ast.Name) and func is not None and e.id in [a.arg for a in func.args.args]:
        return 'any'          # caller supplied value (e.g. the free-form description)
    if isinstance(e, ast.Name) and func is not None:
        defs = [s for s in statements(func) if isinstance(s, ast.Assign) and any(isinstance(t, ast.Name) and t.id == e.id for t in s.targets)]
        ts = {jtype(mod, func, d.value, ctx_slots) for d in defs}
        if len(ts) == 1:
            return ts.pop()
    if isinstance(e, ast.Attribute) and e.attr == 'prange':
        return 'any'
    return 'unknown:' + unparse(e)[:40]


def doc_shape(mod, func, dname, ctx_slots):
    """stores `dname['k'] = v` in func: {key: (jtype, conditional?)}"""
    out = {}
    for s in statements(func):
        if isinstance(s, ast.Assign) and isinstance(s.targets[0], ast.Subscript) and unparse(s.targets[0].value) == dname and isinstance(s.targets[0].slice, ast.Constant):
            k = s.targets[0].slice.value
            cond = bool([t for t, pol in guards_of(mod, s, stop=func)])
            t = jtype(mod, func, s.value, ctx_slots)
            if k in out:
                out[k] = (out[k][0] if out[k][0] == t else out[k][0] + '|' + t, out[k][1] and cond, out[k][2] + [unparse(t2) for t2, _ in guards_of(mod, s, stop=func)])
            else:
                out[k] = (t, cond, [unparse(t2) for t2, _ in guards_of(mod, s, stop=func)])
    return out


def allowed(schema_type, t):
    if t == 'any':
        return True
    st = schema_type if isinstance(schema_type, list) else [schema_type]
    if t == 'number':
        return 'number' in st or 'integer' in st
    return t in st


def d1_schema(ctx, js):
    rule = 'C11-D1'
    sp_ = os.path.join(ctx.repo.root, 'examples', 'json_schema.json')
    if not os.path.exists(sp_):
        raise AnchorMissing('examples/json_schema.json not found')
    schema = pyjson.load(open(sp_))
    # reweighted slot type over the whole package (shared with C04-D2)
    okb = True
    for mn, m in ctx.repo.modules.items():
        for node in ast.walk(m.tree):
            if isinstance(node, ast.Assign):
                for t in node.targets:
                    if isinstance(t, ast.Attribute) and t.attr == 'reweighted':
                        if not _bool_typed(m, m.enclosing_func(node), node.value):
                            okb = False
                            ctx.violated(rule, 'json#reweighted-slot-type[%s:%s]' % (m.relpath.replace('pyerrors/', ''), m.enclosing_qualname(node)),
                                         'the reweighted slot may hold %s (not a Python bool): the writer copies it into the document where the schema requires a boolean '
                                         'and rapidjson cannot serialise numpy.bool_' % unparse(node.value), m.loc(node))
    slots = {'reweighted_is_bool': okb}
    f = js.func('create_json_string')
    top = doc_shape(js, f, 'd', slots)
    props = schema['properties']
    for k in schema.get('required', []):
        ctx.check(rule, 'json#top-required[%s]' % k, k in top and not top[k][1], 'required key %s is always written' % k, 'required top-level key %s is %s' % (k, 'conditional' if k in top else 'never written'))
    for k, (t, cond, g) in top.items():
        if k in props:
            ctx.check(rule, 'json#top-type[%s]' % k, allowed(props[k]['type'], t), 'top-level %s: %s allowed by the schema' % (k, t), 'top-level key %s is written as %s, schema allows %s' % (k, t, props[k]['type']))
        else:
            ctx.violated(rule, 'json#top-unknown[%s]' % k, 'top-level key %s is not described by the schema' % k)
    items = schema['$defs']['obsdata_items']
    for w in ('write_Obs_to_dict', 'write_List_to_dict', 'write_Array_to_dict'):
        wf = js.func('create_json_string.' + w)
        sh = doc_shape(js, wf, 'd', slots)
        for k in items['required']:
            ctx.check(rule, 'json#%s-required[%s]' % (w, k), k in sh and not sh[k][1], 'required key %s is always written' % k, '%s: required key %s is %s' % (w, k, 'conditional' if k in sh else 'never written'), js.loc(wf))
        for k, (t, cond, g) in sh.items():
            if k not in items['properties']:
                ctx.violated(rule, 'json#%s-unknown[%s]' % (w, k), '%s writes key %s which the schema does not describe' % (w, k), js.loc(wf))
            else:
                ctx.check(rule, 'json#%s-type[%s]' % (w, k), allowed(items['properties'][k]['type'], t), '%s: %s allowed' % (k, t),
                          '%s writes %s as %s, schema allows %s' % (w, k, t, items['properties'][k]['type']), js.loc(wf))
    # Corr: type overwritten with a string, tag becomes an object (allowed: tag may be any type)
    cf = js.func('create_json_string.write_Corr_to_dict')
    sh = doc_shape(js, cf, 'dat', slots)
    ctx.check(rule, 'json#write_Corr_to_dict-type', sh.get('type', ('',))[0] == 'string', 'Corr structures carry a string type tag', 'Corr type tag: %s' % (sh.get('type'),), js.loc(cf))
    base = [c for c in walk(cf) if isinstance(c, ast.Call) and call_name(c) == 'write_Array_to_dict']
    ctx.check(rule, 'json#write_Corr_to_dict-base', len(base) == 1, 'Corr document = Array document + tag/prange', 'Corr writer does not build on write_Array_to_dict', js.loc(cf))
    # nested: data / cdata
    for fn, dn, defn in (('_gen_data_d_from_list', 'ed', 'ensdata_items'), ('_gen_data_d_from_list', 'rd', 'repdata_items'), ('_gen_cdata_d_from_list', 'ed', 'cdata_items')):
        gf = js.func('create_json_string.' + fn)
        sh = doc_shape(js, gf, dn, slots)
        sd = schema['$defs'][defn]
        for k in sd['required']:
            ctx.check(rule, 'json#%s.%s-required[%s]' % (fn, dn, k), k in sh and not sh[k][1], 'required key %s is always written' % k, '%s: required key %s missing/conditional' % (defn, k), js.loc(gf))
        for k, (t, cond, g) in sh.items():
            if k in sd['properties']:
                tt = t
                if k == 'id':
                    tt = 'string'      # iterates mc_names / cov_names: validated strings (C04-D3)
                if k == 'name':
                    tt = 'string'
                ctx.check(rule, 'json#%s.%s-type[%s]' % (fn, dn, k), allowed(sd['properties'][k]['type'], tt), '%s: %s allowed' % (k, tt), '%s.%s is %s, schema allows %s' % (defn, k, tt, sd['properties'][k]['type']), js.loc(gf))
            else:
                ctx.violated(rule, 'json#%s.%s-unknown[%s]' % (fn, dn, k), 'key %s not described by %s' % (k, defn), js.loc(gf))
    # deltas rows: [cfg, delta...]
    gf = js.func('create_json_string._gen_data_d_from_list')
    ap = [c for c in walk(gf) if isinstance(c, ast.Call) and isinstance(c.func, ast.Attribute) and c.func.attr == 'append' and unparse(c.func.value) == "rd['deltas']"]
    ok = len(ap) == 1 and unparse(ap[0].args[0]) == '[ol[0].idl[r_name][i]]'
    au = [s for s in statements(gf) if isinstance(s, ast.AugAssign) and unparse(s.target) == "rd['deltas'][-1]"]
    ok = ok and len(au) == 1 and unparse(au[0].value) == 'deltas[i].tolist()'
    ctx.check(rule, 'json#deltas-row', ok, 'each row = [configuration number, one value per observable]', 'row construction differs', js.loc(gf))
    # serialiser fallback converts numpy scalars
    jf = js.func('create_json_string._jsonifier')
    t = js.text(jf)
    ctx.check(rule, 'json#_jsonifier', 'isinstance(obj, np.integer)' in t and 'return int(obj)' in t and 'isinstance(obj, np.floating)' in t and 'return float(obj)' in t, 'numpy integers / floats are converted', '_jsonifier differs')


def subscript_keys(node, base_names):
    """string keys read from base (x['k'] / x.get('k'))"""
    ks = set()
    for c in walk(node):
        if isinstance(c, ast.Subscript) and isinstance(c.slice, ast.Constant) and isinstance(c.slice.value, str) and unparse(c.value) in base_names and isinstance(c.ctx, ast.Load):
            ks.add(c.slice.value)
        if isinstance(c, ast.Call) and isinstance(c.func, ast.Attribute) and c.func.attr == 'get' and unparse(c.func.value) in base_names and c.args and isinstance(c.args[0], ast.Constant):
            ks.add(c.args[0].value)
    return ks


def d2_keys(ctx, js):
    rule = 'C11-D2'
    wf = js.func('create_json_string')
    rf = js.func('_parse_json_dict')
    written = set()
    for c in walk(wf, skip_nested_defs=False):
        if isinstance(c, ast.Subscript) and isinstance(c.ctx, ast.Store) and isinstance(c.slice, ast.Constant) and isinstance(c.slice.value, str):
            written.add(c.slice.value)
    read = set()
    # names bound to (parts of) the parsed document: the confirmed roots plus everything assigned / iterated from a part of them
    docs = {'json_dict', 'io', 'o', 'ens', 'rep', 'tagdic', 'tmp_o'}
    for _ in range(4):
        for c in walk(rf, skip_nested_defs=False):
            src = tgt = None
            if isinstance(c, ast.Assign) and len(c.targets) == 1 and isinstance(c.targets[0], ast.Name):
                tgt, src = c.targets[0].id, c.value
            elif isinstance(c, (ast.For, ast.comprehension)) and isinstance(c.target, ast.Name):
                tgt, src = c.target.id, c.iter
            if tgt is None or tgt in docs:
                continue
            e = src
            while True:
                if isinstance(e, ast.Subscript):
                    e = e.value
                elif isinstance(e, ast.Call) and isinstance(e.func, ast.Attribute) and e.func.attr in ('get', 'values', 'items', 'copy'):
                    e = e.func.value
                else:
                    break
            if isinstance(e, ast.Name) and e.id in docs and e is not src:
                docs.add(tgt)
    for c in walk(rf, skip_nested_defs=False):
        if isinstance(c, ast.Subscript) and isinstance(c.ctx, ast.Load) and isinstance(c.slice, ast.Constant) and isinstance(c.slice.value, str):
            if unparse(c.value) in docs:
                read.add(c.slice.value)
        if isinstance(c, ast.Call) and isinstance(c.func, ast.Attribute) and c.func.attr == 'get' and c.args and isinstance(c.args[0], ast.Constant) and isinstance(c.args[0].value, str) \
                and unparse(c.func.value) in docs:
            read.add(c.args[0].value)
    extra = read - written
    ctx.check(rule, 'json#reader-keys-subset', not extra, 'every key the reader consumes (%d) is produced by the writer' % len(read), 'reader consumes keys the writer never writes: %s' % sorted(extra))
    ctx.floor('document keys read', len(read), 16)
    # what the writer writes but the reader ignores (data-bearing keys must all be read)
    must = {'type', 'layout', 'value', 'data', 'cdata', 'tag', 'reweighted', 'id', 'replica', 'name', 'deltas', 'cov', 'grad', 'prange', 'obsdata'}
    miss = (must & written) - read
    ctx.check(rule, 'json#writer-keys-consumed', not miss, 'all data-bearing keys are consumed', 'written but never read: %s' % sorted(miss))
    # type tags
    wt = set()
    for c in walk(wf, skip_nested_defs=False):
        if isinstance(c, ast.Assign) and isinstance(c.targets[0], ast.Subscript) and isinstance(c.targets[0].slice, ast.Constant) and c.targets[0].slice.value == 'type' and isinstance(c.value, ast.Constant):
            wt.add(c.value.value)
    rt = set()
    for c in walk(rf):
        if isinstance(c, ast.Compare) and unparse(c.left) == "io['type']" and isinstance(c.comparators[0], ast.Constant):
            rt.add(c.comparators[0].value)
    ctx.check(rule, 'json#type-tags', wt == rt == {'Obs', 'List', 'Array', 'Corr'}, 'type tags written = tags dispatched on', 'written %s, dispatched %s' % (sorted(wt), sorted(rt)))
    # dispatch maps each tag to its own reader / each class to its own writer
    disp = {}
    for s in statements(rf):
        if isinstance(s, ast.If) and isinstance(s.test, ast.Compare) and unparse(s.test.left) == "io['type']":
            c = [x for x in walk(s.body[0]) if isinstance(x, ast.Call) and call_name(x).startswith('get_')]
            if c:
                disp[s.test.comparators[0].value] = call_name(c[0])
    ctx.check(rule, 'json#reader-dispatch', disp == {'Obs': 'get_Obs_from_dict', 'List': 'get_List_from_dict', 'Array': 'get_Array_from_dict', 'Corr': 'get_Corr_from_dict'}, 'each tag goes to its reader', 'dispatch %s' % disp)
    wd = {}
    for s in statements(wf):
        if isinstance(s, ast.If) and isinstance(s.test, ast.Call) and call_name(s.test) == 'isinstance' and unparse(s.test.args[0]) == 'io':
            c = [x for x in walk(s.body[0]) if isinstance(x, ast.Call) and call_name(x).startswith('write_')]
            if c:
                wd[unparse(s.test.args[1])] = call_name(c[0])
    ctx.check(rule, 'json#writer-dispatch', wd == {'Obs': 'write_Obs_to_dict', 'list': 'write_List_to_dict', 'np.ndarray': 'write_Array_to_dict', 'Corr': 'write_Corr_to_dict'}, 'each class goes to its writer', 'dispatch %s' % wd)
    for nm, fn in (('writer', wf), ('reader', rf)):
        rs = [s for s in statements(fn) if isinstance(s, ast.Raise) and fn is js.enclosing_func(s) and 'datatype' in unparse(s)]
        ctx.check(rule, 'json#%s-else-raises' % nm, len(rs) == 1, 'unknown structures are rejected', 'no rejecting else in the %s' % nm)
    # writer tag <-> written type inside each writer
    for w, tag in (('write_Obs_to_dict', 'Obs'), ('write_List_to_dict', 'List'), ('write_Array_to_dict', 'Array'), ('write_Corr_to_dict', 'Corr')):
        f = js.func('create_json_string.' + w)
        vals = [s.value.value for s in statements(f) if isinstance(s, ast.Assign) and isinstance(s.targets[0], ast.Subscript) and isinstance(s.targets[0].slice, ast.Constant)
                and s.targets[0].slice.value == 'type' and isinstance(s.value, ast.Constant)]
        ctx.check(rule, 'json#%s-tag' % w, vals == [tag], '%s writes type %s' % (w, tag), '%s writes type %s' % (w, vals))


def d3_siblings(ctx, js):
    rule = 'C11-D3'
    slots = {'reweighted_is_bool': True}
    shapes = {}
    for w in ('write_Obs_to_dict', 'write_List_to_dict', 'write_Array_to_dict'):
        f = js.func('create_json_string.' + w)
        sh = doc_shape(js, f, 'd', slots)
        shapes[w] = {k: (v[1],) for k, v in sh.items()}
    ref = shapes['write_List_to_dict']
    for w, sh in shapes.items():
        ctx.check(rule, 'json#writers-agree[%s]' % w, sh == ref, 'same keys, same conditionality as the sibling writers (%s)' % sorted(sh), '%s writes %s, sibling writes %s' % (w, sh, ref))
    # conditions of the optional keys
    for w in ('write_Obs_to_dict', 'write_List_to_dict', 'write_Array_to_dict'):
        f = js.func('create_json_string.' + w)
        sh = doc_shape(js, f, 'd', slots)
        g = sh.get('reweighted', (None, None, []))[2]
        ok = len(g) == 1 and g[0].endswith('.reweighted')
        ctx.check(rule, 'json#%s-reweighted-condition' % w, ok, 'flag written iff set', 'reweighted written under %s' % g)
        v = [s for s in statements(f) if isinstance(s, ast.Assign) and unparse(s.targets[0]) == "d['reweighted']"]
        okv = len(v) == 1 and unparse(v[0].value).endswith('.reweighted') and unparse(v[0].value) == g[0] if g else False
        ctx.check(rule, 'json#%s-reweighted-value' % w, okv, 'the written flag is the flag that was tested', 'value %s' % [unparse(s.value) for s in v])
        for key, gen in (('data', '_gen_data_d_from_list'), ('cdata', '_gen_cdata_d_from_list')):
            dd = find_def(f, key)
            ok = len(dd) == 1 and call_name(dd[0].value) == gen
            ctx.check(rule, 'json#%s-%s' % (w, key), ok, '%s from %s' % (key, gen), '%s = %s' % (key, [unparse(s.value) for s in dd]))
    # readers: same slot set
    want_slots = {'_value', 'reweighted', 'tag'}
    for r in ('get_Obs_from_dict', 'get_List_from_dict', 'get_Array_from_dict'):
        f = js.func('_parse_json_dict.' + r)
        stores = {x.attr for x in walk(f) if isinstance(x, ast.Attribute) and isinstance(x.ctx, ast.Store)}
        sub = {unparse(x.value).split('.')[-1] for x in walk(f) if isinstance(x, ast.Subscript) and isinstance(x.ctx, ast.Store) and '_covobs' in unparse(x.value)}
        apps = [c for c in walk(f) if isinstance(c, ast.Call) and isinstance(c.func, ast.Attribute) and c.func.attr == 'append' and unparse(c.func.value).endswith('.names')]
        ok = stores >= want_slots and sub == {'_covobs'} and len(apps) == 1
        ctx.check(rule, 'json#readers-agree[%s]' % r, ok, 'restores value, reweighted, tag, covobs and the covobs name', '%s stores attributes %s, covobs %s, name appends %d' % (r, sorted(stores), sorted(sub), len(apps)), js.loc(f))
        rw = [s for s in statements(f) if isinstance(s, ast.Assign) and isinstance(s.targets[0], ast.Attribute) and s.targets[0].attr == 'reweighted']
        okr = len(rw) == 1 and unparse(rw[0].value) == "o.get('reweighted', False)"
        ctx.check(rule, 'json#%s-reweighted' % r, okr, "reweighted = o.get('reweighted', False)", 'reweighted restored as %s' % [unparse(s.value) for s in rw])
        # every element of a list gets its covobs with its own index
        cv = [c for c in walk(f) if isinstance(c, ast.Call) and call_name(c) == 'Covobs']
        okc = len(cv) == 1 and [unparse(a) for a in cv[0].args] == ['None', "co['cov']", "co['name']"] and unparse(kwarg(cv[0], 'grad')) == "co['grad']"
        ctx.check(rule, 'json#%s-covobs' % r, okc, 'covobs rebuilt from (cov, name, grad)', 'covobs rebuilt as %s' % [unparse(c) for c in cv])
        co = find_def(f, 'co')
        idx = '0' if r == 'get_Obs_from_dict' else 'i'
        ctx.check(rule, 'json#%s-covobs-index' % r, len(co) == 1 and unparse(co[0].value) == 'cd[name][%s]' % idx, 'gradient of observable %s' % idx, 'co = %s' % [unparse(s.value) for s in co])
    # gradient matrix orientation: writer grad[i][obs] ; reader [g[i_obs] for g in grad]
    gf = js.func('create_json_string._gen_cdata_d_from_list')
    ap = [c for c in walk(gf) if isinstance(c, ast.Call) and isinstance(c.func, ast.Attribute) and c.func.attr == 'append' and unparse(c.func.value) == "ed['grad'][-1]"]
    okw = len(ap) == 1 and unparse(ap[0].args[0]) == 'o.covobs[name].grad[i][0]'
    rf = js.func('_parse_json_dict._gen_covobsd_from_cdatad')
    okr = "'grad': [g[i] for g in grad]" in unparse(rf) and 'nobs = len(grad[0])' in unparse(rf)
    ctx.check(rule, 'json#grad-orientation', okw and okr, 'writer: grad[component][observable]; reader: observable i takes g[i] of every component', 'gradient orientation differs between writer and reader')
    okl = "np.reshape(ens['cov'], layout)" in unparse(rf) and "list(np.ravel(ol[0].covobs[name].cov))" in unparse(gf)
    ctx.check(rule, 'json#cov-layout', okl, 'cov is written raveled with its shape and reshaped by the reader', 'cov layout handling differs')
    # Corr: None <-> NaN observable
    cw = js.func('create_json_string.write_Corr_to_dict')
    cr = js.func('_parse_json_dict.get_Corr_from_dict')
    okw = 'o if o is not None else dummy_array for o in my_corr.content' in unparse(cw) and '_nan_Obs_like' in unparse(cw)
    okr = 'None if np.isnan(o.ravel()[0].value) else o for o in list(dat)' in unparse(cr)
    ctx.check(rule, 'json#corr-none', okw and okr, 'undefined timeslices are written as NaN observables and read back as None', 'None handling of Corr differs')
    rd_pr = [c for c in walk(cr) if (isinstance(c, ast.Subscript) and isinstance(c.ctx, ast.Load) and isinstance(c.slice, ast.Constant) and c.slice.value == 'prange')
             or (isinstance(c, ast.Call) and isinstance(c.func, ast.Attribute) and c.func.attr == 'get' and c.args and isinstance(c.args[0], ast.Constant) and c.args[0].value == 'prange')]
    okt = "dat['tag']['prange'] = my_corr.prange" in unparse(cw) and len(rd_pr) >= 1 and 'my_corr.prange = temp_prange' in unparse(cr) \
        and any(isinstance(s_, ast.Assign) and unparse(s_.targets[0]) == 'temp_prange' and any(x is rd_pr[0] for x in ast.walk(s_.value)) for s_ in statements(cr))
    ctx.check(rule, 'json#corr-prange', okt, 'prange written and restored', 'prange handling differs')
    okt = 'corr_meta_data = str(my_corr.tag)' in unparse(cw) and "corr_tag = taglist[-1]" in unparse(cr) and "if corr_tag != 'None'" in unparse(cr)
    ctx.check(rule, 'json#corr-tag', okt, 'Corr tag appended last and taken from the last entry', 'tag handling differs')


def d4_offsets(ctx, js):
    rule = 'C11-D4'
    delta, r, v = sp.symbols('delta r v', real=True)
    gf = js.func('create_json_string._gen_data_d_from_list')
    off = find_def(gf, 'offsets')
    dl = find_def(gf, 'deltas')
    key = 'json#offset-encoding'
    ok = len(off) == 1 and unparse(off[0].value) == '[o.r_values[r_name] - o.value for o in ol]' and len(dl) == 1 and \
        unparse(dl[0].value) == 'np.column_stack([ol[oi].deltas[r_name] + offsets[oi] for oi in range(No)])'
    ctx.check(rule, key + '-writer', ok, "written sample = delta + (replica mean - value)", 'writer encoding: offsets=%s deltas=%s' % ([unparse(s.value) for s in off], [unparse(s.value) for s in dl]))
    written = delta + (r - v)
    # reader: o = mean(written) ; delta' = written - o ; r' = o + v   with mean(delta) = 0
    mean_written = (r - v)          # mean over configurations of delta is 0 (class invariant established by Obs.__init__)
    for rd, idx, avg in (('get_Obs_from_dict', '0', 'np.average([ddi[0] for ddi in di])'), ('get_List_from_dict', 'i', 'np.average(di[:, i])'), ('get_Array_from_dict', 'i', 'np.average(di[:, i])')):
        f = js.func('_parse_json_dict.' + rd)
        ro = find_def(f, 'r_offsets')
        okr = len(ro) == 1 and avg in unparse(ro[0].value) and "for di in od['deltas']" in unparse(ro[0].value)
        oc = [c for c in walk(f) if isinstance(c, ast.Call) and call_name(c) == 'Obs' and kwarg(c, 'means') is not None and c.args and not isinstance(c.args[0], ast.List) or
              (isinstance(c, ast.Call) and call_name(c) == 'Obs' and kwarg(c, 'means') is not None and c.args and isinstance(c.args[0], ast.ListComp))]
        oc = [c for c in oc if isinstance(c.args[0], ast.ListComp)]
        okc = len(oc) == 1 and unparse(kwarg(oc[0], 'means')) == '[ro + values[%s] for ro in r_offsets]' % idx and '- r_offsets[' in unparse(oc[0].args[0]) and \
            unparse(oc[0].args[1]) == "od['names']" and unparse(kwarg(oc[0], 'idl')) == "od['idl']"
        rec_delta = written - mean_written
        rec_r = mean_written + v
        alg = sp.simplify(rec_delta - delta) == 0 and sp.simplify(rec_r - r) == 0
        ctx.check(rule, key + '-reader[%s]' % rd, okr and okc and alg, 'offset = mean(samples); delta = samples - offset; replica mean = offset + value: inverse of the writer (mean(delta) = 0)',
                  '%s decodes r_offsets=%s, Obs(%s)' % (rd, [unparse(s.value) for s in ro], [unparse(c)[:150] for c in oc]), js.loc(f))
        vv = [s for s in statements(f) if isinstance(s, ast.Assign) and isinstance(s.targets[0], ast.Attribute) and s.targets[0].attr == '_value']
        okv = len(vv) == 2 and all(unparse(s.value) == 'values[%s]' % idx for s in vv)
        ctx.check(rule, 'json#%s-value' % rd, okv, 'central value restored from the value list at the same index', '_value = %s' % [unparse(s.value) for s in vv])
    # data decoding: first column = configuration number
    df = js.func('_parse_json_dict._gen_obsd_from_datad')
    t = js.text(df)
    ok = "retd['idl'].append([di[0] for di in rep['deltas']])" in t and "retd['deltas'].append(np.array([di[1:] for di in rep['deltas']]))" in t and "retd['names'].append(rep_name)" in t
    ctx.check(rule, 'json#row-decoding', ok, 'row[0] -> configuration number, row[1:] -> samples, appended together with the replica name', 'row decoding differs')
    wv = js.func('create_json_string.write_List_to_dict')
    ok = "d['value'] = [o.value for o in ol]" in unparse(wv)
    ctx.check(rule, 'json#value-list', ok, 'value list in structure order', 'value list differs')


def d5_effects(ctx, js):
    rule = 'C11-D5'
    an = Analyzer(ctx.repo)
    allowed_ex = {('input.json', '_parse_json_dict.get_Corr_from_dict', 'o'): 'edits the parsed document (not a user object)',
                  ('input.json', '_parse_json_dict', 'json_dict'): 'same edit, seen through the caller'}
    n = 0
    for q in ('create_json_string', 'dump_to_json', '_parse_json_dict', 'import_json_string', 'load_json', '_ol_from_dict', 'dump_dict_to_json', '_od_from_list_and_dict', 'load_json_dict',
              '_parse_json_dict.get_Corr_from_dict', 'create_json_string._nan_Obs_like', 'create_json_string.write_Corr_to_dict'):
        s = an.summary(('input.json', q))
        n += 1
        bad = [e for e in s.events if significant(e) and ('input.json', q, e.ref.root) not in allowed_ex]
        # dump_to_json rebinds fname (+=) : a string, harmless
        bad = [e for e in bad if not (e.kind.startswith('augmented') and e.ref.root == 'fname')]
        if bad:
            for e in bad[:3]:
                ctx.violated(rule, 'json#%s-mutates[%s]' % (q, e.ref.root), '%s mutates its argument %r (%s)' % (q, e.ref, e.kind), js.loc(e.node))
        else:
            ctx.holds(rule, 'json#%s-effects' % q, 'no user object is mutated')
    pm = ctx.repo.mod('input.pandas')
    s = an.summary(('input.pandas', '_serialize_df'))
    bad = [e for e in s.events if significant(e)]
    ctx.check(rule, 'pandas#_serialize_df-effects', not bad, 'the data frame is copied before serialisation', '_serialize_df mutates %s' % bad)
    ctx.floor('json functions with effect summary', n, 10)


def d6_transports(ctx, js):
    rule = 'C11-D6'
    dj, lj = js.func('dump_to_json'), js.func('load_json')
    t1, t2 = unparse(dj), unparse(lj)
    ok = "gzip.open(fname, 'wb')" in t1 and "jsonstring.encode('utf-8')" in t1 and "gzip.open(fname, 'r')" in t2 and 'json.load(fin)' in t2
    ctx.check(rule, 'json#gz-pair', ok, 'gzip+utf-8 writer paired with gzip reader + whole-document parser', 'gz transport differs')
    ok = "open(fname, 'w', encoding='utf-8')" in t1 and "open(fname, 'r', encoding='utf-8')" in t2 and 'json.loads(fin.read())' in t2
    ctx.check(rule, 'json#plain-pair', ok, 'plain text writer/reader both utf-8', 'plain transport differs')
    ok = t1.count("fname += '.json'") == 1 and t2.count("fname += '.json'") == 1 and t1.count("fname += '.gz'") == 1 and t2.count("fname += '.gz'") == 1
    ctx.check(rule, 'json#file-names', ok, 'writer and reader derive the same file name', 'file name handling differs')
    ij = js.func('import_json_string')
    ctx.check(rule, 'json#string-pair', '_parse_json_dict(json.loads(json_string)' in unparse(ij), 'string import parses the whole string', 'import_json_string differs')
    pm = ctx.repo.mod('input.pandas')
    s, d = unparse(pm.func('_serialize_df')), unparse(pm.func('_deserialize_df'))
    ok = "gzip.compress((x if x is not None else '').encode('utf-8'))" in s and "gzip.decompress(x).decode('utf-8')" in d and 'create_json_string(x, indent=0)' in s and 'import_json_string(x, verbose=False)' in d
    ctx.check(rule, 'pandas#serialize-pair', ok, 'json string -> utf-8 -> gzip paired with gunzip -> utf-8 -> json import', 'data-frame transport differs')
    ok = "compression='gzip'" in unparse(pm.func('dump_df')) and 'gzip.open(fname)' in unparse(pm.func('load_df'))
    ctx.check(rule, 'pandas#csv-pair', ok, 'csv.gz written with gzip compression and read through gzip', 'csv transport differs')
    ok = 'se_df.to_sql(table_name, con' in unparse(pm.func('to_sql')) and 'pd.read_sql(sql, con' in unparse(pm.func('read_sql')) and '_deserialize_df(extract_df' in unparse(pm.func('read_sql'))
    ctx.check(rule, 'pandas#sql-pair', ok, 'sqlite writer/reader paired', 'sql transport differs')
    obs = ctx.repo.mod('obs')
    misc = ctx.repo.mod('misc')
    t = obs.text(obs.func('Obs.dump'))
    ok = "open(file_name + '.p', 'wb')" in t and 'pickle.dump(self, fb)' in t and 'dump_to_json([self], file_name, description=description)' in t
    ctx.check(rule, 'obs#dump', ok, 'Obs.dump: json.gz via dump_to_json, pickle binary', 'Obs.dump differs')
    t1, t2 = misc.text(misc.func('dump_object')), misc.text(misc.func('load_object'))
    ok = "'wb'" in t1 and 'pickle.dump(obj, fb)' in t1 and "'rb'" in t2 and 'pickle.load(file)' in t2
    ctx.check(rule, 'misc#pickle-pair', ok, 'pickle dump (wb) paired with pickle load (rb)', 'pickle transport differs')
    cm = ctx.repo.mod('correlators')
    t = cm.text(cm.func('Corr.dump'))
    ctx.check(rule, 'correlators#dump', 'dump_to_json(self, file_name)' in t and 'dump_object(self, filename, **kwargs)' in t, 'Corr.dump: json.gz / pickle', 'Corr.dump differs')
    # dict transport: placeholders
    t1, t2 = js.text(js.func('_ol_from_dict')), js.text(js.func('_od_from_list_and_dict'))
    ok = "reps + '%d' % counter" in t1 and 'index = int(v[len(reps):])' in t2 and 'ol[index]' in t2
    # the reader's pattern accepts every placeholder the writer can produce (reps + decimal counter of any length) and applies to the
    # whole string: the constant patterns are extracted and tried on reps0, reps9, reps10, reps123
    import re as _re
    rd_f = js.func('_od_from_list_and_dict')
    pats = []
    for c in walk(rd_f, skip_nested_defs=False):
        if isinstance(c, ast.Call) and isinstance(c.func, ast.Attribute) and c.func.attr in ('match', 'fullmatch', 'search', 'compile') and c.args:
            a0 = c.args[0]
            if isinstance(a0, ast.BinOp) and isinstance(a0.op, ast.Mod) and isinstance(a0.left, ast.Constant) and isinstance(a0.left.value, str):
                pats.append((a0.left.value, c.func.attr, c))
    methods = {c.func.attr for c in walk(rd_f, skip_nested_defs=False) if isinstance(c, ast.Call) and isinstance(c.func, ast.Attribute) and c.func.attr in ('match', 'fullmatch', 'search')}
    badp = []
    for tmpl, how, c in pats:
        try:
            rx = _re.compile(tmpl % 'DICTOBS')
        except Exception:
            continue
        for cnt in (0, 9, 10, 123):
            sstr = 'DICTOBS%d' % cnt
            hit = (rx.fullmatch(sstr) if 'fullmatch' in methods else rx.match(sstr))
            if not hit:
                badp.append((tmpl, sstr))
    ctx.check(rule, 'json#dict-placeholder-pattern', bool(pats) and not badp, 'every placeholder reps<k> (k of any length) is recognised by the reader',
              'the reader pattern does not recognise %s: structures beyond the first ten stay in the dictionary as strings' % badp[:3], js.loc(rd_f))
    ctx.check(rule, 'json#dict-placeholders', ok, 'placeholder reps<k> written for the k-th structure and resolved to ol[k]', 'placeholder handling differs')
    t = js.text(js.func('load_json_dict'))
    ok = "indata['description']['OBSDICT']" in t and "indata['description']['description']" in t and "'OBSDICT': {}" in unparse(js.func('dump_dict_to_json'))
    ctx.check(rule, 'json#dict-description', ok, 'dictionary skeleton stored under description.OBSDICT and read from there', 'dict skeleton handling differs')


def d7_forwarding(ctx, js):
    from .. import forwarding
    rule = 'C11-D6'
    n = 0
    n += forwarding.check(ctx, rule, js, 'load_json_dict', js, 'load_json', skip=('full_output',))
    n += forwarding.check(ctx, rule, js, 'dump_dict_to_json', js, 'dump_to_json', skip=('description',))
    n += forwarding.check(ctx, rule, js, 'import_json_string', js, '_parse_json_dict')
    n += forwarding.check(ctx, rule, js, 'load_json', js, '_parse_json_dict')
    n += forwarding.check(ctx, rule, js, 'dump_to_json', js, 'create_json_string')
    pm = ctx.repo.mod('input.pandas')
    n += forwarding.check(ctx, rule, pm, 'to_sql', pm, '_serialize_df')
    n += forwarding.check(ctx, rule, pm, 'read_sql', pm, '_deserialize_df')
    n += forwarding.check(ctx, rule, pm, 'load_df', pm, '_deserialize_df')
    ctx.floor('forwarded wrapper options (json / pandas)', n, 12)
    # flattening order: arrays are written in C order and reshaped in C order
    wf = js.func('create_json_string.write_Array_to_dict')
    rv = [c for c in walk(wf) if isinstance(c, ast.Call) and (js.dotted(c.func) or '') in ('numpy.ravel',) or (isinstance(c, ast.Call) and isinstance(c.func, ast.Attribute) and c.func.attr in ('ravel', 'flatten'))]
    okw = len(rv) == 1 and (kwarg(rv[0], 'order') is None or unparse(kwarg(rv[0], 'order')) == "'C'") and len(rv[0].args) <= 1
    rf = js.func('_parse_json_dict.get_Array_from_dict')
    rs = [c for c in walk(rf) if isinstance(c, ast.Call) and (js.dotted(c.func) or '') == 'numpy.reshape']
    okr = len(rs) == 1 and kwarg(rs[0], 'order') is None and unparse(rs[0].args[1]) == 'layout'
    ctx.check('C11-D3', 'json#array-flatten-order', okw and okr, 'arrays are flattened in C order by the writer and reshaped in C order by the reader',
              'writer flattens with %s, reader reshapes with %s: elements of non-contiguous arrays are permuted' % ([unparse(c) for c in rv], [unparse(c) for c in rs]), js.loc(wf))
    lay = [s_ for s_ in statements(wf) if isinstance(s_, ast.Assign) and unparse(s_.targets[0]) == "d['layout']"]
    ctx.check('C11-D3', 'json#array-layout', len(lay) == 1 and 'oa.shape' in unparse(lay[0].value), 'layout = logical shape of the array', 'layout = %s' % [unparse(x.value) for x in lay])


class _NP:
    any = staticmethod(lambda x: any(x))
    all = staticmethod(lambda x: all(x))


def d8_optional_keys(ctx, js):
    """an optional key may be left out of the document only when the reader's default restores the same values: the reader
    defaults a missing 'tag' to a list of None, so the list / array writers must write it as soon as ONE element carries a tag.
    The guard of the store is evaluated on the three kinds of tag lists."""
    rule = 'C11-D3'
    for w in ('write_List_to_dict', 'write_Array_to_dict'):
        f = js.func('create_json_string.' + w)
        st = [s_ for s_ in statements(f) if isinstance(s_, ast.Assign) and unparse(s_.targets[0]) == "d['tag']"]
        key = 'json#%s-tag-condition' % w
        if len(st) != 1:
            ctx.unrec(rule, key, 'expected one store of the tag list, found %d' % len(st))
            continue
        src = unparse(st[0].value)
        gs = guards_of(js, st[0], stop=f)
        wrong = []
        for tl in ([None, None, None], [None, 'x', None], ['x', None, None], ['a', 'b', 'c'], [None, {'k': 1}, 0]):
            written = True
            for t_, pol in gs:
                try:
                    v = bool(eval(compile(ast.Expression(body=t_), '<guard>', 'eval'), {'__builtins__': {'any': any, 'all': all, 'len': len}, 'np': _NP}, {src: tl} if src.isidentifier() else {}))
                except Exception as e:
                    raise Unrecognised('cannot evaluate guard %s: %s' % (unparse(t_), e))
                written = written and (v == pol)
            need = any(x is not None for x in tl)
            if need and not written:
                wrong.append(tl)
        ctx.check(rule, key, not wrong, 'the tag list is written whenever one element carries a tag (reader default for a missing key: all None)',
                  'tag lists %s are not written: the reader restores None for every element, the tags are lost' % wrong, js.loc(st[0]))
    # single-structure unwrapping must not reach the full_output dictionary: load_json_dict indexes obsdata by placeholder number
    f = js.func('_parse_json_dict')
    od = [s_ for s_ in statements(f) if isinstance(s_, ast.Assign) and unparse(s_.targets[0]) == "retd['obsdata']" and isinstance(s_.value, ast.Name)]
    lname = od[0].value.id if len(od) == 1 else None
    un = [s_ for s_ in statements(f) if isinstance(s_, (ast.Assign, ast.Return)) and isinstance(s_.value, ast.Subscript) and isinstance(s_.value.value, ast.Name)
          and s_.value.value.id == lname and const(s_.value.slice) == 0]
    key = 'json#single-structure-unwrapping'
    if len(un) != 1:
        ctx.unrec(rule, key, 'expected one unwrapping of the structure list (`ol = ol[0]` / `return ol[0]`), found %d' % len(un))
    else:
        neg = [unparse(t_) for t_ in established_false(js, f, un[0])]
        ctx.check(rule, key, 'full_output' in neg, 'the list of structures is unwrapped only when full_output is off (load_json_dict reads obsdata[k] of the full output)',
                  'the single-structure unwrapping is reachable with full_output=True (conditions excluded here: %s): obsdata is no longer a list of structures and load_json_dict picks element k of the structure itself' % neg, js.loc(un[0]))


def d10_corr_entry_tags(ctx, js, rule='C11-D2'):
    """a Corr is stored as an Array whose tag list holds the tags of its entries followed by the tag of the Corr: the reader hands
    taglist[:-1] to the Array reader under the key 'tag' (and drops the key only when that list is empty)"""
    f = js.func('_parse_json_dict.get_Corr_from_dict') if js.has_func('_parse_json_dict.get_Corr_from_dict') else None
    key = 'json#corr-entry-tags'
    if f is None:
        ctx.unrec(rule, key, 'get_Corr_from_dict not found')
        return
    calls = [c for c in walk(f) if isinstance(c, ast.Call) and call_name(c) == 'get_Array_from_dict' and c.args]
    if len(calls) != 1:
        ctx.unrec(rule, key, 'call of get_Array_from_dict not found', js.loc(f))
        return
    arg = calls[0].args[0]
    stores = [s_ for s_ in statements(f) if isinstance(s_, ast.Assign) and isinstance(s_.targets[0], ast.Subscript) and unparse(s_.targets[0].slice) == "'tag'"
              and isinstance(arg, ast.Name) and unparse(s_.targets[0].value) == arg.id]
    ok = any(unparse(s_.value) == 'taglist[:-1]' for s_ in stores)
    if not ok and isinstance(arg, ast.Name):
        # a dictionary built with the key: {..., 'tag': taglist[:-1]} / dict(o, tag=taglist[:-1])
        for d_ in find_def_local(f, arg.id):
            txt = unparse(d_.value)
            if "'tag': taglist[:-1]" in txt or 'tag=taglist[:-1]' in txt:
                ok = True
    ctx.check(rule, key, ok, "the entries' tags taglist[:-1] are passed on under 'tag'", "the dictionary handed to the Array reader does not carry taglist[:-1] under 'tag': the tags of the entries of a Corr are lost on reading", js.loc(calls[0]))


def find_def_local(f, name):
    return [s_ for s_ in statements(f) if isinstance(s_, ast.Assign) and len(s_.targets) == 1 and isinstance(s_.targets[0], ast.Name) and s_.targets[0].id == name]


def d9_placeholders(ctx, js, rule='C11-D3'):
    """_ol_from_dict / _od_from_list_and_dict are a pure pair on nested dict / list structures: the extracted functions are evaluated
    with stand-in classes for Obs and Corr on a set of nested dictionaries (objects directly in the dict, in nested dicts, in mixed
    lists, in lists of lists, pure lists of Obs, arrays); re-inserting the extracted objects must give back the original structure"""
    import copy as _copy
    import re as _re
    key = 'json#dict-placeholders-roundtrip'
    fa, fb = js.func('_ol_from_dict'), js.func('_od_from_list_and_dict')
    for f in (fa, fb):
        if any(isinstance(x, (ast.Import, ast.ImportFrom, ast.Global, ast.While, ast.With, ast.Try)) for x in walk(f, skip_nested_defs=False)):
            ctx.unrec(rule, key, '%s is not plain structure handling: not evaluated' % f.name, js.loc(f))
            return
    try:
        import numpy as _np
    except Exception as ex_:
        ctx.unrec(rule, key, 'numpy unavailable: %r' % ex_)
        return

    class Obs:
        def __init__(self, tag):
            self.tag = tag

        def __repr__(self):
            return 'Obs<%s>' % self.tag

    class Corr:
        def __init__(self, tag):
            self.tag = tag

        def __repr__(self):
            return 'Corr<%s>' % self.tag
    safe = {'isinstance': isinstance, 'len': len, 'int': int, 'str': str, 'bool': bool, 'all': all, 'any': any, 'list': list, 'dict': dict, 'tuple': tuple, 'Exception': Exception,
            'ValueError': ValueError, 'TypeError': TypeError, 'range': range, 'enumerate': enumerate, 'zip': zip, 'type': type, 'sorted': sorted, 'set': set}
    try:
        ns = {'__builtins__': safe, 'Obs': Obs, 'Corr': Corr, 'np': _np, 're': _re}
        mod_ = ast.Module(body=[_copy.deepcopy(fa), _copy.deepcopy(fb)], type_ignores=[])
        for fn_ in mod_.body:
            fn_.decorator_list = []
        exec(compile(ast.fix_missing_locations(mod_), '<placeholders>', 'exec'), ns)
        to_list, from_list = ns[fa.name], ns[fb.name]
    except Exception as ex_:
        ctx.unrec(rule, key, 'cannot evaluate: %r' % ex_, js.loc(fa))
        return

    def o(k):
        return Obs(k)
    arr = _np.array([1.0, 2.0])
    cases = [
        {'a': o(1)},
        {'a': o(1), 'b': o(2), 'c': 3, 'd': 'text'},
        {'a': {'b': o(1), 'c': {'d': o(2)}}, 'e': o(3)},
        {'fit': ['mass', o(1), 0.5], 'other': o(2)},
        {'l': [o(1), o(2), o(3)], 'after': o(4)},
        {'ll': [[o(1), 'x'], [o(2), [o(3), 1]]], 'z': o(4)},
        {'c': Corr(1), 'arr': arr, 'mixed': [Corr(2), {'in': o(5)}, [o(6), o(7)]], 'last': o(8)},
        {'plain': [1, 2, 'three'], 'none': None, 'one': o(9)},
    ]

    def same(x, y):
        if isinstance(x, dict):
            return isinstance(y, dict) and list(x) == list(y) and all(same(x[k_], y[k_]) for k_ in x)
        if isinstance(x, list):
            return isinstance(y, list) and len(x) == len(y) and all(same(a_, b_) for a_, b_ in zip(x, y))
        if isinstance(x, (Obs, Corr, _np.ndarray)):
            return x is y
        return type(x) is type(y) and x == y
    wrong = []
    for d in cases:
        try:
            ol, nd = to_list(d)
            back = from_list(ol, nd)
        except NameError as ex_:
            ctx.unrec(rule, key, 'cannot evaluate: %r' % ex_, js.loc(fa))
            return
        except Exception as ex_:
            wrong.append((repr(d)[:90], 'raised %r' % ex_))
            continue
        if not same(d, back):
            wrong.append((repr(d)[:90], repr(back)[:90]))
    ctx.check(rule, key, not wrong, 'every object comes back in its own slot (%d nested structures evaluated)' % len(cases),
              'the structure %s is re-assembled as %s: a placeholder does not carry the position of its object in the list' % wrong[0] if wrong else '', js.loc(fa))


class _Opened(Exception):
    pass


def _opened_name(mod, fdef, args, kwargs):
    """run the extracted function up to the first file it opens (gzip.open / open are stubs that stop the run) and return (name, gzipped)"""
    import copy as _copy
    import os.path as _osp

    def _stop(kind):
        def opener(name, *a, **k):
            raise _Opened((name, kind))
        return opener

    class _NS:
        pass
    gz_, os_, warn_ = _NS(), _NS(), _NS()
    gz_.open = _stop('gz')
    os_.path = _osp
    warn_.warn = lambda *a, **k: None
    fd = _copy.deepcopy(fdef)
    fd.decorator_list = []
    for a_ in fd.args.args + fd.args.kwonlyargs:
        a_.annotation = None
    fd.returns = None
    glb = {'__builtins__': {'len': len, 'str': str, 'isinstance': isinstance, 'bool': bool, 'print': lambda *a, **k: None, 'open': _stop('plain'), 'ValueError': ValueError,
                            'TypeError': TypeError, 'Exception': Exception, 'UserWarning': UserWarning, 'RuntimeWarning': RuntimeWarning, 'DeprecationWarning': DeprecationWarning, 'type': type, 'any': any, 'all': all, 'tuple': tuple, 'list': list},
           'gzip': gz_, 'os': os_, 'warnings': warn_, 'create_json_string': lambda *a, **k: ''}
    exec(compile(ast.fix_missing_locations(ast.Module(body=[fd], type_ignores=[])), '<%s>' % fdef.name, 'exec'), glb)
    try:
        glb[fdef.name](*args, **kwargs)
    except _Opened as e:
        return e.args[0]
    return None


def d11_file_names(ctx, js):
    """writer and reader agree on the file a name stands for: for every name and both gz settings load_json opens the file dump_to_json wrote"""
    rule = 'C11-D6'
    key = 'json.py:dump_to_json/load_json#file-name'
    w, r = js.func('dump_to_json'), js.func('load_json')
    names = ['data', 'data.json', 'data.json.gz', 'data.gz', 'corr_b5.30_k0.1355', 'run.7', 'a.b.c', 'out.txt', 'dir.d/data', '.hidden', 'x.JSON', 'data.']
    bad = []
    try:
        for nm in names:
            for gz in (True, False):
                a = _opened_name(js, w, ([], nm), {'gz': gz})
                b = _opened_name(js, r, (nm,), {'gz': gz})
                if a is None or b is None:
                    raise Unrecognised('no file opened for %r (gz=%s): writer %s reader %s' % (nm, gz, a, b))
                if a != b:
                    bad.append((nm, gz, a[0], b[0]))
    except _Opened:
        raise
    except Unrecognised:
        raise
    except Exception as e:
        ctx.unrec(rule, key, 'cannot evaluate the file-name logic: %r' % e, js.loc(w))
        return
    ctx.check(rule, key, not bad, 'for %d names x gz on/off the reader opens the file the writer wrote (same suffix rule, same compression)' % len(names),
              'name %r with gz=%s is written to %r but read from %r: names with a dot in them cannot be read back (or an older file of the other name is read silently)' % (
                  bad[0] if bad else ('', '', '', '')), js.loc(w))


def run(ctx):
    ctx.rule('C11-D1', 'emitted document is contained in the shipped schema')
    ctx.rule('C11-D2', 'writer/reader key and type-tag agreement')
    ctx.rule('C11-D3', 'sibling agreement of writers and of readers')
    ctx.rule('C11-D4', 'offset encoding inverted (algebra)')
    ctx.rule('C11-D5', 'no input mutation')
    ctx.rule('C11-D6', 'transports: encoder/decoder pairing')
    ctx.not_decided += ['bit-exact text round trip of floats (rapidjson contract)', 'data-frame cell handling of pandas']
    js = ctx.repo.mod('input.json')
    ctx.guarded('C11-D1', 'json@schema', d1_schema, ctx, js)
    ctx.guarded('C11-D2', 'json@keys', d2_keys, ctx, js)
    ctx.guarded('C11-D3', 'json@siblings', d3_siblings, ctx, js)
    ctx.guarded('C11-D3', 'json@optional-keys', d8_optional_keys, ctx, js)
    ctx.guarded('C11-D3', 'json@placeholders', d9_placeholders, ctx, js)
    ctx.guarded('C11-D2', 'json@corr-entry-tags', d10_corr_entry_tags, ctx, js)
    ctx.guarded('C11-D4', 'json@offsets', d4_offsets, ctx, js)
    ctx.guarded('C11-D5', 'json@effects', d5_effects, ctx, js)
    ctx.guarded('C11-D6', 'json@transports', d6_transports, ctx, js)
    ctx.guarded('C11-D6', 'json@forwarding', d7_forwarding, ctx, js)
    ctx.guarded('C11-D6', 'json@file-names', d11_file_names, ctx, js)
    from .. import unusedparams, leakedloop
    ctx.rule('C11-D7', 'every accepted option is read (no silently ignored parameter); no loop variable read after its loop')
    for mn_ in ('input.json', 'input.pandas', 'misc'):
        ctx.guarded('C11-D7', mn_ + '@parameters', unusedparams.check, ctx, 'C11-D7', ctx.repo.mod(mn_))
        ctx.guarded('C11-D7', mn_ + '@loop-variables', leakedloop.check, ctx, 'C11-D7', ctx.repo.mod(mn_))

    from .. import samplerule
    ctx.guarded('C11-D4', 'json@samples', samplerule.check, ctx, 'C11-D4', js)


SELFTEST = [
    ('writer-suffix-rule-differs', 'pyerrors/input/json.py', "    jsonstring = create_json_string(ol, description, indent)\n\n    if not fname.endswith('.json') and not fname.endswith('.gz'):", "    jsonstring = create_json_string(ol, description, indent)\n\n    if '.' not in fname:", 'C11-D6'),
    ('list-flag-after-loop', 'pyerrors/input/json.py', "\n            ret[-1].reweighted = o.get('reweighted', False)\n            ret[-1].tag = taglist[i]\n        return ret", "\n            ret[-1].tag = taglist[i]\n        ret[-1].reweighted = o.get('reweighted', False)\n        return ret", 'C11-D7'),
    ('list-tags-written-only-if-all', 'pyerrors/input/json.py', "        d['type'] = 'List'\n        d['layout'] = '%d' % len(ol)\n        taglist = [o.tag for o in ol]\n        if np.any(", "        d['type'] = 'List'\n        d['layout'] = '%d' % len(ol)\n        taglist = [o.tag for o in ol]\n        if np.all(", 'C11-D3'),
    ('all:benign-tags-builtin-any', 'pyerrors/input/json.py', "        if np.any([tag is not None for tag in taglist]):", "        if any(tag is not None for tag in taglist):", 'BENIGN'),
    ('reweighted-numpy', 'pyerrors/obs.py', "o.reweighted = any(oi.reweighted for oi in list_of_obs)", "o.reweighted = np.max([oi.reweighted for oi in list_of_obs])", 'C11-D1'),
    ('writer-drops-reweighted', 'pyerrors/input/json.py', "        if ol[0].reweighted:\n            d['reweighted'] = ol[0].reweighted\n        d['value'] = [o.value for o in ol]\n        data = _gen_data_d_from_list(ol)\n        if len(data) > 0:\n            d['data'] = data\n        cdata = _gen_cdata_d_from_list(ol)\n        if len(cdata) > 0:\n            d['cdata'] = cdata\n        return d\n\n    def _nan_Obs_like", "        d['value'] = [o.value for o in ol]\n        data = _gen_data_d_from_list(ol)\n        if len(data) > 0:\n            d['data'] = data\n        cdata = _gen_cdata_d_from_list(ol)\n        if len(cdata) > 0:\n            d['cdata'] = cdata\n        return d\n\n    def _nan_Obs_like", 'C11-D3'),
    ('reader-drops-reweighted', 'pyerrors/input/json.py', "            ret[-1].reweighted = o.get('reweighted', False)\n            ret[-1].tag = taglist[i]\n        return np.reshape(ret, layout)", "            ret[-1].tag = taglist[i]\n        return np.reshape(ret, layout)", 'C11-D3'),
    ('offset-sign', 'pyerrors/input/json.py', "offsets = [o.r_values[r_name] - o.value for o in ol]", "offsets = [o.value - o.r_values[r_name] for o in ol]", 'C11-D4'),
    ('reader-means', 'pyerrors/input/json.py', "od['names'], idl=od['idl'], means=[ro + values[i] for ro in r_offsets]))\n                ret[-1]._value = values[i]\n            else:\n                ret.append(Obs([], [], means=[]))\n                ret[-1]._value = values[i]\n                print", "od['names'], idl=od['idl'], means=[ro for ro in r_offsets]))\n                ret[-1]._value = values[i]\n            else:\n                ret.append(Obs([], [], means=[]))\n                ret[-1]._value = values[i]\n                print", 'C11-D4'),
    ('value-conditional', 'pyerrors/input/json.py', "        d['value'] = [o.value]\n", "        if o.value != 0:\n            d['value'] = [o.value]\n", 'C11-D1'),
    ('layout-number', 'pyerrors/input/json.py', "        d['layout'] = '%d' % len(ol)", "        d['layout'] = len(ol)", 'C11-D1'),
    ('type-tag', 'pyerrors/input/json.py', "        d['type'] = 'Array'", "        d['type'] = 'array'", 'C11-D2'),
    ('covobs-index', 'pyerrors/input/json.py', "                co = cd[name][i]\n                ret[-1]._covobs[name] = Covobs(None, co['cov'], co['name'], grad=co['grad'])\n                ret[-1].names.append(co['name'])\n            ret[-1].reweighted", "                co = cd[name][0]\n                ret[-1]._covobs[name] = Covobs(None, co['cov'], co['name'], grad=co['grad'])\n                ret[-1].names.append(co['name'])\n            ret[-1].reweighted", 'C11-D3'),
    ('grad-orientation', 'pyerrors/input/json.py', "retl.append({'name': name, 'cov': cov, 'grad': [g[i] for g in grad]})", "retl.append({'name': name, 'cov': cov, 'grad': grad[i]})", 'C11-D3'),
    ('prange-dropped', 'pyerrors/input/json.py', "        my_corr.prange = temp_prange\n", "", 'C11-D3'),
    ('gz-decoder', 'pyerrors/input/pandas.py', "gzip.decompress(x).decode('utf-8')", "gzip.decompress(x).decode('latin-1')", 'C11-D6'),
    ('pickle-mode', 'pyerrors/misc.py', "    with open(path, 'rb') as file:\n        return pickle.load(file)", "    with open(path, 'r') as file:\n        return pickle.load(file)", 'C11-D6'),
    ('writer-mutates-obs', 'pyerrors/input/json.py', "        d['value'] = [o.value]\n", "        d['value'] = [o.value]\n        o.tag = None\n", 'C11-D5'),
    ('cfg-column', 'pyerrors/input/json.py', "retd['idl'].append([di[0] for di in rep['deltas']])", "retd['idl'].append([di[1] for di in rep['deltas']])", 'C11-D4'),
    ('ravel-order-K', 'pyerrors/input/json.py', "        ol = np.ravel(oa)\n        _assert_equal_properties(ol)", "        ol = np.ravel(oa, order='K')\n        _assert_equal_properties(ol)", 'C11-D3'),
    ('gz-not-forwarded', 'pyerrors/input/json.py', "indata = load_json(fname, verbose=verbose, gz=gz, full_output=True)", "indata = load_json(fname, verbose=verbose, full_output=True)", 'C11-D6'),
    ('cdata-key', 'pyerrors/input/json.py', "            ed['cov'] = list(np.ravel(ol[0].covobs[name].cov))", "            ed['covariance'] = list(np.ravel(ol[0].covobs[name].cov))", None),
]
