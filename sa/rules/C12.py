"""C12  dobs / pobs XML export and import are mutually inverse.

Decides only:
  D1 positional tag agreement: the insertion order of the writer's element dictionaries equals the positions the reader indexes
  D2 the offset encoding of the samples is inverted (algebra), row layout (cfg, one value per observable) vs stride of the reader
  D3 presence of a configuration must not be decided by a sample value (in-band zero sentinel)
  D4 separator modes: each documented mode reaches its own branch (bool is an int)
  D5 float formats are round-trip safe (17 significant digits)
  D6 replica names, covariance/gradient layout, transports
"""
import ast
import re

import sympy as sp

from ..srcmodel import Unrecognised, unparse, call_name, kwarg, walk, statements, guards_of, const
from .C07 import find_def

LEVEL = 'other'
EXPLANATION = ('insertion order of the dict-building writer vs positional indexing of the reader; sympy proof of the offset inversion; control-dependence of configuration membership on sample '
               'values; symbolic evaluation of the separator dispatch chain for every documented mode; parsing of printf formats; encoder/decoder pairing')
LEVEL_TEXT = ('decides only: writer element order = reader positions for dobs and pobs; reader(writer(sample)) = sample algebraically; row layout vs stride; the membership-by-value sentinel '
              '(reported as known finding); every documented separator mode dispatches to its own branch; sample/value/cov/grad formats have 17 significant digits; name mangling and '
              'transports are paired. Equality of a subsequent error analysis is numerical and not decided.')
TECHNIQUE = 'writer/reader layout table agreement, sympy algebra, control-dependence and path-condition rules (dominating guards / preceding exits), symbolic evaluation of dispatch chains, format-string parsing'


def key_order(mod, func, dname):
    """order of first stores dname['k'] = ... in source order"""
    out = []
    for s in statements(func):
        if isinstance(s, ast.Assign):
            for t in s.targets:
                if isinstance(t, ast.Subscript) and unparse(t.value) == dname and isinstance(t.slice, ast.Constant):
                    if t.slice.value not in out:
                        out.append(t.slice.value)
    return out


def reader_positions(mod, func, base):
    """{position: tag} from _check(base[k].tag == 'X')"""
    out = {}
    for c in walk(func):
        if isinstance(c, ast.Call) and call_name(c) == '_check' and c.args and isinstance(c.args[0], ast.Compare):
            l, r = c.args[0].left, c.args[0].comparators[0]
            if isinstance(l, ast.Attribute) and l.attr == 'tag' and isinstance(l.value, ast.Name):
                # alias of a child: x = base[k] ; _check(x.tag == 'X')
                ds = [s_ for s_ in statements(func) if isinstance(s_, ast.Assign) and len(s_.targets) == 1 and isinstance(s_.targets[0], ast.Name) and s_.targets[0].id == l.value.id]
                if len(ds) == 1 and isinstance(ds[0].value, ast.Subscript) and unparse(ds[0].value.value) == base:
                    l = ast.Attribute(value=ds[0].value, attr='tag', ctx=ast.Load())
            if isinstance(l, ast.Attribute) and l.attr == 'tag' and isinstance(l.value, ast.Subscript) and unparse(l.value.value) == base and isinstance(r, ast.Constant):
                k = const(l.value.slice)
                if isinstance(k, int):
                    out[k] = r.value
    return out


def d1_positions(ctx, m):
    rule = 'C12-D1'
    # ---- dobs
    w = m.func('create_dobs_string')
    r = m.func('import_dobs_string')
    top = []
    for s in statements(w):
        if isinstance(s, ast.Assign) and isinstance(s.targets[0], ast.Subscript) and unparse(s.targets[0].value) == "od['OBSERVABLES']" and isinstance(s.targets[0].slice, ast.Constant):
            top.append(s.targets[0].slice.value)
    rp = reader_positions(m, r, 'root')
    ok = top == ['SCHEMA', 'origin', 'dobs'] and rp == {0: 'SCHEMA', 1: 'origin', 2: 'dobs'}
    ctx.check(rule, 'dobs#root-order', all(top[k] == v for k, v in rp.items()) and len(rp) == 3 if len(top) >= 3 else False, 'writer root children %s = reader positions %s' % (top, rp), 'writer writes root children %s, reader expects %s' % (top, rp))
    order = key_order(m, w, 'pd')
    dp = reader_positions(m, r, 'dobs')
    ok = bool(dp) and all(k < len(order) and order[k] == v for k, v in dp.items())
    ctx.check(rule, 'dobs#element-order', ok and set(dp.values()) >= {'array', 'ne', 'nc'}, 'writer order %s matches reader positions %s' % (order, dp), 'writer inserts %s but the reader indexes %s' % (order, dp))
    # description = first three, data from 6
    desc = [s for s in statements(r) if isinstance(s, ast.For) and 'descriptiond[dobs[i].tag]' in unparse(s)]
    if not desc:
        # the same loop written as a dict comprehension
        desc = [c.generators[0] for s_ in statements(r) if isinstance(s_, ast.Assign) and unparse(s_.targets[0]) == 'descriptiond' for c in [s_.value] if isinstance(c, ast.DictComp)
                and unparse(c.key) == 'dobs[%s].tag' % unparse(c.generators[0].target)]
    okd = len(desc) == 1 and unparse(desc[0].iter) == 'range(3)' and order[:3] == ['spec', 'origin', 'name']
    ctx.check(rule, 'dobs#description', okd, 'first three children are the description fields', 'description loop %s vs writer %s' % ([unparse(d.iter) for d in desc], order[:3]))
    lp = [s for s in statements(r) if isinstance(s, ast.For) and unparse(s.target) == 'k']
    n_fixed = order.index('edata') if 'edata' in order else -1
    okl = len(lp) == 1 and unparse(lp[0].iter) in ('range(%d, len(list(dobs)))' % n_fixed, 'range(%d, len(dobs))' % n_fixed)
    ctx.check(rule, 'dobs#data-start', okl, 'ensemble / covariance blocks start at child %d' % n_fixed, 'reader loop %s, writer has %d leading elements' % ([unparse(l.iter) for l in lp], n_fixed))
    ctx.check(rule, 'dobs#edata-before-cdata', 'edata' in order and 'cdata' in order and order.index('edata') < order.index('cdata'), 'edata then cdata (reader dispatches on the tag)', 'order %s' % order)
    eo = key_order(m, w, 'ed')
    ep = reader_positions(m, r, 'dobs[k]')
    ok = eo == ['enstag', 'nr', ''] and ep == {0: 'enstag', 1: 'nr'}
    rr = [s for s in statements(r) if isinstance(s, ast.For) and unparse(s.iter) == 'range(2, 2 + R)']
    ctx.check(rule, 'dobs#edata-order', ok and len(rr) == 1, 'edata children: enstag, nr, then nr arrays', 'writer %s, reader %s' % (eo, ep))
    co = key_order(m, w, 'cd')
    ic = m.func('_import_cdata')
    cp = reader_positions(m, ic, 'cd')
    t = m.text(ic)
    ok = co == ['id', 'array'] and cp == {0: 'id'} and 'cov = _import_array(cd[1])' in t and 'grad = _import_array(cd[2])' in t and 'return cd[0].text.strip(), cov, grad' in t and "cd[1][0].text.strip() == 'cov'" in t
    arr = [s for s in statements(w) if isinstance(s, ast.Assign) and unparse(s.targets[0]) == "cd['array']"]
    ok = ok and len(arr) == 1 and unparse(arr[0].value) == '[covd, gradd]'
    ctx.check(rule, 'dobs#cdata-order', ok, 'cdata children: id, cov array, grad array', 'writer %s / %s, reader %s' % (co, [unparse(a.value) for a in arr], cp))
    # ---- pobs
    w = m.func('create_pobs_string')
    r = m.func('read_pobs')
    top = []
    for s in statements(w):
        if isinstance(s, ast.Assign) and isinstance(s.targets[0], ast.Subscript) and unparse(s.targets[0].value) == "od['observables']" and isinstance(s.targets[0].slice, ast.Constant):
            top.append(s.targets[0].slice.value)
    rp = reader_positions(m, r, 'root')
    ctx.check(rule, 'pobs#root-order', top == ['schema', 'origin', 'pobs'] and rp == {2: 'pobs', 1: 'origin'}, 'root children schema, origin, pobs', 'writer %s, reader %s' % (top, rp))
    order = key_order(m, w, 'pd')
    pp = reader_positions(m, r, 'pobs')
    ok = all(k < len(order) and order[k] == v for k, v in pp.items()) and set(pp.values()) == {'nr', 'array'}
    ctx.check(rule, 'pobs#element-order', ok, 'writer order %s matches reader positions %s' % (order, pp), 'writer inserts %s but the reader indexes %s' % (order, pp))
    lp = [s for s in statements(r) if isinstance(s, ast.For) and '_import_rdata(pobs[i])' in unparse(s)]
    okl = len(lp) == 1 and unparse(lp[0].iter) == 'range(%d, len(pobs))' % order.index('array')
    ctx.check(rule, 'pobs#data-start', okl, 'replica arrays start at child %d' % order.index('array'), 'reader loop %s' % [unparse(l.iter) for l in lp])
    desc = [s for s in statements(r) if isinstance(s, ast.For) and 'descriptiond[pobs[i].tag]' in unparse(s)]
    if not desc:
        desc = [c.generators[0] for s_ in statements(r) if isinstance(s_, ast.Assign) and unparse(s_.targets[0]) == 'descriptiond' for c in [s_.value] if isinstance(c, ast.DictComp)
                and unparse(c.key) == 'pobs[%s].tag' % unparse(c.generators[0].target)]
    okd = len(desc) == 1 and unparse(desc[0].iter) == 'range(%d)' % order.index('nr')
    ctx.check(rule, 'pobs#description', okd, 'children before nr are the description', 'description loop %s' % [unparse(d.iter) for d in desc])


def d2_encoding(ctx, m):
    rule = 'C12-D2'
    delta, r, v = sp.symbols('delta r v', real=True)
    w = m.func('create_dobs_string')
    off = find_def(w, 'offsets')
    ok = len(off) == 1 and unparse(off[0].value) == '[o.r_values[repname] - o.value if repname in o.r_values else 0 for o in obsl]'
    num = [s for s in statements(w) if isinstance(s, ast.Assign) and unparse(s.targets[0]) == 'num' and const(s.value) is None and 'deltas' in unparse(s.value)]
    ok = ok and len(num) == 1 and unparse(num[0].value) == 'o.deltas[repname][counters[oi]] + offsets[oi]'
    ctx.check(rule, 'dobs#writer-encoding', ok, 'written sample = delta + (replica mean - value)', 'writer encoding offsets=%s num=%s' % ([unparse(s.value) for s in off], [unparse(s.value) for s in num]))
    vals = [s for s in statements(w) if isinstance(s, ast.Assign) and unparse(s.targets[0]) == "pd['array']['#values']"]
    okv = len(vals) == 1 and "'%1.16e' % o.value for o in obsl" in unparse(vals[0].value)
    ctx.check(rule, 'dobs#writer-values', okv, 'central values written in list order', 'values %s' % [unparse(s.value) for s in vals])
    rd = m.func('import_dobs_string')
    t = m.text(rd)
    okr = 'tmp[j] = deltad[name][i][j] + mean[i]' in t and 'obsmeans = [np.average(deltas[j]) for j in range(len(deltas))]' in t and \
        ('Obs([np.array(deltas[j]) - obsmeans[j] for j in range(len(obsmeans))], obs_names, idl=idl, means=obsmeans)' in t
         or 'Obs([np.array(deltas[j]) - obsmeans[j] for j in range(len(deltas))], obs_names, idl=idl, means=obsmeans)' in t) and 'res[-1]._value = mean[i]' in t     # obsmeans has one entry per entry of deltas
    written = delta + (r - v)
    x = written + v
    alg = sp.simplify((x - r) - delta) == 0     # mean(x) = r because mean(delta) = 0
    ctx.check(rule, 'dobs#reader-decoding', okr and alg, 'sample + value, replica mean = average, fluctuation = sample - replica mean: inverse of the writer', 'reader decoding differs')
    # row layout vs stride
    ia = m.func('_import_array')
    t = m.text(ia)
    oks = '_dat += [np.array(tmp[1 + a::na + 1])]' in t and 'tmp[0::na + 1]' in t and "na = int(m[2].lstrip('f'))" in t and 'nc = int(m[0])' in t
    lay = [s for s in statements(w) if isinstance(s, ast.Assign) and unparse(s.targets[0]) == 'layout']
    okl = len(lay) == 1 and unparse(lay[0].value) == "'%d i f%d' % (Nconf, len(obsl))"
    ctx.check(rule, 'dobs#row-layout', oks and okl, "layout 'Nconf i f<nobs>': rows of (cfg, nobs values) read with stride nobs+1", 'layout %s / reader stride differs' % [unparse(s.value) for s in lay])
    # every row starts with the configuration number followed by one entry per observable
    row = [s for s in statements(w) if isinstance(s, ast.AugAssign) and unparse(s.target) == 'data' and unparse(s.value) == "'%d ' % ci"]
    ctx.check(rule, 'dobs#row-start', len(row) == 1, 'each row starts with the configuration number', 'row start differs')
    # pobs
    wp = m.func('create_pobs_string')
    nump = [s for s in statements(wp) if isinstance(s, ast.Assign) and unparse(s.targets[0]) == 'num']
    okp = len(nump) == 1 and unparse(nump[0].value) == 'o.deltas[names[r]][c] + o.r_values[names[r]]'
    rp = m.func('read_pobs')
    okq = 'res = [Obs([d[i] for d in deltas], names, idl=idl) for i in range(len(deltas[0]))]' in unparse(rp)
    ctx.check(rule, 'pobs#encoding', okp and okq, 'pobs stores full samples (delta + replica mean); the reader rebuilds observables from samples', 'pobs encoding differs')
    cfgp = [s for s in statements(wp) if isinstance(s, ast.AugAssign) and unparse(s.target) == 'data' and unparse(s.value) == "'%d ' % obsl[0].idl[names[r]][c]"]
    ctx.check(rule, 'pobs#row-start', len(cfgp) == 1, 'each row starts with the configuration number of the same replica and position', 'row start differs')


def d3_sentinel(ctx, m):
    rule = 'C12-D3'
    rd = m.func('import_dobs_string')
    n = 0
    for s in statements(rd):
        if isinstance(s, ast.Expr) and isinstance(s.value, ast.Call) and isinstance(s.value.func, ast.Attribute) and s.value.func.attr == 'append' and unparse(s.value.func.value) in ('repidl', 'idl', 'obs_names'):
            for t, pol in guards_of(m, s, stop=rd):
                if isinstance(t, ast.Compare) and 'deltad[' in unparse(t.left) and isinstance(t.ops[0], (ast.NotEq, ast.Eq)):
                    n += 1
                    ctx.violated(rule, 'input/dobs.py:import_dobs_string#membership-by-value[%s]' % unparse(t), 'whether configuration j belongs to the imported chain is decided by the stored sample value '
                                 '(%s): a sample that is exactly zero in the file is dropped on import' % unparse(t), m.loc(s))
        if isinstance(s, ast.Continue):
            g = guards_of(m, s, stop=rd)
            uniq = g and 'np.unique' in unparse(find_def(rd, 'h')[0].value if find_def(rd, 'h') else ast.Constant(value=0)) and any(isinstance(x, ast.Name) and x.id == 'h' for x in ast.walk(g[-1][0]))
            if uniq and 'h ==' in unparse(g[-1][0]):
                n += 1
                ctx.violated(rule, 'input/dobs.py:import_dobs_string#replica-skipped-by-value', 'a replica is skipped when all its stored samples coincide with the mean value (%s)' % unparse(g[-1][0]), m.loc(s))
            elif uniq:
                # the writer marks 'observable not measured on this replica' by a row of the marker value; skipping on anything weaker
                # than 'all samples equal the marker' drops measured replicas
                n += 1
                ctx.violated(rule, 'input/dobs.py:import_dobs_string#replica-skipped-when-constant[%s]' % unparse(g[-1][0]), 'a replica is skipped whenever its stored samples are all equal (%s), '
                             'whatever their value: a measured replica on which the observable is constant disappears on import' % unparse(g[-1][0]), m.loc(s))
    if n == 0:
        ctx.holds(rule, 'input/dobs.py:import_dobs_string#membership', 'membership of configurations does not depend on sample values')
    # the zero fill of the writer (for configurations an observable lacks) is what the sentinel encodes
    w = m.func('create_dobs_string')
    z = [s for s in walk(w) if isinstance(s, ast.AugAssign) and unparse(s.target) == 'data' and unparse(s.value) == "'0 '"]
    ctx.info['writer_zero_fill_sites'] = len(z)


def eval_test(t, val):
    """python truth value of test `t` for separator_insertion = val (None on unknown shape)"""
    if isinstance(t, ast.BoolOp):
        vals = [eval_test(v, val) for v in t.values]
        if any(v is None for v in vals):
            return None
        return any(vals) if isinstance(t.op, ast.Or) else all(vals)
    if isinstance(t, ast.Constant):
        return bool(t.value)
    if isinstance(t, ast.UnaryOp) and isinstance(t.op, ast.Not):
        v = eval_test(t.operand, val)
        return None if v is None else not v
    if isinstance(t, ast.Compare) and len(t.ops) == 1 and unparse(t.left) == 'separator_insertion' and isinstance(t.comparators[0], ast.Constant):
        c = t.comparators[0].value
        if isinstance(t.ops[0], ast.Is):
            return val is c
        if isinstance(t.ops[0], ast.IsNot):
            return val is not c
        if isinstance(t.ops[0], ast.Eq):
            return val == c
    if isinstance(t, ast.Compare) and len(t.ops) == 1 and unparse(t.left) == 'separator_insertion' and isinstance(t.ops[0], ast.In) and isinstance(t.comparators[0], (ast.List, ast.Tuple)):
        return any(val is (e.value if isinstance(e, ast.Constant) else object()) for e in t.comparators[0].elts)
    if isinstance(t, ast.Call) and call_name(t) == 'isinstance' and unparse(t.args[0]) == 'separator_insertion':
        cls = t.args[1]
        names = [unparse(e) for e in (cls.elts if isinstance(cls, ast.Tuple) else [cls])]
        py = {'int': int, 'str': str, 'bool': bool}
        if all(n in py for n in names):
            return isinstance(val, tuple(py[n] for n in names))
    return None


def branch_kind(body):
    t = ' '.join(unparse(s) for s in body)
    if all(isinstance(s, ast.Pass) for s in body):
        return 'none'
    if 'startswith(ename)' in t and 'len(ename)' in t:
        return 'prefix'
    if '[:separator_insertion]' in t:
        return 'position'
    if '.replace(separator_insertion' in t:
        return 'replace'
    if 'raise' in t:
        return 'raise'
    return 'other'


def d4_separator(ctx, m):
    rule = 'C12-D4'
    for fname, modes in (('import_dobs_string', [(None, 'none'), (False, 'none'), (True, 'prefix'), (3, 'position'), ('r', 'replace')]),
                         ('read_pobs', [(None, 'none'), (3, 'position'), ('r', 'replace')])):
        f = m.func(fname)
        head = next((s for s in statements(f) if isinstance(s, ast.If) and 'separator_insertion' in unparse(s.test)
                     and not (isinstance(m.parents.get(s), ast.If) and s in m.parents[s].orelse)), None)
        if head is None:
            ctx.unrec(rule, 'input/dobs.py:%s#separator-dispatch' % fname, 'dispatch chain not found')
            continue
        for val, want in modes:
            node = head
            got = None
            while node is not None:
                v = eval_test(node.test, val)
                if v is None:
                    got = 'unknown'
                    break
                if v:
                    got = branch_kind(node.body)
                    break
                if len(node.orelse) == 1 and isinstance(node.orelse[0], ast.If):
                    node = node.orelse[0]
                else:
                    got = branch_kind(node.orelse) if node.orelse else 'fallthrough'
                    node = None
            key = 'input/dobs.py:%s#separator_insertion=%r' % (fname, val)
            if got == 'unknown':
                ctx.unrec(rule, key, 'cannot evaluate the dispatch test %s' % unparse(node.test), m.loc(node))
            else:
                ctx.check(rule, key, got == want, 'mode %r reaches the %s branch' % (val, want), 'separator_insertion=%r reaches the `%s` branch, documented behaviour is `%s`' % (val, got, want), m.loc(head))


def fmt_digits(fmt):
    mm = re.fullmatch(r'%(\d*)\.(\d+)e ?', fmt)
    return int(mm.group(2)) if mm else None


def d5_formats(ctx, m):
    rule = 'C12-D5'
    n = 0
    for fname in ('create_dobs_string', 'create_pobs_string'):
        f = m.func(fname)
        for c in walk(f):
            if isinstance(c, ast.BinOp) and isinstance(c.op, ast.Mod) and isinstance(c.left, ast.Constant) and isinstance(c.left.value, str) and 'e' in c.left.value and '%' in c.left.value:
                d = fmt_digits(c.left.value)
                if d is None:
                    continue
                n += 1
                what = unparse(c.right)
                key = 'input/dobs.py:%s#format[%s]' % (fname, what)
                ctx.check(rule, key, d >= 16, '%s written with %d decimals (17 significant digits: round-trip safe for doubles)' % (what, d),
                          '%s is written with format %r: only %d significant digits, the value is not reproduced exactly on import' % (what, c.left.value, d + 1), m.loc(c))
    ctx.floor('floating point format sites', n, 6)   # 7 on the reference tree, one of them in a dead branch (num = 0; if num == 0)
    ctx.check(rule, 'input/dobs.py:_import_data', 'json.loads' in unparse(m.func('_import_data')), 'numbers are parsed by a correctly rounding parser', '_import_data differs')


def d6_misc(ctx, m):
    rule = 'C12-D6'
    w = m.func('create_dobs_string')
    t = m.text(w)
    ok = "ad['id'] = repname.replace('|', '')" in t
    r = unparse(m.func('import_dobs_string'))
    okr = "rname = rname[:len(ename)] + '|' + rname[len(ename):]" in r and 'rname.startswith(ename)' in r
    ctx.check(rule, 'dobs#replica-names', ok and okr, "writer removes '|', default reader re-inserts it after the ensemble name", 'name handling differs')
    ok = "gradd['layout'] = '%d f%d' % (ncov, len(obsl))" in t and "covd['layout'] = '%d %d f' % (ncov, ncov)" in t
    okr = 'gradd[cname] = grad.T' in r and 'Covobs(0, covd[name], name, grad=gradd[name][i])' in r
    ctx.check(rule, 'dobs#cov-grad-layout', ok and okr, 'grad written as (component, observable), read transposed and indexed by observable', 'cov/grad layout handling differs')
    ok = "idx = _merge_idx([o.idl.get(repname, []) for o in obsl])" in t
    ctx.check(rule, 'dobs#merged-configurations', ok, 'rows cover the union of the configurations of all observables of the file', 'row set differs')
    # a sample is taken (and the cursor advanced) only on the path where the configuration number under the cursor equals the
    # number of the row: a positive `== ci` guard, or a preceding exit whose (disjunctive) test contains `!= ci`
    from ..srcmodel import established_false

    def on_own_row(node):
        def is_match(t_, positive):
            if isinstance(t_, ast.Compare) and len(t_.ops) == 1 and isinstance(t_.ops[0], ast.Eq if positive else ast.NotEq):
                a_, b_ = unparse(t_.left), unparse(t_.comparators[0])
                return any('.idl[' in x and 'counters[' in x for x in (a_, b_)) and any(x == rowvar for x in (a_, b_))
            if isinstance(t_, ast.UnaryOp) and isinstance(t_.op, ast.Not):
                return is_match(t_.operand, not positive)
            return False
        for t_, pol in guards_of(m, node, stop=w):
            conj = t_.values if isinstance(t_, ast.BoolOp) and isinstance(t_.op, ast.And) else [t_]
            if pol and any(is_match(c_, True) for c_ in conj):
                return True
            if not pol and is_match(t_, False):
                return True
        for t_ in established_false(m, w, node):
            disj = t_.values if isinstance(t_, ast.BoolOp) and isinstance(t_.op, ast.Or) else [t_]
            if any(is_match(c_, False) for c_ in disj):
                return True
        return False
    rows = [lp for lp in walk(w) if isinstance(lp, ast.For) and unparse(lp.iter) == 'idx' and isinstance(lp.target, ast.Name)]
    takes = []
    rowvar = rows[0].target.id if len(rows) == 1 else None
    if rowvar is not None:
        for st_ in statements(w):
            if isinstance(st_, (ast.Assign, ast.AugAssign)) and any(isinstance(y, ast.Subscript) and '.deltas[' in unparse(y) and 'counters[' in unparse(y.slice) for y in walk(st_.value)):
                takes.append(('sample', st_))
            if isinstance(st_, ast.AugAssign) and unparse(st_.target).startswith('counters[') and isinstance(st_.op, ast.Add):
                takes.append(('cursor', st_))
    if rowvar is None or not any(k_ == 'sample' for k_, _ in takes) or not any(k_ == 'cursor' for k_, _ in takes):
        ctx.unrec(rule, 'dobs#by-configuration-number', 'row loop over idx / sample access through the per-observable cursor not found', m.loc(w))
    else:
        bad = [(k_, st_) for k_, st_ in takes if not on_own_row(st_)]
        ctx.check(rule, 'dobs#by-configuration-number', not bad, 'a sample is written (and the cursor advanced) only in the row of its own configuration number',
                  '; '.join('%s `%s` is not restricted to the row whose number equals the configuration number under the cursor' % (k_, unparse(st_)[:70]) for k_, st_ in bad), m.loc(bad[0][1]) if bad else None)
    for wname, rname in (('write_dobs', 'read_dobs'), ('write_pobs', 'read_pobs')):
        a, b = unparse(m.func(wname)), unparse(m.func(rname))
        ok = "gzip.open(fname, 'wb')" in a and ".encode('utf-8')" in a and "gzip.open(fname, 'r')" in b
        ctx.check(rule, 'dobs#%s/%s' % (wname, rname), ok, 'gzip writer paired with gzip reader', 'transport differs')
        ok = a.count("fname += '.xml'") == 1 and b.count("fname += '.xml'") == 1 and a.count("fname += '.gz'") == 1 and b.count("fname += '.gz'") == 1
        ctx.check(rule, 'dobs#%s/%s-names' % (wname, rname), ok, 'same file name derivation', 'file name handling differs')
    ok = 'et.fromstring(content)' in r and 'et.fromstring(content)' in unparse(m.func('read_pobs'))
    ctx.check(rule, 'dobs#whole-document', ok, 'whole-document XML parser', 'parser differs')
    ok = "_check(len(e_names) == ne)" in r
    ctx.check(rule, 'dobs#ne-check', ok, 'number of ensembles is cross-checked', 'ne check missing')


def d8_zero_abbreviation(ctx, m, rule='C12-D5'):
    """(a) the abbreviation '0 ' stands for the *written number* being zero: its test is on the very expression that the other branch
    formats.  (b) the replicas of an ensemble are selected by one and the same ensemble name in both alternatives of the test."""
    n = 0
    for fn in ('create_pobs_string', 'create_dobs_string'):
        f = m.func(fn)
        for st in statements(f):
            if isinstance(st, ast.If) and len(st.body) == 1 and len(st.orelse) == 1 and all(isinstance(x, ast.AugAssign) for x in (st.body[0], st.orelse[0])):
                b, o = st.body[0], st.orelse[0]
                if isinstance(b.value, ast.Constant) and b.value.value == '0 ' and isinstance(o.value, ast.BinOp) and isinstance(o.value.op, ast.Mod):
                    n += 1
                    x = unparse(o.value.right).strip('()')
                    t = st.test
                    ok = isinstance(t, ast.Compare) and len(t.ops) == 1 and isinstance(t.ops[0], ast.Eq) and const(t.comparators[0]) == 0 and unparse(t.left) == x
                    ctx.check(rule, 'input/dobs.py:%s#zero-abbreviation[%s]' % (fn, x), ok, "'0 ' is written iff the number that would be formatted is zero",
                              "'0 ' is written under `%s` while the other branch formats `%s`: a sample whose written value is not zero is stored as 0" % (unparse(t), x), m.loc(st))
    ctx.floor("'0 ' abbreviations in the XML writers", n, 2)
    f = m.func('create_dobs_string')
    k = 0
    for bo in [x for x in walk(f) if isinstance(x, ast.BoolOp) and isinstance(x.op, ast.Or) and len(x.values) == 2]:
        a, b = bo.values
        if isinstance(a, ast.Call) and isinstance(a.func, ast.Attribute) and a.func.attr == 'startswith' and a.args and isinstance(a.args[0], ast.BinOp) and isinstance(b, ast.Compare) \
                and len(b.ops) == 1 and isinstance(b.ops[0], ast.Eq) and unparse(b.left) == unparse(a.func.value):
            k += 1
            e1, e2 = unparse(a.args[0].left), unparse(b.comparators[0])
            params = {x.arg for x in f.args.args}
            q_, loopvars = m.parents.get(bo), set()
            while q_ is not None and q_ is not f:
                if isinstance(q_, ast.For):
                    loopvars |= {y.id for y in walk(q_.target) if isinstance(y, ast.Name)}
                q_ = m.parents.get(q_)
            params = params - loopvars          # a loop variable that re-uses the name of a parameter is the loop variable here
            ctx.check(rule, 'input/dobs.py:create_dobs_string#replicas-of-ensemble', e1 == e2 and e1 not in params, "replica n belongs to ensemble e iff n starts with e + '|' or n == e (one e, the loop variable)",
                      "the replicas are selected by `startswith(%s + '|')` or `== %s`: two different names (%s)" % (e1, e2, 'one is a parameter of the function' if (e1 in params or e2 in params) else 'different variables'), m.loc(bo))
    ctx.floor('replica selection tests', k, 1)


def d7_samples(ctx, m):
    from .. import samplerule
    n = samplerule.check(ctx, 'C12-D7', m)
    ctx.floor('sample reconstructions in the XML writers', n, 1)
    # orientation of the gradient table: the writer stores (component, observable); the reader indexes gradd[name][observable]
    rd = m.func('import_dobs_string')
    asg = [s_ for s_ in statements(rd) if isinstance(s_, ast.Assign) and unparse(s_.targets[0]) == 'gradd[cname]']
    for s_ in asg:
        v = unparse(s_.value)
        g = [(unparse(t), pol) for t, pol in guards_of(m, s_, stop=rd) if 'grad' in unparse(t)]
        key = 'input/dobs.py:import_dobs_string#gradd=%s' % v
        if v == 'grad.T':
            ctx.holds('C12-D7', key, 'gradient table transposed to (observable, component)', m.loc(s_))
        elif v.startswith('[grad for'):
            ctx.check('C12-D7', key, g == [('grad.shape[1] == 1', True)], 'a single column is shared by all observables', 'column replication under %s' % g, m.loc(s_))
        elif v == 'grad':
            ctx.violated('C12-D7', key, 'the gradient table is used untransposed (under %s) although it is written as (component, observable): observable k receives row k instead of column k' % g, m.loc(s_))
        else:
            ctx.unrec('C12-D7', key, 'unknown gradient handling', m.loc(s_))


class _V(list):
    def __eq__(self, other):
        return _V([x == other for x in self])

    def __ne__(self, other):
        return _V([x != other for x in self])

    __hash__ = None


class _NPS:
    all = staticmethod(lambda x: all(x))
    any = staticmethod(lambda x: any(x))
    sum = staticmethod(lambda x: sum(x))
    abs = staticmethod(lambda x: _V([abs(y) for y in x]))
    count_nonzero = staticmethod(lambda x: sum(1 for y in x if y))


def d9_per_replica_and_pruning(ctx, m):
    """(a) pobs writer: the number of configurations written for replica r is the length of replica r;
    (b) dobs reader: a covariance input is removed from an observable only if every component of its gradient vanishes
        (condition evaluated on gradients (0,0), (1,-1), (1,0), (0,2))."""
    rule = 'C12-D7'
    w = m.func('create_pobs_string')
    loops = [s_ for s_ in statements(w) if isinstance(s_, ast.For) and isinstance(s_.target, ast.Name) and any(isinstance(x, ast.Assign) and unparse(x.targets[0]) == "ad['layout']" for x in walk(s_))]
    key = 'pobs#layout-per-replica'
    if len(loops) != 1:
        ctx.unrec(rule, key, 'replica loop with the layout assignment not found (%d)' % len(loops))
    else:
        r = loops[0].target.id
        lay = [x for x in walk(loops[0]) if isinstance(x, ast.Assign) and unparse(x.targets[0]) == "ad['layout']"][0]
        # resolve the count expression through single-assignment locals
        defs = {}
        for s_ in statements(w):
            if isinstance(s_, ast.Assign) and len(s_.targets) == 1 and isinstance(s_.targets[0], ast.Name):
                defs.setdefault(s_.targets[0].id, []).append(s_)
        expr = lay.value
        for _ in range(3):
            if isinstance(expr, ast.Name) and len(defs.get(expr.id, [])) == 1:
                expr = defs[expr.id][0].value
        counts = [c for c in ast.walk(expr) if isinstance(c, ast.Call) and call_name(c) == 'len']
        for n_ in [n_ for n_ in ast.walk(expr) if isinstance(n_, ast.Name) and len(defs.get(n_.id, [])) == 1]:
            counts += [c for c in ast.walk(defs[n_.id][0].value) if isinstance(c, ast.Call) and call_name(c) == 'len']
        per_rep = [c for c in counts if any(isinstance(x, ast.Subscript) and isinstance(x.slice, ast.Name) and x.slice.id == r for x in ast.walk(c))]
        ctx.check(rule, key, bool(per_rep), 'the count in the layout of replica %s is a length indexed by %s' % (r, r),
                  'the layout of every replica is written with the count %s, which does not depend on the replica index `%s`: longer replicas are truncated on import' % ([unparse(c) for c in counts][:3], r), m.loc(lay))
    rd = m.func('import_dobs_string')
    dels = [s_ for s_ in statements(rd) if isinstance(s_, ast.Delete) and 'new_covobs' in unparse(s_)]
    key = 'input/dobs.py:import_dobs_string#covobs-pruning'
    if len(dels) != 1:
        ctx.unrec(rule, key, 'pruning statement not found (%d)' % len(dels))
    else:
        gs = [t for t, pol in guards_of(m, dels[0], stop=rd) if pol]
        gnodes = [x for t in gs for x in ast.walk(t) if isinstance(x, ast.Attribute) and x.attr == 'grad']
        if not gs or not gnodes:
            ctx.unrec(rule, key, 'pruning condition not understood')
        else:
            wrong = []
            for vec in ([0.0, 0.0], [1.0, -1.0], [1.0, 0.0], [0.0, 2.0], [0.0]):
                try:
                    import copy as _c
                    t2 = _c.deepcopy(gs[-1])
                    for x in list(ast.walk(t2)):
                        if isinstance(x, ast.Attribute) and x.attr == 'grad':
                            for par in ast.walk(t2):
                                for fld, v_ in ast.iter_fields(par):
                                    if v_ is x:
                                        setattr(par, fld, ast.Name(id='_g', ctx=ast.Load()))
                                    elif isinstance(v_, list):
                                        for k_, y in enumerate(v_):
                                            if y is x:
                                                v_[k_] = ast.Name(id='_g', ctx=ast.Load())
                    if isinstance(t2, ast.Attribute) and t2.attr == 'grad':
                        t2 = ast.Name(id='_g', ctx=ast.Load())
                    val = bool(eval(compile(ast.fix_missing_locations(ast.Expression(body=t2)), '<prune>', 'eval'), {'__builtins__': {'all': all, 'any': any, 'sum': sum, 'abs': abs, 'len': len}, 'np': _NPS}, {'_g': _V(vec)}))
                except Exception as e_:
                    raise Unrecognised('cannot evaluate the pruning condition %s: %s' % (unparse(gs[-1]), e_))
                if val != all(x == 0 for x in vec):
                    wrong.append(vec)
            ctx.check(rule, key, not wrong, 'a covariance input is dropped exactly when all gradient components vanish',
                      'the pruning condition `%s` decides wrongly for the gradients %s: an input whose gradient components cancel is dropped and the error underestimated' % (unparse(gs[-1]), wrong), m.loc(dels[0]))


def run(ctx):
    ctx.rule('C12-D1', 'positional tag agreement writer/reader')
    ctx.rule('C12-D2', 'offset encoding inverted; row layout vs stride')
    ctx.rule('C12-D3', 'membership must not depend on a sample value')
    ctx.rule('C12-D4', 'separator modes dispatch')
    ctx.rule('C12-D5', 'float formats round-trip safe')
    ctx.rule('C12-D6', 'names, cov/grad layout, transports')
    ctx.not_decided += ['equality of a subsequent error analysis']
    m = ctx.repo.mod('input.dobs')
    ctx.guarded('C12-D1', 'dobs@positions', d1_positions, ctx, m)
    ctx.guarded('C12-D2', 'dobs@encoding', d2_encoding, ctx, m)
    ctx.guarded('C12-D3', 'dobs@sentinel', d3_sentinel, ctx, m)
    ctx.guarded('C12-D4', 'dobs@separator', d4_separator, ctx, m)
    ctx.guarded('C12-D5', 'dobs@formats', d5_formats, ctx, m)
    ctx.guarded('C12-D6', 'dobs@misc', d6_misc, ctx, m)
    ctx.rule('C12-D7', 'sample reconstruction (delta + own replica mean); gradient table orientation')
    ctx.guarded('C12-D5', 'dobs@zero-abbreviation', d8_zero_abbreviation, ctx, m)
    ctx.guarded('C12-D7', 'dobs@samples', d7_samples, ctx, m)
    ctx.guarded('C12-D7', 'dobs@per-replica-and-pruning', d9_per_replica_and_pruning, ctx, m)
    from .. import unusedparams, leakedloop
    ctx.rule('C12-D8', 'every accepted option is read (no silently ignored parameter); no loop variable read after its loop')
    for mn_ in ('input.dobs',):
        ctx.guarded('C12-D8', mn_ + '@parameters', unusedparams.check, ctx, 'C12-D8', ctx.repo.mod(mn_))
        ctx.guarded('C12-D8', mn_ + '@loop-variables', leakedloop.check, ctx, 'C12-D8', ctx.repo.mod(mn_))

    from .. import forwarding
    for w_, c_ in (('read_dobs', 'import_dobs_string'), ('write_dobs', 'create_dobs_string'), ('write_pobs', 'create_pobs_string')):
        ctx.guarded('C12-D6', 'dobs@forwarding', forwarding.check, ctx, 'C12-D6', m, w_, m, c_)


SELFTEST = [
    ('range-by-endpoints-in-reader', 'pyerrors/input/dobs.py', '    name, idx, mask, deltas = _import_array(rd)\n    return deltas, name, idx\n', '    name, idx, mask, deltas = _import_array(rd)\n    if len(idx) > 1:\n        idrange = range(idx[0], idx[-1] + 1, idx[1] - idx[0])\n        if len(idrange) == len(idx):\n            idx = idrange\n    return deltas, name, idx\n', 'C12-G2'),
    ('benign-range-when-equal-in-reader', 'pyerrors/input/dobs.py', '    name, idx, mask, deltas = _import_array(rd)\n    return deltas, name, idx\n', '    name, idx, mask, deltas = _import_array(rd)\n    if len(idx) > 1:\n        idrange = range(idx[0], idx[-1] + 1, idx[1] - idx[0])\n        if list(idrange) == idx:\n            idx = idrange\n    return deltas, name, idx\n', 'BENIGN'),
    ('sample-row-le', 'pyerrors/input/dobs.py', '                        if o.idl[repname][counters[oi]] == ci:', '                        if o.idl[repname][counters[oi]] <= ci:', 'C12-D6'),
    ('covobs-pruned-by-sum', 'pyerrors/input/dobs.py', "            if np.all(new_covobs[name].grad == 0):", "            if np.sum(new_covobs[name].grad) == 0:", 'C12-D7'),
    ('benign-covobs-pruned-not-any', 'pyerrors/input/dobs.py', "            if np.all(new_covobs[name].grad == 0):", "            if not np.any(new_covobs[name].grad != 0):", 'BENIGN'),
    ('replica-skipped-when-constant', 'pyerrors/input/dobs.py', "            if len(h) == 1 and np.all(h == mean[i]):", "            if len(h) == 1:", 'C12-D3'),
    ('benign-rename-cdata-locals', 'pyerrors/input/dobs.py', "    cov = _import_array(cd[1])\n    grad = _import_array(cd[2])\n    return cd[0].text.strip(), cov, grad", "    cmat = _import_array(cd[1])\n    jac = _import_array(cd[2])\n    return cd[0].text.strip(), cmat, jac", 'BENIGN'),
    ('cdata-cov-grad-swapped', 'pyerrors/input/dobs.py', "    cov = _import_array(cd[1])\n    grad = _import_array(cd[2])", "    cov = _import_array(cd[2])\n    grad = _import_array(cd[1])", 'C12-D2'),
    ('fix-reverted-separator', 'pyerrors/input/dobs.py', "if separator_insertion is None or separator_insertion is False:", "if separator_insertion is None or False:", 'C12-D4'),
    ('fix-reverted-precision', 'pyerrors/input/dobs.py', "covd['#data'] = '%1.16e' % (allcov[cname])", "covd['#data'] = '%1.14e' % (allcov[cname])", 'C12-D5'),
    ('sample-precision', 'pyerrors/input/dobs.py', "                            num = o.deltas[repname][counters[oi]] + offsets[oi]\n                            if num == 0:\n                                data += '0 '\n                            else:\n                                data += '%1.16e ' % (num)", "                            num = o.deltas[repname][counters[oi]] + offsets[oi]\n                            if num == 0:\n                                data += '0 '\n                            else:\n                                data += '%1.12e ' % (num)", 'C12-D5'),
    ('writer-order', 'pyerrors/input/dobs.py', "    pd['ne'] = '%d' % (ne)\n    pd['nc'] = '%d' % (nc)", "    pd['nc'] = '%d' % (nc)\n    pd['ne'] = '%d' % (ne)", 'C12-D1'),
    ('reader-position', 'pyerrors/input/dobs.py', "    for k in range(6, len(list(dobs))):", "    for k in range(7, len(list(dobs))):", 'C12-D1'),
    ('pobs-start', 'pyerrors/input/dobs.py', "    for i in range(5, len(pobs)):", "    for i in range(6, len(pobs)):", 'C12-D1'),
    ('offset-sign', 'pyerrors/input/dobs.py', "offsets = [o.r_values[repname] - o.value if repname in o.r_values else 0 for o in obsl]", "offsets = [o.value - o.r_values[repname] if repname in o.r_values else 0 for o in obsl]", 'C12-D2'),
    ('reader-mean', 'pyerrors/input/dobs.py', "                    tmp[j] = deltad[name][i][j] + mean[i]", "                    tmp[j] = deltad[name][i][j]", 'C12-D2'),
    ('stride', 'pyerrors/input/dobs.py', "            _dat += [np.array(tmp[1 + a:: na + 1])]", "            _dat += [np.array(tmp[a:: na + 1])]", 'C12-D2'),
    ('grad-transpose', 'pyerrors/input/dobs.py', "                gradd[cname] = grad.T", "                gradd[cname] = grad", 'C12-D6'),
    ('true-mode-broken', 'pyerrors/input/dobs.py', "                elif separator_insertion is True:\n                    if rname.startswith(ename):", "                elif separator_insertion == 1.5:\n                    if rname.startswith(ename):", 'C12-D4'),
    ('cdata-order', 'pyerrors/input/dobs.py', "            cd['array'] = [covd, gradd]", "            cd['array'] = [gradd, covd]", 'C12-D1'),
    ('pobs-full-sample', 'pyerrors/input/dobs.py', "num = o.deltas[names[r]][c] + o.r_values[names[r]]", "num = o.deltas[names[r]][c]", 'C12-D2'),
    ('pobs-global-mean', 'pyerrors/input/dobs.py', "num = o.deltas[names[r]][c] + o.r_values[names[r]]", "num = o.deltas[names[r]][c] + o.value", 'C12-D7'),
    ('grad-orientation-by-shape', 'pyerrors/input/dobs.py', "            if grad.shape[1] == 1:\n                gradd[cname] = [grad for i in range(len(mean))]", "            if grad.shape[0] == len(mean):\n                gradd[cname] = grad", 'C12-D7'),
    ('separator-not-forwarded', 'pyerrors/input/dobs.py', "    return import_dobs_string(content, full_output, separator_insertion=separator_insertion)", "    return import_dobs_string(content, full_output)", 'C12-D6'),
    ('benign-separator-style', 'pyerrors/input/dobs.py', "if separator_insertion is None or separator_insertion is False:", "if separator_insertion in [None, False]:", 'BENIGN'),
]
