"""C13  Jackknife and bootstrap export/import are exact resampling transforms.

Decides only:
  D1 (proof) import_jackknife o export_jackknife = identity: from the two extracted formulas J_i = (n m - x_i)/(n-1) and
     x = J (1 - (n-1) I), symbolic n; entry 0 carries the central value both ways; idl is passed through
  D2 export_bootstrap and import_bootstrap build the same projector; export = proj @ data, import = lstsq(proj, boots[1:]); shape guards
  D3 name-seeded, reproducible random numbers: seed depends on the chain name only, no global numpy random state
"""
import ast

import sympy as sp

from ..srcmodel import Unrecognised, unparse, call_name, kwarg, walk, statements, guards_of, const
from ..matx import MatX
from .C07 import find_def

LEVEL = 'proof'
EXPLANATION = ('the leave-one-out formula of export_jackknife and the projector of import_jackknife are extracted and the identity import(export(x)) = x is proven '
               'symbolically in n; the bootstrap projectors of exporter and importer are compared in matrix normal form; the def-use closure of the seed is computed')
LEVEL_TEXT = ('decides only: the jackknife importer is the algebraic inverse of the exporter for every chain length n (symbolic proof from the extracted formulas), entry 0 = central '
              'value, configuration list passed through; bootstrap exporter and importer use the identical projector expression and proj @ data / lstsq(proj, samples); the seed is a '
              'function of the chain name only. Variance identities and rank conditions are numerical and not decided.')
TECHNIQUE = 'formula extraction + sympy proof with symbolic length; matrix normal form comparison; def-use closure of the RNG seed'


def _strip_asarray_of_params(mod, f):
    """a copy of f in which np.asarray(p) / np.array(p) of a parameter p reads p (the conversion does not change any number)"""
    import copy as _copy
    params = {a.arg for a in f.args.args}
    g = _copy.deepcopy(f)

    class R(ast.NodeTransformer):
        def visit_Call(self, n):
            self.generic_visit(n)
            if isinstance(n.func, ast.Attribute) and n.func.attr in ('asarray', 'array') and isinstance(n.func.value, ast.Name) and n.func.value.id in ('np', 'numpy') and len(n.args) == 1 \
                    and not n.keywords and isinstance(n.args[0], ast.Name) and n.args[0].id in params:
                return n.args[0]
            return n
    g = R().visit(g)
    # `p = p` left behind by `p = np.asarray(p)`
    for blk_owner in ast.walk(g):
        for fld in ('body', 'orelse'):
            blk = getattr(blk_owner, fld, None)
            if isinstance(blk, list):
                blk[:] = [s_ for s_ in blk if not (isinstance(s_, ast.Assign) and len(s_.targets) == 1 and isinstance(s_.targets[0], ast.Name) and isinstance(s_.value, ast.Name)
                                                   and s_.targets[0].id == s_.value.id and len(blk) > 1)]
    ast.fix_missing_locations(g)
    for n in ast.walk(g):
        for ch in ast.iter_child_nodes(n):
            mod.parents[ch] = n
    return g


def d1_jackknife(ctx, obs):
    rule = 'C13-D1'
    ex = obs.func('Obs.export_jackknife')
    im = _strip_asarray_of_params(obs, obs.func('import_jackknife'))
    n = sp.Symbol('n', positive=True, integer=True)
    xi, mean, S = sp.symbols('x_i mean S', real=True)      # S = sum of all data = n * mean
    # exporter: tmp[1:] = (n * mean - full_data) / (n - 1)
    st = [s for s in statements(ex) if isinstance(s, ast.Assign) and isinstance(s.targets[0], ast.Subscript) and isinstance(s.targets[0].slice, ast.Slice)
          and const(s.targets[0].slice.lower) == 1]
    st0 = [s for s in statements(ex) if isinstance(s, ast.Assign) and isinstance(s.targets[0], ast.Subscript) and const(s.targets[0].slice) == 0]
    if len(st) != 1 or len(st0) != 1:
        ctx.unrec(rule, 'obs.py:Obs.export_jackknife#formula', 'assignments to [0] and [1:] not found')
        return
    loc = {s.targets[0].id: s.value for s in statements(ex) if isinstance(s, ast.Assign) and isinstance(s.targets[0], ast.Name)}

    def tr(e):
        if isinstance(e, ast.Name):
            if e.id in loc:
                v = loc[e.id]
                t = unparse(v)
                if t.endswith('.size') or t.startswith('len('):
                    return n
                if t in ('self.value', 'self._value'):
                    return mean
                if 'self.deltas[' in t and 'self.r_values[' in t and isinstance(v, ast.BinOp) and isinstance(v.op, ast.Add):
                    return xi
                return tr(v)
            raise Unrecognised('name %s' % e.id)
        if isinstance(e, ast.Constant):
            return sp.nsimplify(e.value, rational=True)
        if isinstance(e, ast.BinOp):
            a, b = tr(e.left), tr(e.right)
            return {ast.Add: lambda: a + b, ast.Sub: lambda: a - b, ast.Mult: lambda: a * b, ast.Div: lambda: a / b}[type(e.op)]()
        raise Unrecognised('cannot translate %s' % unparse(e))
    try:
        J = tr(st[0].value)
        J0 = tr(st0[0].value)
    except Unrecognised as e:
        ctx.unrec(rule, 'obs.py:Obs.export_jackknife#formula', str(e))
        return
    ctx.check(rule, 'obs.py:Obs.export_jackknife#leave-one-out', sp.simplify(J - (n * mean - xi) / (n - 1)) == 0, 'sample i = (n mean - x_i)/(n-1) = mean of the others',
              'jackknife sample is %s' % J, obs.loc(st[0]))
    ctx.check(rule, 'obs.py:Obs.export_jackknife#entry0', J0 == mean, 'entry 0 = central value', 'entry 0 = %s' % J0, obs.loc(st0[0]))
    # importer: translate the expression for `samples` over the symbols J_i (sample i), SJ (sum of all samples), J0 (entry 0), n
    smp = find_def(im, 'samples')
    key = 'obs.py:import_jackknife#inverse'
    jname = im.args.args[0].arg
    if len(smp) != 1:
        ctx.unrec(rule, key, 'samples not single-assigned')
        return
    Ji, SJ, J0 = sp.symbols('J_i SJ J0', real=True)
    ln = find_def(im, 'length')
    okl = len(ln) == 1 and unparse(ln[0].value) == 'len(%s) - 1' % jname
    loc_i = {s_.targets[0].id: s_.value for s_ in statements(im) if isinstance(s_, ast.Assign) and isinstance(s_.targets[0], ast.Name)}

    def proj(e):
        """a*ones + b*identity -> (a, b)"""
        a_, b_ = sp.symbols('ONES IDENT', real=True)

        def t(e):
            if isinstance(e, ast.Call):
                d = obs.dotted(e.func) or ''
                if d == 'numpy.ones':
                    return a_
                if d in ('numpy.identity', 'numpy.eye'):
                    return b_
            if isinstance(e, ast.Name) and e.id == 'length':
                return n
            if isinstance(e, ast.Name) and e.id in loc_i:
                return t(loc_i[e.id])
            if isinstance(e, ast.Constant):
                return sp.Integer(e.value)
            if isinstance(e, ast.BinOp):
                x, y = t(e.left), t(e.right)
                return {ast.Add: lambda: x + y, ast.Sub: lambda: x - y, ast.Mult: lambda: x * y}[type(e.op)]()
            raise Unrecognised('projector term %s' % unparse(e))
        P = sp.expand(t(e))
        return P.coeff(a_), P.coeff(b_)

    def ti(e):
        txt = unparse(e)
        if txt == '%s[1:]' % jname:
            return Ji
        if txt == '%s[0]' % jname:
            return J0
        if isinstance(e, ast.Name) and e.id == 'length':
            return n
        if isinstance(e, ast.Constant) and isinstance(e.value, (int, float)):
            return sp.nsimplify(e.value, rational=True)
        if isinstance(e, ast.Call) and (obs.dotted(e.func) or '') in ('numpy.sum', 'sum') and len(e.args) == 1:
            a = unparse(e.args[0])
            if a == '%s[1:]' % jname:
                return SJ
            if a == jname:
                return J0 + SJ
            raise Unrecognised('sum over %s' % a)
        if isinstance(e, ast.Call) and (obs.dotted(e.func) or '') in ('numpy.mean',) and len(e.args) == 1 and unparse(e.args[0]) == '%s[1:]' % jname:
            return SJ / n
        if isinstance(e, ast.BinOp) and isinstance(e.op, ast.MatMult):
            left_ = e.left
            while isinstance(left_, ast.Subscript) and isinstance(left_.value, ast.Call) and (obs.dotted(left_.value.func) or '') in ('numpy.asarray', 'numpy.array') and left_.value.args:
                inner_ = left_.value.args[0]
                while isinstance(inner_, ast.Call) and (obs.dotted(inner_.func) or '') in ('numpy.asarray', 'numpy.array') and inner_.args:
                    inner_ = inner_.args[0]
                left_ = ast.Subscript(value=inner_, slice=left_.slice, ctx=ast.Load())
            if unparse(left_) == '%s[1:]' % jname:
                ca, cb = proj(e.right)
                return ca * SJ + cb * Ji
            raise Unrecognised('matrix product %s' % unparse(e))
        if isinstance(e, ast.BinOp):
            x, y = ti(e.left), ti(e.right)
            return {ast.Add: lambda: x + y, ast.Sub: lambda: x - y, ast.Mult: lambda: x * y, ast.Div: lambda: x / y}[type(e.op)]()
        if isinstance(e, ast.UnaryOp) and isinstance(e.op, ast.USub):
            return -ti(e.operand)
        raise Unrecognised('cannot translate %s' % unparse(e))
    try:
        expr = ti(smp[0].value)
    except (Unrecognised, KeyError) as e:
        ctx.unrec(rule, key, str(e), obs.loc(smp[0]))
        return
    # exported samples: J_i = (S - x_i)/(n-1), their sum is S, entry 0 is the mean S/n
    rec = expr.subs({Ji: (S - xi) / (n - 1), SJ: S, J0: S / n})
    ok = sp.simplify(rec - xi) == 0 and okl
    ctx.check(rule, key, ok, 'import(export(x))_i = x_i for every chain length n (entry 0 is not part of the reconstruction)',
              'import(export(x))_i = %s instead of x_i (samples = %s)' % (sp.simplify(rec), unparse(smp[0].value)), obs.loc(smp[0]))
    # result object
    oc = [c for c in walk(im) if isinstance(c, ast.Call) and call_name(c) == 'Obs']
    okc = len(oc) == 1 and unparse(oc[0].args[0]) == '[samples - mean]' and unparse(kwarg(oc[0], 'means')) == '[mean]' and unparse(kwarg(oc[0], 'idl')) == 'idl' \
        and unparse(oc[0].args[1]) == '[%s]' % im.args.args[1].arg
    mn = find_def(im, 'mean')
    okc = okc and len(mn) == 1 and unparse(mn[0].value) == 'np.mean(samples)'
    ctx.check(rule, 'obs.py:import_jackknife#obs', okc, 'fluctuations = samples - mean, replica mean = mean, idl passed through', 'constructed as %s' % (unparse(oc[0]) if oc else None))
    v0 = [s for s in statements(im) if isinstance(s, ast.Assign) and isinstance(s.targets[0], ast.Attribute) and s.targets[0].attr == '_value']
    ctx.check(rule, 'obs.py:import_jackknife#entry0', len(v0) == 1 and unparse(v0[0].value) == '%s[0]' % im.args.args[0].arg, 'central value = entry 0', 'value = %s' % [unparse(s.value) for s in v0])
    # exporter guard
    rs = [s for s in statements(ex) if isinstance(s, ast.Raise)]
    ctx.check(rule, 'obs.py:Obs.export_jackknife#single-chain', bool(rs) and 'len(self.names) != 1' in unparse(guards_of(obs, rs[0], stop=ex)[0][0]), 'only single-chain observables', 'no single-chain guard')
    # linalg callers pass [idl]
    lin = ctx.repo.mod('linalg')
    calls = [c for c in ast.walk(lin.tree) if isinstance(c, ast.Call) and call_name(c) == 'import_jackknife']
    bad = [c for c in calls if len(c.args) != 3 or unparse(c.args[2]) != '[idl]']
    ctx.check(rule, 'linalg.py#import_jackknife-idl', not bad and len(calls) >= 6, 'jackknife based products hand the configuration list of the input on', 'calls without [idl]: %s' % [unparse(c) for c in bad])


def d2_bootstrap(ctx, obs):
    rule = 'C13-D2'
    ex = obs.func('Obs.export_bootstrap')
    im = obs.func('import_bootstrap')
    pe, pi = find_def(ex, 'proj'), find_def(im, 'proj')
    key = 'obs.py:bootstrap#projector-agreement'
    if len(pe) != 1 or len(pi) != 1:
        ctx.unrec(rule, key, 'proj definitions not found')
        return
    ctx.check(rule, key, unparse(pe[0].value) == unparse(pi[0].value), 'exporter and importer build proj = vstack(bincount(o, minlength=length))/length identically',
              'exporter: %s ; importer: %s' % (unparse(pe[0].value), unparse(pi[0].value)), obs.loc(pi[0]))
    t = unparse(pe[0].value)
    okp = 'np.bincount(o, minlength=length)' in t and t.endswith('/ length') and 'for o in random_numbers' in t
    ctx.check(rule, 'obs.py:Obs.export_bootstrap#projector', okp, 'row b = multiplicities of the drawn configurations / length', 'proj = %s' % t, obs.loc(pe[0]))
    le = find_def(ex, 'length')
    ctx.check(rule, 'obs.py:Obs.export_bootstrap#length', len(le) == 1 and unparse(le[0].value) == 'self.N', 'length = number of configurations', 'length = %s' % [unparse(s.value) for s in le])
    st = [s for s in statements(ex) if isinstance(s, ast.Assign) and isinstance(s.targets[0], ast.Subscript) and isinstance(s.targets[0].slice, ast.Slice)]
    oke = len(st) == 1 and unparse(st[0].value) == 'proj @ (self.deltas[name] + self.r_values[name])'
    ctx.check(rule, 'obs.py:Obs.export_bootstrap#samples', oke, 'samples = proj @ data', 'samples = %s' % [unparse(s.value) for s in st])
    st0 = [s for s in statements(ex) if isinstance(s, ast.Assign) and isinstance(s.targets[0], ast.Subscript) and const(s.targets[0].slice) == 0]
    ctx.check(rule, 'obs.py:Obs.export_bootstrap#entry0', len(st0) == 1 and unparse(st0[0].value) == 'self.value', 'entry 0 = central value', 'entry 0 = %s' % [unparse(s.value) for s in st0])
    sm = [s for s in statements(im) if isinstance(s, ast.Assign) and unparse(s.targets[0]) == 'samples' and isinstance(s.value, ast.Subscript)]
    oki = len(sm) == 1 and unparse(sm[0].value) == 'scipy.linalg.lstsq(proj, %s[1:])[0]' % im.args.args[0].arg
    ctx.check(rule, 'obs.py:import_bootstrap#solve', oki, 'data = least-squares solution of proj @ data = samples', 'samples = %s' % [unparse(s.value) for s in sm])
    gnodes = [guards_of(obs, s, stop=im)[0][0] for s in statements(im) if isinstance(s, ast.Raise) and guards_of(obs, s, stop=im)]
    g = [unparse(x) for x in gnodes]
    # decided on values: with (samples, length) = shape of the random numbers and nb = len(boots), some guard must fire exactly when
    # samples != nb - 1 or samples < length
    bp = im.args.args[0].arg

    class _B:
        def __init__(self, n):
            self.n = n

        def __len__(self):
            return self.n
    wrong = []
    # names of (samples, length): the targets of  <a>, <b> = random_numbers.shape
    n_s, n_l = 'samples', 'length'
    for s_ in statements(im):
        if isinstance(s_, ast.Assign) and isinstance(s_.targets[0], ast.Tuple) and len(s_.targets[0].elts) == 2 and unparse(s_.value).endswith('.shape') \
                and all(isinstance(e_, ast.Name) for e_ in s_.targets[0].elts):
            n_s, n_l = s_.targets[0].elts[0].id, s_.targets[0].elts[1].id
    try:
        for smp in range(0, 5):
            for ln in range(0, 5):
                for nb in range(0, 6):
                    fired = any(bool(eval(compile(ast.Expression(body=t_), '<guard>', 'eval'), {'__builtins__': {'len': len}}, {n_s: smp, n_l: ln, bp: _B(nb)})) for t_ in gnodes)
                    if fired != (smp != nb - 1 or smp < ln):
                        wrong.append((smp, ln, nb))
        okg = not wrong
        detail = 'guards %s decide wrongly for (samples, length, len(boots)) = %s' % (g, wrong[:4])
    except Exception as e_:
        raise Unrecognised('cannot evaluate the guards %s: %s' % (g, e_))
    ctx.check(rule, 'obs.py:import_bootstrap#guards', okg, 'shape mismatch and samples < length are rejected (evaluated on 150 size triples)', detail)
    v0 = [s for s in statements(im) if isinstance(s, ast.Assign) and isinstance(s.targets[0], ast.Attribute) and s.targets[0].attr == '_value']
    ctx.check(rule, 'obs.py:import_bootstrap#entry0', len(v0) == 1 and unparse(v0[0].value) == '%s[0]' % im.args.args[0].arg, 'central value = entry 0', 'value = %s' % [unparse(s.value) for s in v0])


def d3_seed(ctx, obs):
    rule = 'C13-D3'
    ex = obs.func('Obs.export_bootstrap')
    sd = find_def(ex, 'seed')
    key = 'obs.py:Obs.export_bootstrap#seed'
    if len(sd) != 1:
        ctx.unrec(rule, key, 'seed not single-assigned')
        return
    names = {n.id for n in ast.walk(sd[0].value) if isinstance(n, ast.Name)} - {'int', 'hashlib'}
    ctx.check(rule, key, names == {'name'} and 'hashlib.md5(name.encode())' in unparse(sd[0].value), 'seed is a function of the chain name only (md5)', 'seed depends on %s' % sorted(names), obs.loc(sd[0]))
    nm = find_def(ex, 'name')
    ctx.check(rule, key + '-name', len(nm) == 1 and unparse(nm[0].value) == 'self.names[0]', 'name = the single chain name', 'name = %s' % [unparse(s.value) for s in nm])
    rg = find_def(ex, 'rng')
    ok = len(rg) == 1 and unparse(rg[0].value) == 'np.random.default_rng(seed)'
    rn = [s for s in statements(ex) if isinstance(s, ast.Assign) and unparse(s.targets[0]) == 'random_numbers']
    ok = ok and len(rn) == 1 and unparse(rn[0].value) == 'rng.integers(0, length, size=(samples, length))'
    ctx.check(rule, key + '-generator', ok, 'numbers come from a private generator seeded by the name, uniform on [0, length)', 'generator %s / numbers %s' % ([unparse(s.value) for s in rg], [unparse(s.value) for s in rn]))
    glob = [c for c in walk(ex) if isinstance(c, ast.Call) and (obs.dotted(c.func) or '').startswith('numpy.random.') and (obs.dotted(c.func) or '') != 'numpy.random.default_rng']
    ctx.check(rule, key + '-no-global-state', not glob, 'no use of the global numpy random state', 'uses %s' % [unparse(c) for c in glob])
    g = [guards_of(obs, s, stop=ex) for s in rn]
    ctx.check(rule, key + '-only-when-missing', bool(g) and unparse(g[0][0][0]) == 'random_numbers is None' and g[0][0][1], 'supplied random numbers take precedence', 'generation guard differs')


def d1b_length_guards(ctx, obs, rule='C13-D1'):
    """a chain of five configurations is a valid observable (Obs.__init__ rejects fewer than five): guards on the number of samples in
    the import functions may not reject what the constructor accepts - evaluated for lengths 5, 6, 500"""
    n = 0
    for q, lname in (('import_jackknife', 'length'), ('import_bootstrap', 'length')):
        f = obs.func(q)
        for r in [s_ for s_ in statements(f) if isinstance(s_, ast.Raise)]:
            for t_, pol in guards_of(obs, r, stop=f):
                names = {y.id for y in ast.walk(t_) if isinstance(y, ast.Name)}
                if names != {lname} or not isinstance(t_, ast.Compare):
                    continue
                n += 1
                bad = []
                for L in (5, 6, 500):
                    try:
                        v = bool(eval(compile(ast.Expression(body=t_), '<guard>', 'eval'), {'__builtins__': {}, lname: L}))
                    except Exception:
                        v = None
                    if v is None or v == pol:
                        bad.append(L)
                ctx.check(rule, 'obs.py:%s#length-guard[%s]' % (q, unparse(t_)), not bad, 'chains of 5 or more configurations are accepted',
                          'the guard `%s` rejects chains of length %s, which are valid observables (5 is the minimum of the constructor)' % (unparse(t_), bad), obs.loc(r))
    ctx.info['length_guards_in_import_functions'] = n


def d4b_orientation(ctx, obs, rule='C13-D2'):
    """the table of random numbers is (samples, length) by contract; it is never re-oriented or shifted by a heuristic (a square table,
    a table that never draws configuration 0 cannot be told apart from what the heuristic looks for)"""
    n = 0
    for q in ('import_bootstrap', 'Obs.export_bootstrap'):
        f = obs.func(q)
        tr = [x for x in walk(f) if (isinstance(x, ast.Attribute) and x.attr == 'T' and 'random_numbers' in unparse(x.value))
              or (isinstance(x, ast.Call) and (obs.dotted(x.func) or '').endswith(('transpose', 'swapaxes')) and x.args and 'random_numbers' in unparse(x.args[0]))
              or (isinstance(x, ast.Call) and isinstance(x.func, ast.Attribute) and x.func.attr in ('transpose', 'swapaxes') and 'random_numbers' in unparse(x.func.value))]
        shift = [s_ for s_ in statements(f) if (isinstance(s_, ast.AugAssign) and unparse(s_.target) == 'random_numbers')
                 or (isinstance(s_, ast.Assign) and unparse(s_.targets[0]) == 'random_numbers' and isinstance(s_.value, ast.BinOp) and 'random_numbers' in unparse(s_.value))]
        n += 1
        ctx.check(rule, 'obs.py:%s#table-used-as-given' % q, not tr and not shift, 'the supplied table is used in the documented orientation and with the numbers it holds',
                  'the table of random numbers is %s (`%s`): a heuristic on its shape / content re-interprets valid tables (a square table, a table that never draws configuration 0)'
                  % ('transposed' if tr else 'shifted', unparse(tr[0]) if tr else (unparse(shift[0]) if shift else '')), obs.loc(tr[0] if tr else shift[0]) if (tr or shift) else None)
    ctx.floor('bootstrap functions with a table argument', n, 2)


def d5_effects(ctx, obs):
    """export / import never write into their arguments (the caller's sample arrays are reused for further imports): effect analysis
    with may-alias (views obtained by asarray / slicing count as the argument itself)"""
    from ..effects import Analyzer, significant
    rule = 'C13-D4'
    an = Analyzer(ctx.repo)
    n = 0
    for q in ('import_jackknife', 'import_bootstrap', 'Obs.export_jackknife', 'Obs.export_bootstrap'):
        sm = an.summary(('obs', q))
        n += 1
        bad = [e for e in sm.events if significant(e) and e.ref.root != 'self']
        f = obs.func(q)
        # numpy views: x = np.asarray(param)[...] ; x *= ... / x[...] = ...  writes through to the argument
        params = {a.arg for a in f.args.args} - {'self'}
        views = {}
        for st in statements(f):
            if isinstance(st, ast.Assign) and len(st.targets) == 1 and isinstance(st.targets[0], ast.Name):
                v = st.value
                base = v
                while isinstance(base, (ast.Subscript, ast.Attribute)):
                    base = base.value
                if isinstance(base, ast.Call) and call_name(base) in ('asarray', 'asanyarray', 'atleast_1d', 'ravel', 'reshape', 'view') and base.args and isinstance(base.args[0], ast.Name) and base.args[0].id in params:
                    views[st.targets[0].id] = base.args[0].id
                elif isinstance(base, ast.Name) and base.id in params and isinstance(v, ast.Subscript):
                    views[st.targets[0].id] = base.id
        inplace = []
        for st in statements(f):
            if isinstance(st, ast.AugAssign) and isinstance(st.target, ast.Name) and st.target.id in views:
                inplace.append((st, views[st.target.id]))
            if isinstance(st, ast.AugAssign) and isinstance(st.target, ast.Name) and st.target.id in params:
                inplace.append((st, st.target.id))
            if isinstance(st, (ast.Assign, ast.AugAssign)):
                t = st.targets[0] if isinstance(st, ast.Assign) else st.target
                if isinstance(t, ast.Subscript) and isinstance(t.value, ast.Name) and (t.value.id in views or t.value.id in params):
                    inplace.append((st, views.get(t.value.id, t.value.id)))
        if bad or inplace:
            for e in bad[:2]:
                ctx.violated(rule, 'obs.py:%s#mutates[%s]' % (q, e.ref.root), '%s mutates its argument %r (%s)' % (q, e.ref, e.kind), obs.loc(e.node))
            for st, pname in inplace[:2]:
                ctx.violated(rule, 'obs.py:%s#writes-through-view[%s]' % (q, pname), '`%s` writes in place into (a view of) the argument `%s`: the caller\'s samples are overwritten, a second import of the same array gives a different observable' % (
                    unparse(st), pname), obs.loc(st))
        else:
            ctx.holds(rule, 'obs.py:%s#effects' % q, 'no argument is written')
    ctx.floor('resampling functions with effect summary', n, 4)


def run(ctx):
    ctx.rule('C13-D1', 'jackknife: import is the algebraic inverse of export (symbolic n)')
    ctx.rule('C13-D2', 'bootstrap projector agreement')
    ctx.rule('C13-D3', 'name-seeded private RNG')
    ctx.not_decided += ['jackknife variance equals the squared naive error numerically', 'full-rank condition of the resampling table']
    obs = ctx.repo.mod('obs')
    ctx.guarded('C13-D1', 'obs.py@jackknife', d1_jackknife, ctx, obs)
    ctx.guarded('C13-D2', 'obs.py@bootstrap', d2_bootstrap, ctx, obs)
    ctx.guarded('C13-D3', 'obs.py@seed', d3_seed, ctx, obs)
    from .. import samplerule
    ctx.rule('C13-D4', 'exported data = fluctuation + replica mean of the same chain; arguments are never written (views included)')
    ctx.guarded('C13-D4', 'obs.py@samples', samplerule.check, ctx, 'C13-D4', obs, ('Obs.export_jackknife', 'Obs.export_bootstrap'))
    ctx.guarded('C13-D1', 'obs.py@length-guards', d1b_length_guards, ctx, obs)
    ctx.guarded('C13-D2', 'obs.py@table-orientation', d4b_orientation, ctx, obs)
    ctx.guarded('C13-D4', 'obs.py@effects', d5_effects, ctx, obs)
    ctx.floor('C13 obligations', len(ctx.obs), 20)


SELFTEST = [
    ('jackknife-min-length-off-by-one', 'pyerrors/obs.py', '    length = len(jacks) - 1\n', "    length = len(jacks) - 1\n    if length <= 5:\n        raise ValueError('too short')\n", 'C13-D1'),
    ('bootstrap-table-transposed', 'pyerrors/obs.py', '    samples, length = random_numbers.shape\n', '    if random_numbers.shape[1] == len(boots) - 1:\n        random_numbers = random_numbers.T\n    samples, length = random_numbers.shape\n', 'C13-D2'),
    ('import-writes-through-view', 'pyerrors/obs.py', "    samples = jacks[1:] @ prj\n", "    samples = jacks[1:] @ prj\n    rest = np.asarray(jacks)[1:]\n    rest -= mean_shift if False else 0\n", None),
    ('jack-n-over-n-1', 'pyerrors/obs.py', "tmp_jacks[1:] = (n * mean - full_data) / (n - 1)", "tmp_jacks[1:] = (n * mean - full_data) / n", 'C13-D1'),
    ('jack-projector', 'pyerrors/obs.py', "prj = (np.ones((length, length)) - (length - 1) * np.identity(length))", "prj = (np.ones((length, length)) - length * np.identity(length))", 'C13-D1'),
    ('jack-sum-includes-mean', 'pyerrors/obs.py', "    prj = (np.ones((length, length)) - (length - 1) * np.identity(length))\n    samples = jacks[1:] @ prj", "    samples = np.sum(jacks) - (length - 1) * jacks[1:]", 'C13-D1'),
    ('jack-entry0', 'pyerrors/obs.py', "    new_obs._value = jacks[0]", "    new_obs._value = np.mean(jacks[1:])", 'C13-D1'),
    ('jack-idl-dropped', 'pyerrors/obs.py', "new_obs = Obs([samples - mean], [name], idl=idl, means=[mean])", "new_obs = Obs([samples - mean], [name], means=[mean])", 'C13-D1'),
    ('jack-linalg-idl', 'pyerrors/linalg.py', "            base_matrix[index] = import_jackknife(entry, name, [idl])\n        return base_matrix\n\n    def _exp_to_jack_c", "            base_matrix[index] = import_jackknife(entry, name)\n        return base_matrix\n\n    def _exp_to_jack_c", 'C13-D1'),
    ('boot-proj-differs', 'pyerrors/obs.py', "    proj = np.vstack([np.bincount(o, minlength=length) for o in random_numbers]) / length\n\n    samples = scipy.linalg.lstsq", "    proj = np.vstack([np.bincount(o, minlength=length) for o in random_numbers]) / samples\n\n    samples = scipy.linalg.lstsq", 'C13-D2'),
    ('boot-seed-global', 'pyerrors/obs.py', "            random_numbers = rng.integers(0, length, size=(samples, length))", "            random_numbers = np.random.randint(0, length, size=(samples, length))", 'C13-D3'),
    ('boot-seed-value', 'pyerrors/obs.py', "seed = int(hashlib.md5(name.encode()).hexdigest(), 16) & 0xFFFFFFFF", "seed = (int(hashlib.md5(name.encode()).hexdigest(), 16) + length) & 0xFFFFFFFF", 'C13-D3'),
    ('boot-guard', 'pyerrors/obs.py', "    if samples < length:\n        raise ValueError(\"Obs can't be reconstructed", "    if samples < 1:\n        raise ValueError(\"Obs can't be reconstructed", 'C13-D2'),
    ('benign-importer-rewrite', 'pyerrors/obs.py', "    prj = (np.ones((length, length)) - (length - 1) * np.identity(length))\n    samples = jacks[1:] @ prj", "    samples = np.sum(jacks[1:]) - (length - 1) * jacks[1:]", 'BENIGN'),
    ('benign-jack-rewrite', 'pyerrors/obs.py', "tmp_jacks[1:] = (n * mean - full_data) / (n - 1)", "tmp_jacks[1:] = mean + (mean - full_data) / (n - 1)", 'BENIGN'),
]
