"""C14  Correlator arithmetic acts timeslice-wise and propagates undefined slices.

Decides only:
  D1 null safety of timeslice values in the arithmetic / index-transformation methods of Corr
  D2 same temporal extent: every loop over the timeslices appends exactly once per iteration on every path
  D3 NaN -> undefined and all-undefined -> error in _apply_func_to_corr and division
  D4 no mutation of operands or arguments (effect analysis over all Corr methods)
  D5 typestate: a slot set to None is not element-stored afterwards (Hankel)
  D6 naming: function methods apply the numpy function they are named after
  D7 operator / index-transformation formulas act on the same timeslice of both operands with the operator of the method
"""
import ast

import sympy as sp

from ..srcmodel import Unrecognised, unparse, call_name, kwarg, walk, statements, guards_of, const
from ..nullsafety import NullSafety
from ..effects import Analyzer, clean_path, significant
from ..matx import MatX, show
from .C07 import find_def
from .. import hiddenstate

LEVEL = 'other'
EXPLANATION = ('null-safety abstract interpretation of every Corr method (nullable timeslice values, guard idioms, short-circuit order), per-path append counting, '
               'effect analysis with may-alias for argument/operand mutation, operator-vs-method-name agreement, index-transformation formulas')
LEVEL_TEXT = ('decides only: no method of the arithmetic/index-transformation family dereferences a possibly undefined timeslice without a guard; each timeslice loop yields exactly one '
              'output slot per iteration; NaN results become undefined and all-undefined raises; no method stores through self, a parameter or an alias of one; the overloaded '
              'operators apply their own operator to the same timeslice of both operands; roll/reverse/thin/symmetric/anti_symmetric/trace/item/projected/matrix_symmetric formulas. '
              'Per-timeslice numerical equality is not decided.')
TECHNIQUE = 'null-safety dataflow (Engler-style check-vs-dereference), per-path effect counting, effect/alias analysis, operator-name agreement'

C15_FUNCS = {'Corr.deriv', 'Corr.second_deriv', 'Corr.m_eff', 'Corr.m_eff.root_function', 'Corr.plateau', 'Corr.plateau.const_func', 'Corr.fit'}
C16_FUNCS = {'Corr.GEVP', 'Corr.GEVP._get_mat_at_t', 'Corr.Eigenvalue', 'Corr.prune', '_sort_vectors', '_GEVP_solver', '_GEVP_solver.eigv', '_GEVP_solver.matmul'}
# single named exceptions (reason each)
NULL_EXCEPTIONS = {
    ('Corr.GEVP._get_mat_at_t', 'symmetric_corr[t]'): 'an undefined reference timeslice t0 is an invalid request; inside the t-loop the call is wrapped in try/except',
}
SETTERS = {'Corr.__init__': 'constructor', 'Corr.set_prange': 'documented setter of prange'}


def null_findings(mod, select):
    """run the null-safety analysis on the selected functions: yields (qualname, NullSafety, findings)"""
    for q, f in mod.functions():
        if select(q):
            ns = NullSafety(mod, f)
            yield q, ns, ns.run()


def report_null(ctx, rule, rule_typestate, mod, select, floor_name, floor):
    n_funcs = n_deref = n_guard = n_prot = 0
    for q, ns, fs in null_findings(mod, select):
        n_funcs += 1
        n_deref += ns.derefs_checked
        n_guard += ns.guard_sites
        n_prot += ns.protected
        seen = set()
        for x in fs:
            if (q, x.expr) in NULL_EXCEPTIONS:
                continue
            r = rule_typestate if x.how == 'element store' and rule_typestate else rule
            key = 'correlators.py:%s#%s' % (q, x.expr)
            if (r, key) in seen:
                continue
            seen.add((r, key))
            if x.how == 'element store':
                msg = 'slot %s may have been set to None (undefined) and is element-stored afterwards' % x.expr
            else:
                msg = 'timeslice value %s may be undefined (None) but is used as %s without a guard on the same access path' % (x.expr, x.how)
            ctx.violated(r, key, msg, mod.loc(x.node))
        if not fs:
            ctx.holds(rule, 'correlators.py:%s#null-safe' % q, '%d dereferences of timeslice values, all guarded' % ns.derefs_checked)
    ctx.floor(floor_name, n_funcs, floor)
    ctx.info.setdefault('null_safety', {})[rule] = {'functions': n_funcs, 'dereferences_checked': n_deref, 'guard_sites': n_guard, 'protected_by_try': n_prot}
    return n_deref


# ------------------------------------------------------------------ D2

def _append_paths(stmts, lst):
    """(done, cont): append counts of paths that ended the iteration early (continue/break) and of paths that fall through.
    Paths leaving the method (return/raise) build no result and are dropped."""
    done, cont = set(), {0}
    for s in stmts:
        if not cont:
            break
        if isinstance(s, ast.Expr) and isinstance(s.value, ast.Call) and isinstance(s.value.func, ast.Attribute) and s.value.func.attr == 'append' and unparse(s.value.func.value) == lst:
            cont = {r + 1 for r in cont}
        elif isinstance(s, ast.If):
            d1, c1 = _append_paths(s.body, lst)
            d2, c2 = _append_paths(s.orelse, lst)
            done |= {r + x for r in cont for x in (d1 | d2)}
            cont = {r + x for r in cont for x in (c1 | c2)}
        elif isinstance(s, (ast.For, ast.While)):
            d1, c1 = _append_paths(s.body, lst)
            if (d1 | c1) - {0}:
                cont = {r + 100 for r in cont}     # appends inside a nested loop: not a per-iteration count
        elif isinstance(s, ast.Try):
            d1, c1 = _append_paths(s.body, lst)
            hd, hc = set(), set()
            for h in s.handlers:
                a, b = _append_paths(h.body, lst)
                hd |= a
                hc |= b
            done |= {r + x for r in cont for x in (d1 | hd)}
            cont = {r + x for r in cont for x in (c1 | hc)}
        elif isinstance(s, (ast.Continue, ast.Break)):
            done |= cont
            cont = set()
        elif isinstance(s, (ast.Return, ast.Raise)):
            cont = set()
    return done, cont


def append_counts(stmts, lst):
    d, c = _append_paths(stmts, lst)
    return d | c


def d2_extent(ctx, mod):
    rule = 'C14-D2'
    n = 0
    for q, f in mod.functions():
        if not q.startswith('Corr.') or q.count('.') > 1:
            continue
        for loop in [s for s in statements(f) if isinstance(s, ast.For)]:
            it = unparse(loop.iter)
            if 'self.T' not in it and 'self.content' not in it and 'basematrix.T' not in it:
                continue
            lists = {unparse(c.func.value) for c in walk(loop) if isinstance(c, ast.Call) and isinstance(c.func, ast.Attribute) and c.func.attr == 'append'
                     and isinstance(c.func.value, ast.Name)}
            for lst in sorted(lists):
                # only lists that become the content of the result
                used = any(isinstance(c, ast.Call) and call_name(c) == 'Corr' and c.args and unparse(c.args[0]) == lst for c in walk(f)) or lst in ('rmat', 'all_vecs')
                if not used:
                    continue
                if loop is not mod.parents.get(next(c for c in walk(loop) if isinstance(c, ast.Call) and isinstance(c.func, ast.Attribute) and c.func.attr == 'append' and unparse(c.func.value) == lst)) \
                        and not any(lst == unparse(c.func.value) for st in loop.body for c in walk(st) if isinstance(c, ast.Call) and isinstance(c.func, ast.Attribute) and c.func.attr == 'append'):
                    continue
                cs = append_counts(loop.body, lst)
                n += 1
                key = 'correlators.py:%s#one-slot-per-timeslice[%s in %s]' % (q, lst, it)
                ctx.check(rule, key, cs == {1}, 'each iteration appends exactly one entry to %s on every path' % lst,
                          'an iteration over the timeslices appends %s entries to %s depending on the path: the result does not have the temporal extent of the input' % (sorted(cs), lst), mod.loc(loop))
    ctx.floor('timeslice loops with per-path append count', n, 30)
    # comprehension based results iterate the whole content
    m = 0
    for q, f in mod.functions():
        if not q.startswith('Corr.'):
            continue
        for s in statements(f):
            if isinstance(s, ast.Assign) and isinstance(s.value, ast.ListComp) and unparse(s.targets[0]) in ('newcontent', 'new_content', 'transposed'):
                g = s.value.generators
                it = unparse(g[0].iter)
                ok = len(g) == 1 and not g[0].ifs and it in ('self.content', 'range(self.T)')
                m += 1
                ctx.check(rule, 'correlators.py:%s#comprehension-extent[%s]' % (q, unparse(s.targets[0])), ok, 'one output slot per input timeslice (no filter)', 'comprehension over %s with filters %s' % (it, [unparse(i) for i in g[0].ifs]), mod.loc(s))
    ctx.floor('comprehension built contents', m, 8)


# ------------------------------------------------------------------ D3

def _zero_division_by_evaluation(ctx, mod, f):
    """True / False / None(unknown).  Evaluates the extracted __truediv__ (plus module-level one-argument helpers it calls) with stubs:
    self = a one-timeslice correlator stub, y = Obs / CObs / int / float stand-ins; a zero divisor must raise ValueError, a non-zero
    one must not raise it."""
    import copy as _copy

    class Obs:
        def __init__(self, v):
            self.value = v

        def __rtruediv__(self, o):
            return 'q'

    class CObs:
        def __init__(self, z):
            self._z = z

        def is_zero(self):
            return self._z

        def __rtruediv__(self, o):
            return 'q'

    class _Item:
        def __truediv__(self, o):
            return 'q'

    class _Self:
        T, N, prange = 1, 1, None
        content = [_Item()]

    class Corr:
        def __init__(self, *a, **k):
            pass
    called = {call_name(c) for c in walk(f) if isinstance(c, ast.Call)}
    helpers = [h for h in mod.tree.body if isinstance(h, ast.FunctionDef) and h.name in called and h.name != '_check_for_none' and len(h.args.args) == 1
               and not any(isinstance(x, (ast.Import, ast.ImportFrom, ast.Global, ast.While, ast.With, ast.Try)) for x in ast.walk(h))]
    if any(isinstance(x, (ast.Import, ast.ImportFrom, ast.Global, ast.While, ast.With)) for x in walk(f)):
        return None
    safe = {'isinstance': isinstance, 'range': range, 'len': len, 'int': int, 'float': float, 'all': all, 'any': any, 'ValueError': ValueError, 'TypeError': TypeError, 'Exception': Exception,
            'bool': bool, 'list': list, 'tuple': tuple, 'NotImplemented': NotImplemented, 'str': str, 'hasattr': hasattr, 'complex': complex}

    class _NP:
        ndarray = type('ndarray', (), {})

        @staticmethod
        def isnan(x):
            return False

        @staticmethod
        def sum(x):
            return Obs(1.0)
    try:
        g = _copy.deepcopy(f)
        g.decorator_list = []
        ns = {'__builtins__': safe, 'Obs': Obs, 'CObs': CObs, 'Corr': Corr, 'np': _NP, '_check_for_none': lambda c, e: False}
        exec(compile(ast.fix_missing_locations(ast.Module(body=[_copy.deepcopy(h) for h in helpers] + [g], type_ignores=[])), '<truediv>', 'exec'), ns)
        fn = ns[f.name]
        for y, zero in ((Obs(0), True), (Obs(0.5), False), (CObs(True), True), (CObs(False), False), (0, True), (3, False), (0.0, True), (0.25, False)):
            try:
                fn(_Self(), y)
                raised = False
            except ValueError:
                raised = True
            if raised != zero:
                return False
        return True
    except Exception:
        return None


def d3_nan(ctx, mod):
    rule = 'C14-D3'
    for q in ('Corr._apply_func_to_corr', 'Corr.__truediv__'):
        f = mod.func(q)
        st = [s for s in statements(f) if isinstance(s, ast.Assign) and isinstance(s.targets[0], ast.Subscript) and unparse(s.targets[0].value) == 'newcontent'
              and isinstance(s.value, ast.Constant) and s.value.value is None]
        okn = False
        for s in st:
            g = ' && '.join(unparse(t) for t, pol in guards_of(mod, s, stop=f) if pol)
            if 'np.isnan(' in g:
                okn = True
        ctx.check(rule, 'correlators.py:%s#nan-to-undefined' % q, okn, 'a timeslice whose result is NaN is set to None', 'no NaN -> None step', mod.loc(f))
        rs = [s for s in statements(f) if isinstance(s, ast.Raise) and any('all(' in unparse(t) and 'is None' in unparse(t) for t, pol in guards_of(mod, s, stop=f))]
        ctx.check(rule, 'correlators.py:%s#all-undefined-raises' % q, bool(rs), 'a completely undefined result raises', 'no all-None raise', mod.loc(f))
    # the function methods route through _apply_func_to_corr
    # division by a zero scalar / Obs raises
    f = mod.func('Corr.__truediv__')
    z = [unparse(guards_of(mod, s, stop=f)[-1][0]) for s in statements(f) if isinstance(s, ast.Raise) and guards_of(mod, s, stop=f)]
    textual = 'y.value == 0' in z and 'y == 0' in z and 'y.is_zero()' in z
    if not textual:
        # the zero tests may live in one predicate (a helper, or a flag computed per type): the part of __truediv__ that handles a scalar
        # divisor is evaluated with stand-in divisors of every type, zero and non-zero; it has to raise exactly for the zero ones
        textual = _zero_division_by_evaluation(ctx, mod, f)
    ctx.check(rule, 'correlators.py:Corr.__truediv__#zero-division', bool(textual), 'division by zero (number, Obs, CObs) raises', 'raise guards: %s' % z)


# ------------------------------------------------------------------ D4

def d4_effects(ctx, mod):
    rule = 'C14-D4'
    an = Analyzer(ctx.repo)
    n = 0
    for q, f in mod.functions():
        if not q.startswith('Corr.') or q.count('.') > 1:
            continue
        n += 1
        s = an.summary(('correlators', q))
        evs = [e for e in s.events if significant(e)]
        # `p /= x` on a bare parameter is in place when p is an array: evidence = the parameter is used as an array in this method
        for e in s.events:
            if not significant(e) and e.kind.startswith('augmented') and e.ref.root != 'self':
                nm = e.ref.root
                arr = any((isinstance(x, ast.Attribute) and isinstance(x.value, ast.Name) and x.value.id == nm and x.attr in ('shape', 'T', 'ndim')) or
                          (isinstance(x, ast.BinOp) and isinstance(x.op, ast.MatMult) and any(isinstance(o, ast.Name) and o.id == nm for o in (x.left, x.right)))
                          for x in walk(f))
                if arr:
                    evs.append(e)
        if q in SETTERS:
            ctx.holds(rule, 'correlators.py:%s#effects' % q, 'excepted: %s' % SETTERS[q])
            continue
        bad = []
        for e in evs:
            path = clean_path(e.ref.path)
            bad.append(e)
        if not bad:
            ctx.holds(rule, 'correlators.py:%s#effects' % q, 'no store through self, a parameter or an alias of one')
        seen = set()
        for e in bad:
            path = clean_path(e.ref.path)
            key = 'correlators.py:%s#mutates %s%s' % (q, e.ref.root, ''.join('.' + p if p != '[]' else '[]' for p in path))
            if key in seen:
                continue
            seen.add(key)
            what = 'its operand self' if e.ref.root == 'self' else 'its argument `%s`' % e.ref.root
            ctx.violated(rule, key, '%s mutates %s (%s%s)' % (q, what, e.kind, ' via ' + e.via if e.via else ''), mod.loc(e.node))
    ctx.floor('Corr methods with effect summary', n, 55)
    # canary: the analysis must flag a known-bad snippet
    import textwrap
    from ..srcmodel import Module
    src = textwrap.dedent('''
        class Corr:
            def bad(self, vec, other=None):
                if other is None:
                    other = vec
                for t in range(3):
                    other[t] = other[t] / 2
                self.content[0] = None
    ''')
    import tempfile, os
    d = tempfile.mkdtemp()
    try:
        os.makedirs(os.path.join(d, 'pyerrors'))
        with open(os.path.join(d, 'pyerrors', 'canary.py'), 'w') as fh:
            fh.write(src)
        from ..srcmodel import Repo
        r2 = Repo(d)
        a2 = Analyzer(r2)
        ev = a2.summary(('canary', 'Corr.bad')).events
        roots = {e.ref.root for e in ev}
        if roots != {'vec', 'other', 'self'}:
            ctx.unrec(rule, 'canary', 'effect analysis did not flag the embedded positive example: %s' % ev)
    finally:
        import shutil
        shutil.rmtree(d, ignore_errors=True)


# ------------------------------------------------------------------ D6 / D7

FUNC_METHODS = ['sin', 'cos', 'tan', 'sinh', 'cosh', 'tanh', 'arcsin', 'arccos', 'arctan', 'arcsinh', 'arccosh', 'arctanh']


def d6_naming(ctx, mod):
    rule = 'C14-D6'
    for name in FUNC_METHODS:
        q = 'Corr.' + name
        if not mod.has_func(q):
            ctx.violated(rule, 'correlators.py:%s' % q, 'method missing')
            continue
        f = mod.func(q)
        r = [s for s in statements(f) if isinstance(s, ast.Return)]
        ok = len(r) == 1 and isinstance(r[0].value, ast.Call) and unparse(r[0].value.func) == 'self._apply_func_to_corr' and (mod.dotted(r[0].value.args[0]) or '') == 'numpy.' + name
        ctx.check(rule, 'correlators.py:%s' % q, ok, 'applies numpy.%s to every defined timeslice' % name, '%s returns %s' % (q, [unparse(x.value) for x in r]), mod.loc(f))
    for name in ('log', 'exp'):
        f = mod.func('Corr.' + name)
        lc = [n for n in walk(f) if isinstance(n, ast.ListComp)]
        ok = len(lc) == 1 and isinstance(lc[0].elt, ast.IfExp) and (mod.dotted(lc[0].elt.orelse.func) or '') == 'numpy.' + name and unparse(lc[0].elt.orelse.args[0]) == unparse(lc[0].generators[0].target)
        ctx.check(rule, 'correlators.py:Corr.%s' % name, ok, 'applies numpy.%s to every defined timeslice' % name, 'Corr.%s differs' % name, mod.loc(f))
    f = mod.func('Corr.sqrt')
    r = [s for s in statements(f) if isinstance(s, ast.Return)]
    ctx.check(rule, 'correlators.py:Corr.sqrt', len(r) == 1 and unparse(r[0].value) == 'self ** 0.5', 'sqrt = power 1/2', 'sqrt returns %s' % [unparse(x.value) for x in r])
    f = mod.func('Corr._apply_func_to_corr')
    lc = [n for n in walk(f) if isinstance(n, ast.ListComp)]
    ok = bool(lc) and isinstance(lc[0].elt, ast.IfExp) and unparse(lc[0].elt.orelse) == '%s(%s)' % (f.args.args[1].arg, unparse(lc[0].generators[0].target))
    ctx.check(rule, 'correlators.py:Corr._apply_func_to_corr#applies', ok, 'func is applied to the timeslice it iterates', '_apply_func_to_corr element differs')


OPS = {'__add__': ast.Add, '__mul__': ast.Mult, '__truediv__': ast.Div, '__matmul__': ast.MatMult, '__rmatmul__': ast.MatMult}


def _subst(node, subst):
    import copy as _copy
    if not subst:
        return node

    class R(ast.NodeTransformer):
        def visit_Name(self, n):
            if n.id in subst and isinstance(n.ctx, ast.Load):
                return ast.parse(subst[n.id], mode='eval').body
            return n
    return ast.fix_missing_locations(R().visit(_copy.deepcopy(node)))


def loop_view(loop, y):
    """(index name, {loop variable: element expression}, header runs over all timeslices)"""
    it = unparse(loop.iter)
    tg = loop.target
    if isinstance(tg, ast.Name) and it in ('range(self.T)', 'range(len(self.content))'):
        return tg.id, {}, True
    seqs = ('self.content', '%s.content' % y)
    if isinstance(tg, ast.Name) and it == 'self.content':
        return 't', {tg.id: 'self.content[t]'}, True
    if isinstance(loop.iter, ast.Call) and call_name(loop.iter) == 'enumerate' and len(loop.iter.args) == 1 and unparse(loop.iter.args[0]) in seqs and isinstance(tg, ast.Tuple) \
            and len(tg.elts) == 2 and all(isinstance(x, ast.Name) for x in tg.elts):
        return tg.elts[0].id, {tg.elts[1].id: '%s[%s]' % (unparse(loop.iter.args[0]), tg.elts[0].id)}, unparse(loop.iter.args[0]) == 'self.content'
    if isinstance(loop.iter, ast.Call) and call_name(loop.iter) == 'zip' and isinstance(tg, ast.Tuple) and len(tg.elts) == len(loop.iter.args) and all(isinstance(x, ast.Name) for x in tg.elts) \
            and all(unparse(a) in seqs for a in loop.iter.args):
        return 't', {x.id: '%s[t]' % unparse(a) for x, a in zip(tg.elts, loop.iter.args)}, any(unparse(a) == 'self.content' for a in loop.iter.args)
    return unparse(tg), {}, False


def d7_operators(ctx, mod):
    rule = 'C14-D7'
    n = 0
    for name, op in OPS.items():
        f = mod.func('Corr.' + name)
        y = f.args.args[1].arg
        apps = [c for c in walk(f) if isinstance(c, ast.Call) and isinstance(c.func, ast.Attribute) and c.func.attr == 'append' and unparse(c.func.value) == 'newcontent'
                and not (isinstance(c.args[0], ast.Constant) and c.args[0].value is None)]
        for c in apps:
            e = c.args[0]
            g = [unparse(t) for t, pol in guards_of(mod, c, stop=f) if pol and 'isinstance' in unparse(t)]
            branch = g[0] if g else 'always'
            key = 'correlators.py:Corr.%s#element[%s]' % (name, branch)
            n += 1
            if not (isinstance(e, ast.BinOp)):
                ctx.unrec(rule, key, 'element %s is not a binary operation' % unparse(e), mod.loc(c))
                continue
            loop = mod.parents.get(c)
            while not isinstance(loop, ast.For):
                loop = mod.parents[loop]
            # the loop is read as `for t in timeslices`: index loops, and loops over the content lists themselves (element,
            # enumerate, zip of the two operands) whose variables stand for the entries at one common t (T = len(content))
            t, subst, it_ok = loop_view(loop, y)
            l, r = unparse(_subst(e.left, subst)), unparse(_subst(e.right, subst))
            corr_branch = 'Corr' in branch and 'isinstance(%s, Corr)' % y in branch
            if name == '__rmatmul__':
                want = (y, 'self.content[%s]' % t)
            elif corr_branch:
                want = ('self.content[%s]' % t, '%s.content[%s]' % (y, t))
            else:
                want = ('self.content[%s]' % t, y)
            ok = type(e.op) is op and (l, r) == want and it_ok
            ctx.check(rule, key, ok, 'entry t = %s %s %s' % (want[0], op.__name__, want[1]),
                      'entry t of the result is %s; the operation %s requires %s %s %s at the same timeslice' % (unparse(e), name, want[0], op.__name__, want[1]), mod.loc(c))
    ctx.floor('operator element expressions', n, 8)      # 10 on the reference tree; branches of equal treatment may be merged
    simple = {
        '__radd__': 'self + y', '__rmul__': 'self * y', '__sub__': 'self + -y', '__rsub__': '-self + y', '__rtruediv__': '(self / y) ** (-1)',
    }
    for name, want in simple.items():
        f = mod.func('Corr.' + name)
        r = [s for s in statements(f) if isinstance(s, ast.Return)]
        got = unparse(r[0].value) if len(r) == 1 else None
        got_n = got.replace('(-y)', '-y') if got else got
        ctx.check(rule, 'correlators.py:Corr.%s' % name, got_n in (want, want.replace('(-1)', '-1')), '%s = %s' % (name, want), '%s returns %s' % (name, got), mod.loc(f))
    # comprehension based: __neg__, __pow__, __abs__
    for name, pat in (('__neg__', lambda it: ('-1.0 * %s' % it, '-%s' % it, '-1 * %s' % it)), ('__pow__', lambda it: ('%s ** y' % it,)), ('__abs__', lambda it: ('np.abs(%s)' % it,))):
        f = mod.func('Corr.' + name)
        lc = [x for x in walk(f) if isinstance(x, ast.ListComp)]
        ok = len(lc) == 1 and isinstance(lc[0].elt, ast.IfExp) and unparse(lc[0].elt.orelse) in pat(unparse(lc[0].generators[0].target)) and unparse(lc[0].generators[0].iter) == 'self.content'
        ctx.check(rule, 'correlators.py:Corr.%s' % name, ok, 'acts on every defined timeslice', '%s element is %s' % (name, unparse(lc[0].elt) if lc else None), mod.loc(f))
    # shape checks of Corr-Corr operations
    for name in ('__add__', '__mul__', '__truediv__', '__matmul__'):
        f = mod.func('Corr.' + name)
        rs = [unparse(guards_of(mod, s, stop=f)[-1][0]) for s in statements(f) if isinstance(s, ast.Raise) and guards_of(mod, s, stop=f)]
        ok = any('self.T' in x and 'y.T' in x for x in rs) if name != '__matmul__' else any('self.N == y.N' in x for x in rs)
        ctx.check(rule, 'correlators.py:Corr.%s#shape-check' % name, ok, 'operands of different extent are rejected', 'raise guards %s' % rs, mod.loc(f))

    # ---- index transformations
    f = mod.func('Corr.reverse')
    r = [s for s in statements(f) if isinstance(s, ast.Return)]
    ctx.check(rule, 'correlators.py:Corr.reverse', len(r) == 1 and unparse(r[0].value) == 'Corr(self.content[::-1])', 'content reversed', 'reverse returns %s' % [unparse(x.value) for x in r])
    f = mod.func('Corr.roll')
    r = [s for s in statements(f) if isinstance(s, ast.Return)]
    ok = len(r) == 1 and 'np.roll(np.array(self.content, dtype=object), %s, axis=0)' % f.args.args[1].arg in unparse(r[0].value)
    ctx.check(rule, 'correlators.py:Corr.roll', ok, 'periodic shift by dt along the time axis', 'roll returns %s' % [unparse(x.value) for x in r])
    f = mod.func('Corr.thin')
    ifs = [s for s in statements(f) if isinstance(s, ast.If)]
    ok = len(ifs) == 1 and unparse(ifs[0].test) == '(offset + t) % spacing != 0' and unparse(ifs[0].body[0]) == 'new_content.append(None)' and unparse(ifs[0].orelse[0]) == 'new_content.append(self.content[t])'
    ctx.check(rule, 'correlators.py:Corr.thin', ok, 'keeps timeslice t iff (offset + t) % spacing == 0, in place t', 'thin differs', mod.loc(f))
    for name, op in (('symmetric', ast.Add), ('anti_symmetric', ast.Sub)):
        f = mod.func('Corr.' + name)
        apps = [c for c in walk(f) if isinstance(c, ast.Call) and isinstance(c.func, ast.Attribute) and c.func.attr == 'append' and not (isinstance(c.args[0], ast.Constant))]
        ok = False
        if len(apps) == 1 and isinstance(apps[0].args[0], ast.BinOp):
            e = apps[0].args[0]
            ok = const(e.left) == 0.5 and isinstance(e.right, ast.BinOp) and type(e.right.op) is op and unparse(e.right.left) == 'self.content[t]' and unparse(e.right.right) == 'self.content[self.T - t]'
        first = find_def(f, 'newcontent')
        ok = ok and len(first) == 1 and unparse(first[0].value) == '[self.content[0]]'
        lp = [s for s in statements(f) if isinstance(s, ast.For)]
        ok = ok and any(unparse(l.iter) == 'range(1, self.T)' for l in lp)
        ctx.check(rule, 'correlators.py:Corr.%s' % name, ok, 'entry t = (C(t) %s C(T-t))/2 for t >= 1, entry 0 kept' % ('+' if op is ast.Add else '-'), '%s formula differs' % name, mod.loc(f))
        g = [unparse(s.test) for s in statements(f) if isinstance(s, ast.If) and 'is None' in unparse(s.test) and 'self.T - t' in unparse(s.test)]
        ctx.check(rule, 'correlators.py:Corr.%s#undefined' % name, g == ['self.content[t] is None or self.content[self.T - t] is None'], 'undefined iff one of the two slices is undefined', 'guard %s' % g)
    f = mod.func('Corr.T_symmetry')
    tp = find_def(f, 'T_partner')
    r = [s for s in statements(f) if isinstance(s, ast.Return)]
    ok = len(tp) == 1 and unparse(tp[0].value) == 'parity * partner.reverse()' and len(r) == 1 and unparse(r[0].value) == '(self + T_partner) / 2'
    ctx.check(rule, 'correlators.py:Corr.T_symmetry', ok, '(C + parity * reversed partner)/2', 'T_symmetry differs', mod.loc(f))
    f = mod.func('Corr.trace')
    apps = [c for c in walk(f) if isinstance(c, ast.Call) and isinstance(c.func, ast.Attribute) and c.func.attr == 'append' and not isinstance(c.args[0], ast.Constant)]
    ctx.check(rule, 'correlators.py:Corr.trace', len(apps) == 1 and unparse(apps[0].args[0]) == 'np.trace(self.content[t])', 'trace of the same timeslice', 'trace element %s' % [unparse(a.args[0]) for a in apps])
    f = mod.func('Corr.item')
    lc = [x for x in walk(f) if isinstance(x, ast.ListComp)]
    i, j = f.args.args[1].arg, f.args.args[2].arg
    ok = len(lc) == 1 and unparse(lc[0].elt) == 'None if item is None else item[%s, %s]' % (i, j) and unparse(lc[0].generators[0].iter) == 'self.content'
    ctx.check(rule, 'correlators.py:Corr.item', ok, 'entry [i, j] of every defined timeslice', 'item element %s' % (unparse(lc[0].elt) if lc else None))
    f = mod.func('Corr.matrix_symmetric')
    tr = find_def(f, 'transposed')
    r = [unparse(s.value) for s in statements(f) if isinstance(s, ast.Return)]
    ok = len(tr) == 1 and unparse(tr[0].value) == '[None if _check_for_none(self, G) else G.T for G in self.content]' and sorted(r) == ['0.5 * (Corr(transposed) + self)', '1.0 * self']
    ctx.check(rule, 'correlators.py:Corr.matrix_symmetric', ok, '(G^T + G)/2 per timeslice (copy if already symmetric)', 'matrix_symmetric differs: %s' % r, mod.loc(f))
    f = mod.func('Corr.projected')
    mx = MatX(mod, None, inline=False)
    n_proj = 0
    for x in walk(f):
        if not (isinstance(x, ast.ListComp) and isinstance(x.elt, ast.IfExp)):
            continue
        e = x.elt.orelse if (isinstance(x.elt.body, ast.Constant) and x.elt.body.value is None) else x.elt.body
        try:
            g = mx.t(e)
        except Unrecognised:
            continue
        if not (isinstance(g, tuple) and g[0] == 'list' and len(g) == 2 and isinstance(g[1], tuple) and g[1][0] == 'matmul' and len(g[1]) == 4):
            continue
        n_proj += 1
        a, b, c = g[1][1:]
        it = unparse(x.generators[0].target)
        src = unparse(x.generators[0].iter)
        key = 'correlators.py:Corr.projected#element[%s in %s]' % (it, src)
        if src == 'self.content':
            ok = a == ('T', ('sym', 'vector_l')) and b == ('sym', it) and c == ('sym', 'vector_r')
        else:
            ok = a == ('T', ('idx', ('sym', 'vector_l'), it)) and b == ('idx', ('attr', ('sym', 'self'), 'content'), it) and c == ('idx', ('sym', 'vector_r'), it) and src == 'range(self.T)'
        ctx.check(rule, key, ok, 'entry t = v_l(t)^T G(t) v_r(t), all three factors at the same timeslice', 'projection element is %s' % show(g), mod.loc(x))
    if n_proj != 2:
        ctx.unrec(rule, 'correlators.py:Corr.projected#elements', 'expected two projection comprehensions (fixed vectors / per-timeslice vectors), found %d' % n_proj)
    f = mod.func('Corr.Hankel')
    sts = [s for s in statements(f) if isinstance(s, ast.Assign) and isinstance(s.targets[0], ast.Subscript) and isinstance(s.targets[0].slice, ast.Tuple)]
    if not sts:
        ctx.unrec(rule, 'correlators.py:Corr.Hankel', 'no element store found')
    for k_, s_ in enumerate(sts):
        tg, v = s_.targets[0], s_.value
        key = 'correlators.py:Corr.Hankel#element[%s]' % unparse(v)
        try:
            if not (isinstance(tg.value, ast.Subscript) and len(tg.slice.elts) == 2 and isinstance(v, ast.Subscript) and const(v.slice) == 0 and isinstance(v.value, ast.Subscript)
                    and unparse(v.value.value) == 'self.content'):
                raise Unrecognised('store %s' % unparse(s_))
            tt, ii, jj = unparse(tg.value.slice), unparse(tg.slice.elts[0]), unparse(tg.slice.elts[1])
            K = v.value.slice
            if isinstance(K, ast.Call) and call_name(K) == 'wrap' and len(K.args) == 1:
                K = K.args[0]
            syms = {n: sp.Symbol(n, integer=True) for n in (tt, ii, jj)}

            def tr(e):
                if isinstance(e, ast.Name) and e.id in syms:
                    return syms[e.id]
                if isinstance(e, ast.Constant) and isinstance(e.value, int):
                    return sp.Integer(e.value)
                if isinstance(e, ast.BinOp) and isinstance(e.op, (ast.Add, ast.Sub)):
                    return tr(e.left) + tr(e.right) if isinstance(e.op, ast.Add) else tr(e.left) - tr(e.right)
                raise Unrecognised('index %s' % unparse(e))
            ok = sp.simplify(tr(K) - (syms[tt] + syms[ii] + syms[jj])) == 0
            ctx.check(rule, key, ok, 'H(t)[i, j] = C(t + i + j) (wrapped when periodic)', 'H(%s)[%s, %s] is taken from timeslice %s' % (tt, ii, jj, unparse(v.value.slice)), mod.loc(s_))
        except Unrecognised as e:
            ctx.unrec(rule, key, str(e), mod.loc(s_))
    wr = [nd for q, nd in mod.functions() if q == 'Corr.Hankel.wrap']
    if wr:
        t_ = unparse(wr[0])
        ctx.check(rule, 'correlators.py:Corr.Hankel.wrap', 'while i >= self.T' in t_ and 'i -= self.T' in t_, 'wrap(i) = i mod T', 'wrap differs')


def d10_container(ctx, mod):
    """the container itself: padding, temporal extent, item access and the definition of an undefined slice
    (patterns with metavariables, matched modulo local definitions: sa/pat.py)"""
    from .. import pat
    rule = 'C14-D10'

    def need(construct, func, patterns, ok_text):
        missing = pat.has_all(func, patterns)
        ctx.check(rule, construct, not missing, ok_text, 'no statement of the form %s' % missing, mod.loc(func))
    f = mod.func('Corr.__init__')
    need('correlators.py:Corr.__init__#padding', f,
         ['self.content = [None] * padding[0] + self.content + [None] * padding[1]', 'self.T = len(self.content)'],
         'padding[0] undefined slices in front, padding[1] behind, T = length of the padded content')
    need('correlators.py:Corr.__init__#wrap', f,
         ['self.content = [np.asarray([$I]) if $I is not None else None for $I in data_input]'],
         'each defined entry is wrapped, None stays None, order kept')
    need('correlators.py:Corr.__init__#matrix-of-corrs', f,
         ['$A[$I, $J] = data_input[$I, $J][$T]'],
         'matrix entry (i, j) at timeslice t comes from correlator (i, j) at t')
    need('correlators.py:Corr.__init__#matrix-undefined', f,
         ['any([$X.content[$T] is None for $X in data_input.flatten()])'],
         'a timeslice undefined in any entry is undefined in the matrix correlator')
    g = mod.func('Corr.__getitem__')
    need('correlators.py:Corr.__getitem__', g,
         ['self.content[$I] is None', 'len(self.content[$I]) == 1', 'return self.content[$I][0]', 'return self.content[$I]', 'return None'],
         'item access: None / the single Obs / the matrix of the same timeslice')
    c = mod.func('_check_for_none')
    need('correlators.py:_check_for_none', c, ['return len(list(filter(None, np.asarray($E).flatten()))) < $C.N ** 2'],
         'a slice is undefined unless all N^2 entries are present')
    rw = mod.func('Corr.reweighted')
    need('correlators.py:Corr.reweighted', rw, ['[$X for $X in self.content if $X is not None]', 'np.all($B == 1)', 'np.all($B == 0)'],
         'flag of the correlator = common flag of all defined entries')


def d12_hankel_and_nan(ctx, mod):
    rule = 'C14-D7'
    f = mod.func('Corr.Hankel')
    tests = [x.test for x in walk(f) if isinstance(x, ast.If) and 'periodic' in unparse(x.test) and any(isinstance(y, ast.Compare) for y in ast.walk(x.test))]
    key = 'correlators.py:Corr.Hankel#cut-off'
    if len(tests) != 1:
        ctx.unrec(rule, key, 'non-periodic cut-off test not found (%d)' % len(tests))
    else:
        wrong = []
        try:
            for T_ in range(3, 9):
                class _S:
                    T = T_
                    content = [[0.0]] * T_         # every timeslice defined: a test for undefined entries joined with `or` does not fire
                for N_ in range(1, 4):
                    for t_ in range(T_):
                        glb_ = {'__builtins__': {'any': any, 'all': all, 'range': range, 'len': len}, 'self': _S, 'periodic': False, 'N': N_, 't': t_, 'wrap': (lambda i_, T__=T_: i_ % T__)}
                        got = bool(eval(compile(ast.Expression(body=tests[0]), '<cutoff>', 'eval'), glb_))
                        if got != (t_ + 2 * (N_ - 1) > T_ - 1):
                            wrong.append((T_, N_, t_))
            ctx.check(rule, key, not wrong, 'without periodicity a timeslice is undefined exactly when its last entry C(t + 2(N-1)) lies beyond T-1',
                      'the cut-off `%s` is wrong for (T, N, t) = %s: an entry beyond the lattice is wrapped around to C(0)' % (unparse(tests[0]), wrong[:4]), mod.loc(f))
        except Exception as ex_:
            ctx.unrec(rule, key, 'cannot evaluate %s: %r' % (unparse(tests[0]), ex_))
    g = mod.func('Corr._apply_func_to_corr')
    nan = [c for c in walk(g) if isinstance(c, ast.Call) and call_name(c) == 'isnan']
    key = 'correlators.py:Corr._apply_func_to_corr#nan-test'
    if not nan:
        ctx.unrec(rule, key, 'NaN test not found')
    else:
        arg = nan[0].args[0]
        base = arg
        while isinstance(base, ast.Attribute):
            base = base.value
        src = base
        if isinstance(base, ast.Name):
            ds = [s_ for s_ in statements(g) if isinstance(s_, ast.Assign) and unparse(s_.targets[0]) == base.id]
            if len(ds) == 1:
                src = ds[0].value
        whole = isinstance(src, ast.Call) and call_name(src) in ('sum', 'any', 'max', 'min', 'all', 'isnan')
        ctx.check(rule, key, whole, 'the NaN test looks at an aggregate of the whole timeslice',
                  'the NaN test looks at `%s`, one entry of the timeslice: NaN entries elsewhere in a matrix stay defined (and for N > 1 the entry has no .value, so the test is skipped)' % unparse(src), mod.loc(nan[0]))


def d11_check_owner(ctx, mod):
    """a timeslice is judged with the dimension of the correlator it belongs to: in _check_for_none(A, B) with B = <obj>.content[...]
    (or an element iterated from <obj>.content), A is <obj>"""
    rule = 'C14-D10'
    n = 0
    for q, f in mod.functions():
        for c in walk(f):
            if not (isinstance(c, ast.Call) and call_name(c) == '_check_for_none' and len(c.args) == 2 and mod.enclosing_func(c) is f):
                continue
            a, b = c.args
            owner = None
            if isinstance(b, ast.Subscript) and isinstance(b.value, ast.Attribute) and b.value.attr == 'content':
                owner = unparse(b.value.value)
            elif isinstance(b, ast.Name):
                # element of a comprehension / loop over <obj>.content
                for g in walk(f):
                    tgt = it = None
                    if isinstance(g, ast.comprehension):
                        tgt, it = g.target, g.iter
                    elif isinstance(g, ast.For):
                        tgt, it = g.target, g.iter
                    if tgt is not None and isinstance(tgt, ast.Name) and tgt.id == b.id and isinstance(it, ast.Attribute) and it.attr == 'content':
                        owner = unparse(it.value)
                    if tgt is not None and isinstance(tgt, ast.Tuple) and any(isinstance(e, ast.Name) and e.id == b.id for e in tgt.elts) and isinstance(it, ast.Call) and call_name(it) == 'enumerate' \
                            and it.args and isinstance(it.args[0], ast.Attribute) and it.args[0].attr == 'content':
                        owner = unparse(it.args[0].value)
            if owner is None:
                continue
            n += 1
            ctx.check(rule, 'correlators.py:%s#none-test[%s]' % (q, unparse(c)[:50]), unparse(a) == owner, 'slice of %s judged with the dimension of %s' % (owner, owner),
                      '%s judges a timeslice of `%s` with the matrix dimension of `%s`: for operands of different dimension every slice counts as undefined (or none does)' % (unparse(c), owner, unparse(a)), mod.loc(c))
    ctx.floor('_check_for_none calls with a known owner', n, 20)


def run(ctx):
    ctx.rule('C14-D1', 'null safety of timeslice values (arithmetic / index transformations)')
    ctx.rule('C14-D2', 'one output slot per timeslice on every path')
    ctx.rule('C14-D3', 'NaN -> undefined, all-undefined -> error')
    ctx.rule('C14-D4', 'no mutation of operands or arguments')
    ctx.rule('C14-D5', 'nullable slot typestate')
    ctx.rule('C14-D6', 'function methods apply the function they are named after')
    ctx.rule('C14-D7', 'operator and index-transformation formulas')
    ctx.not_decided += ['per-timeslice numerical equality', 'complex-content corner cases', 'ndarray partner branches (outside the partner list of the property)']
    mod = ctx.repo.mod('correlators')
    sel = lambda q: (q.startswith('Corr.') or q in ('_check_for_none',)) and q not in C15_FUNCS and q not in C16_FUNCS
    ctx.guarded('C14-D1', 'correlators.py@null-safety', report_null, ctx, 'C14-D1', 'C14-D5', mod, sel, 'Corr methods analysed for null safety (C14 family)', 60)
    ctx.guarded('C14-D2', 'correlators.py@extent', d2_extent, ctx, mod)
    ctx.guarded('C14-D3', 'correlators.py@nan', d3_nan, ctx, mod)
    ctx.guarded('C14-D4', 'correlators.py@effects', d4_effects, ctx, mod)
    ctx.rule('C14-D8', 'no hidden state shared between calls of Corr methods')
    ctx.guarded('C14-D8', 'correlators@hidden-state', hiddenstate.check, ctx, 'C14-D8', mod, [q for q, _ in mod.functions() if q.count('.') <= 1], 'the returned correlator')
    ctx.guarded('C14-D6', 'correlators.py@naming', d6_naming, ctx, mod)
    ctx.guarded('C14-D7', 'correlators.py@operators', d7_operators, ctx, mod)
    ctx.rule('C14-D10', 'container: padding, extent, item access, definition of undefined')
    ctx.guarded('C14-D10', 'correlators.py@container', d10_container, ctx, mod)
    ctx.guarded('C14-D10', 'correlators.py@none-test-owner', d11_check_owner, ctx, mod)
    ctx.guarded('C14-D7', 'correlators.py@hankel-nan', d12_hankel_and_nan, ctx, mod)
    from .. import unusedparams, leakedloop
    ctx.rule('C14-D9', 'every accepted option is read (no silently ignored parameter); no loop variable read after its loop')
    for mn_ in ('correlators',):
        ctx.guarded('C14-D9', mn_ + '@parameters', unusedparams.check, ctx, 'C14-D9', ctx.repo.mod(mn_))
        ctx.guarded('C14-D9', mn_ + '@loop-variables', leakedloop.check, ctx, 'C14-D9', ctx.repo.mod(mn_))
    from .. import searchloop
    ctx.guarded('C14-D1', 'correlators@undefined-skipped-not-final', searchloop.none_ends_scan, ctx, 'C14-D1', mod)



SELFTEST = [
    ('hankel-rows-by-repetition', 'pyerrors/correlators.py', '        array = np.empty([N, N], dtype="object")\n        new_content = []\n        for t in range(self.T):\n            new_content.append(array.copy())\n', '        new_content = [np.empty([N, N], dtype="object")] * self.T\n', 'C14-G4'),
    ('hankel-cutoff-off-by-one', 'pyerrors/correlators.py', "(t + 2 * (N - 1)) >= self.T", "(t + 2 * (N - 1)) > self.T", 'C14-D7'),
    ('benign-hankel-cutoff', 'pyerrors/correlators.py', "(t + 2 * (N - 1)) >= self.T", "t + 2 * N - 1 > self.T", 'BENIGN'),
    ('none-test-wrong-owner', 'pyerrors/correlators.py', "                if _check_for_none(self, self.content[t]) or _check_for_none(y, y.content[t]):\n                    newcontent.append(None)\n                else:\n                    newcontent.append(self.content[t] + y.content[t])", "                if _check_for_none(self, self.content[t]) or _check_for_none(self, y.content[t]):\n                    newcontent.append(None)\n                else:\n                    newcontent.append(self.content[t] + y.content[t])", 'C14-D10'),
    ('fix-reverted-repr', 'pyerrors/correlators.py', "            print_range = [print_range[0], print_range[1] + 1]", "            print_range[1] += 1", 'C14-D4'),
    ('fix-reverted-antisym', 'pyerrors/correlators.py', "        if test.content[0] is not None:\n            if not all([o.is_zero_within_error(3) for o in test.content[0]]):\n                warnings.warn(\"Correlator does not seem to be anti-symmetric around x0=0.\", RuntimeWarning)", "        if not all([o.is_zero_within_error(3) for o in test.content[0]]):\n            warnings.warn(\"Correlator does not seem to be anti-symmetric around x0=0.\", RuntimeWarning)", 'C14-D1'),
    ('fix-reverted-projected', 'pyerrors/correlators.py', "                vector_l, vector_r = ([None if v is None else v / np.sqrt(v @ v) for v in vector_l],\n                                      [None if v is None else v / np.sqrt(v @ v) for v in vector_r])", "                for t in range(self.T):\n                    vector_l[t], vector_r[t] = vector_l[t] / np.sqrt((vector_l[t] @ vector_l[t])), vector_r[t] / np.sqrt(vector_r[t] @ vector_r[t])", 'C14-D4'),
    ('hankel-guard-removed', 'pyerrors/correlators.py', "            elif any(self.content[wrap(t + i + j)] is None for i in range(N) for j in range(N)):\n                new_content[t] = None\n", "", 'C14-D1'),
    ('add-guard-removed', 'pyerrors/correlators.py', "            newcontent = []\n            for t in range(self.T):\n                if _check_for_none(self, self.content[t]):\n                    newcontent.append(None)\n                else:\n                    newcontent.append(self.content[t] + y)", "            newcontent = []\n            for t in range(self.T):\n                newcontent.append(self.content[t] + y)", 'C14-D1'),
    ('mul-partner-unguarded', 'pyerrors/correlators.py', "                if _check_for_none(self, self.content[t]) or _check_for_none(y, y.content[t]):\n                    newcontent.append(None)\n                else:\n                    newcontent.append(self.content[t] * y.content[t])", "                if _check_for_none(self, self.content[t]):\n                    newcontent.append(None)\n                else:\n                    newcontent.append(self.content[t] * y.content[t])", 'C14-D1'),
    ('double-append', 'pyerrors/correlators.py', "            if (offset + t) % spacing != 0:\n                new_content.append(None)\n            else:", "            if (offset + t) % spacing != 0:\n                new_content.append(None)\n            if (offset + t) % spacing == 0:\n                new_content.append(self.content[t])\n            else:", 'C14-D2'),
    ('missing-append', 'pyerrors/correlators.py', "            if _check_for_none(self, self.content[t]):\n                newcontent.append(None)\n            else:\n                newcontent.append(np.trace(self.content[t]))", "            if _check_for_none(self, self.content[t]):\n                continue\n            else:\n                newcontent.append(np.trace(self.content[t]))", 'C14-D2'),
    ('inplace-normalise-array', 'pyerrors/correlators.py', "                vector_l, vector_r = vector_l / np.sqrt((vector_l @ vector_l)), vector_r / np.sqrt(vector_r @ vector_r)", "                vector_l /= np.sqrt(vector_l @ vector_l)\n                vector_r /= np.sqrt(vector_r @ vector_r)", 'C14-D4'),
    ('inplace-mul', 'pyerrors/correlators.py', "                else:\n                    newcontent.append(self.content[t] * y)\n            return Corr(newcontent, prange=self.prange)", "                else:\n                    self.content[t] = self.content[t] * y\n                    newcontent.append(self.content[t])\n            return Corr(newcontent, prange=self.prange)", 'C14-D4'),
    ('reverse-inplace', 'pyerrors/correlators.py', "        return Corr(self.content[:: -1])", "        self.content.reverse()\n        return Corr(list(self.content))", 'C14-D4'),
    ('sub-timeslice-shift', 'pyerrors/correlators.py', "                    newcontent.append(self.content[t] + y.content[t])", "                    newcontent.append(self.content[t] + y.content[t - 1])", None),
    ('truediv-op', 'pyerrors/correlators.py', "                    newcontent.append(self.content[t] / y.content[t])", "                    newcontent.append(self.content[t] * y.content[t])", 'C14-D7'),
    ('rmatmul-order', 'pyerrors/correlators.py', "                    newcontent.append(y @ self.content[t])", "                    newcontent.append(self.content[t] @ y)", 'C14-D7'),
    ('nan-step-removed', 'pyerrors/correlators.py', "                if np.isnan(tmp_sum.value):\n                    newcontent[t] = None", "                if np.isnan(tmp_sum.value):\n                    pass", 'C14-D3'),
    ('wrong-function', 'pyerrors/correlators.py', "        return self._apply_func_to_corr(np.arcsinh)", "        return self._apply_func_to_corr(np.arcsin)", 'C14-D6'),
    ('antisym-sign', 'pyerrors/correlators.py', "newcontent.append(0.5 * (self.content[t] - self.content[self.T - t]))", "newcontent.append(0.5 * (self.content[self.T - t] - self.content[t]))", 'C14-D7'),
    ('symmetric-index', 'pyerrors/correlators.py', "newcontent.append(0.5 * (self.content[t] + self.content[self.T - t]))", "newcontent.append(0.5 * (self.content[t] + self.content[self.T - t - 1]))", None),
    ('thin-offset', 'pyerrors/correlators.py', "            if (offset + t) % spacing != 0:", "            if (offset - t) % spacing != 0:", 'C14-D7'),
    ('item-transposed', 'pyerrors/correlators.py', "newcontent = [None if (item is None) else item[i, j] for item in self.content]", "newcontent = [None if (item is None) else item[j, i] for item in self.content]", 'C14-D7'),
    ('projected-same-vector', 'pyerrors/correlators.py', "np.asarray([vector_l[t].T @ self.content[t] @ vector_r[t]])", "np.asarray([vector_l[t].T @ self.content[t] @ vector_l[t]])", 'C14-D7'),
    ('tsym-parity', 'pyerrors/correlators.py', "        T_partner = parity * partner.reverse()", "        T_partner = partner.reverse()", 'C14-D7'),
    ('padding-swapped', 'pyerrors/correlators.py', "self.content = [None] * padding[0] + self.content + [None] * padding[1]", "self.content = [None] * padding[1] + self.content + [None] * padding[0]", 'C14-D10'),
    ('check-for-none-N', 'pyerrors/correlators.py', "< corr.N ** 2", "< corr.N", 'C14-D10'),
    ('benign-guard-style', 'pyerrors/correlators.py', "            if _check_for_none(self, self.content[t]):\n                newcontent.append(None)\n            else:\n                newcontent.append(np.trace(self.content[t]))", "            if self.content[t] is None:\n                newcontent.append(None)\n                continue\n            newcontent.append(np.trace(self.content[t]))", 'BENIGN'),
]
